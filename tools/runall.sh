#!/bin/bash
# tools/runall.sh [tier] : runs every engine once, prints summary line and exit code
TIER="${1:-quick}"
cd /verif
for id in C01 C02 C03 C04 C05 C06 C07 C08 C09 C10 C11 C12 C13 C15 C16 C17 C18 C19 C20 C14; do
  if grep -q "\"$id\"" harness/src/main.rs; then
    out=$(./target/release/gv $id $TIER 2>&1); rc=$?
    echo "$id rc=$rc $(echo "$out" | grep -E "^$id $TIER" | tail -1)"
    echo "$out" | grep -E "^VIOLATION|^MACHINERY|^  key=" | cut -c1-260 | head -12
  fi
done
