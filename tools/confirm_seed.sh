#!/bin/bash
# tools/confirm_seed.sh <seed id>   (e.g. C07-1)
# Confirms a seeded change in the scratch worktree /tmp/confirm (own build output, kept warm between
# seeds): (1) it applies and compiles, (2) the repository's suite still passes with it (same baseline
# comparison as tools/baseline_off.sh, run in the worktree), (3) the demonstration fails with the
# change and passes without it. Writes seeded/<id>/confirm.log and prints a summary line.
ID="$1"; SEED=/verif/seeded/$ID; W=${CONFIRM_DIR:-/tmp/confirm}
# a demo that must live in a member crate: seeded/<id>/demo_dir holds "<tests dir> <cargo package>"
DEMODIR=tests; PKG="--workspace"
if [ -f $SEED/demo_dir ]; then read DEMODIR P < $SEED/demo_dir; PKG="-p $P"; fi
export CARGO_NET_OFFLINE=true
if [ ! -d $W ]; then git -C /repo worktree add --detach $W HEAD >/dev/null 2>&1 || exit 2; fi
cd $W || exit 2
git checkout -q --detach $(git -C /repo rev-parse HEAD) 2>/dev/null
git checkout -- . ; rm -f tests/seed_demo.rs format/tests/seed_demo.rs completion/tests/seed_demo.rs
LOG=$SEED/confirm.log; : > $LOG
echo "== repo commit $(git rev-parse --short HEAD)" >> $LOG
git apply $SEED/patch.diff || { echo "$ID: patch does not apply" | tee -a $LOG; exit 1; }
cp $SEED/demo.rs $DEMODIR/seed_demo.rs
echo "== demo WITH the change" >> $LOG
cargo test $PKG --offline --test seed_demo >> $LOG 2>&1; WITH=$?
rm -f $DEMODIR/seed_demo.rs
echo "== suite WITH the change" >> $LOG
OUT=$(mktemp); cargo test --workspace --no-fail-fast --offline > $OUT 2>&1
python3 - $OUT >> $LOG <<'PY'
import json, re, sys
out = open(sys.argv[1], errors='replace').read()
base = json.load(open('/root/.vp/BASELINE.json')); stable = set(base['stable_pass'])
ok=set(); failed=set(); cur=None
for line in out.splitlines():
    m = re.match(r'\s+Running (?:unittests )?(\S+) \(target/debug/deps/([A-Za-z0-9_]+)-[0-9a-f]+\)', line)
    if m: cur=m.group(2); continue
    m = re.match(r'\s+Doc-tests (\S+)', line)
    if m: cur='doctest:'+m.group(1); continue
    m = re.match(r'test (.+?) \.\.\. (ok|FAILED|ignored)', line)
    if m and cur:
        full=cur+'::'+m.group(1)
        (ok if m.group(2)=='ok' else failed if m.group(2)=='FAILED' else set()).add(full)
fs=sorted(f for f in failed if f in stable)
missing=sorted(s for s in stable if s not in ok and s not in failed)
print("SUITE passed=%d failed=%d stable_failed=%d stable_missing=%d" % (len(ok), len(failed), len(fs), len(missing)))
for f in sorted(failed): print("  FAILED", f)
for m in missing[:10]: print("  MISSING", m)
PY
rm -f $OUT
# stable tests that failed are run once more on their own (the repl tests time out on a loaded machine)
for t in $(grep "^  FAILED" $LOG | grep -v "doc::check_links" | awk '{print $2}'); do
  bin=${t%%::*}; name=${t#*::}
  echo "== retry of $t alone" >> $LOG
  if cargo test --workspace --offline --test $bin -- --exact $name >> $LOG 2>&1; then echo "RETRY $t passed" >> $LOG; else echo "RETRY $t FAILED" >> $LOG; fi
done
git checkout -- .
cp $SEED/demo.rs $DEMODIR/seed_demo.rs
echo "== demo WITHOUT the change" >> $LOG
cargo test $PKG --offline --test seed_demo >> $LOG 2>&1; WITHOUT=$?
rm -f $DEMODIR/seed_demo.rs
SUITE=$(grep "^SUITE" $LOG)
RETRY=$(grep "^RETRY" $LOG | tr '\n' ';')
echo "$ID demo_with_change_rc=$WITH demo_without_change_rc=$WITHOUT $SUITE $RETRY" | tee -a $LOG
