#!/usr/bin/env python3
"""Adds to every seeded/<id>/meta.json what the main session itself ran: the confirmation in a scratch
worktree (tools/confirm_seed.sh -> confirm.log) and the run of the checks (tools/trymutant.sh)."""
import json, os
rows={json.loads(l)['seed']:json.loads(l) for l in open('/verif/seeded/results.jsonl') if l.strip()}
for seed,r in rows.items():
    d='/verif/seeded/'+seed
    mp=d+'/meta.json'
    try: m=json.load(open(mp))
    except Exception: m={"property":r['property'],"summary":r['change'],"needs":r['needs']}
    conf=""
    lp=d+'/confirm.log'
    if os.path.exists(lp):
        lines=[l for l in open(lp,errors='replace').read().splitlines() if l.startswith(seed)]
        conf=lines[-1] if lines else ""
    m['property']=r['property']
    m['verification']={
        "confirmed_in_scratch_worktree": "tools/confirm_seed.sh %s (git worktree of /repo HEAD under /tmp, removed afterwards): applies patch.diff, runs the demonstration with the change (must fail), the repository's whole suite with the change compared with BASELINE.json (stable tests that fail on the loaded machine are re-run alone), the demonstration without the change (must pass)"%seed,
        "confirmation_result": conf or "see confirm.log",
        "checks_run": "tools/trymutant.sh /verif/seeded/%s quick %s (git -C /repo apply patch.diff; ./check <id> quick; git -C /repo checkout -- .)"%(seed," ".join(r['caught_by'].keys())),
        "first_run_of_the_checks": r['first_run'],
        "strengthening": r['strengthened'],
        "caught_by": r['caught_by'],
    }
    json.dump(m,open(mp,'w'),indent=1)
print("updated",len(rows))
