#!/bin/bash
# Runs the repository's own test suite with the verification guard OFF (no --cfg gluon_verif:
# plain cargo in /repo, its own target dir) and compares against /root/.vp/BASELINE.json.
# exit 0 iff no test of the stable baseline fails.
cd /repo || exit 2
export CARGO_NET_OFFLINE=true
OUT=$(mktemp)
cargo test --workspace --no-fail-fast --offline >"$OUT" 2>&1
python3 - "$OUT" <<'PY'
import json, re, sys
out = open(sys.argv[1], errors='replace').read()
base = json.load(open('/root/.vp/BASELINE.json'))
stable = set(base['stable_pass'])
ok = set(); failed = set()
cur = None
for line in out.splitlines():
    m = re.match(r'\s+Running (?:unittests )?(\S+) \(target/debug/deps/([A-Za-z0-9_]+)-[0-9a-f]+\)', line)
    if m:
        cur = m.group(2); continue
    m = re.match(r'\s+Doc-tests (\S+)', line)
    if m:
        cur = 'doctest:' + m.group(1); continue
    m = re.match(r'test (.+?) \.\.\. (ok|FAILED|ignored)', line)
    if m and cur:
        name, res = m.group(1), m.group(2)
        name = re.sub(r' - should panic$', ' - should panic', name)
        full = (cur + '::' + name) if not cur.startswith('doctest:') else (cur + '::' + name)
        (ok if res == 'ok' else failed if res == 'FAILED' else set()).add(full)
def norm(n):
    return n
fail_stable = sorted(f for f in failed if f in stable)
print("passed=%d failed=%d (failed tests that are in the stable baseline: %d)" % (len(ok), len(failed), len(fail_stable)))
for f in sorted(failed): print("  FAILED", f)
missing = sorted(s for s in stable if s not in ok and s not in failed)
print("stable baseline tests not seen in this run: %d" % len(missing))
for m_ in missing[:20]: print("  MISSING", m_)
sys.exit(1 if fail_stable or len(missing) > 44 else 0)
PY
RC=$?
rm -f "$OUT"
exit $RC
