#!/usr/bin/env python3
"""Renders seeded/results.jsonl as the table of DESIGN.md section D (between the markers)."""
import json, re
rows=[json.loads(l) for l in open('/verif/seeded/results.jsonl') if l.strip()]
out=["<!-- SEEDED-BEGIN -->","| seed | breaks | the change | needs | first run of the checks | caught by (after strengthening, if any) |","|---|---|---|---|---|---|"]
for r in rows:
    caught="; ".join("%s: %s"%(k,v) for k,v in r['caught_by'].items()) or "NOT CAUGHT"
    first=r['first_run']+((" — strengthened: "+r['strengthened']) if r['strengthened'] else "")
    out.append("| %s | %s | %s | %s | %s | %s |"%(r['seed'],r['property'],r['change'].replace('|','\\|'),r['needs'].replace('|','\\|'),first.replace('|','\\|'),caught.replace('|','\\|')))
n=len(rows); missed=sum(1 for r in rows if r['first_run']!='caught'); uncaught=sum(1 for r in rows if not r['caught_by'])
out.append("")
out.append("%d seeded changes; %d were caught by the checks as they were, %d were missed at first and are caught after the strengthening named in the table, %d remain uncaught."%(n,n-missed,missed-uncaught,uncaught))
out.append("<!-- SEEDED-END -->")
p='/verif/DESIGN.md'; s=open(p).read()
block="\n".join(out)
if 'SEEDED-TABLE' in s: s=s.replace('SEEDED-TABLE',block)
else: s=re.sub(r'<!-- SEEDED-BEGIN -->.*?<!-- SEEDED-END -->',lambda m:block,s,flags=re.S)
open(p,'w').write(s)
print("table with",n,"rows")
