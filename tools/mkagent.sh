#!/bin/bash
# tools/mkagent.sh <name> : scratch copy of the harness for developing one engine in isolation
set -e
N="$1"; D=/tmp/ag_$N
rm -rf "$D"; mkdir -p "$D"
cp -r /verif/harness "$D/harness"
cp -r /verif/target "$D/target"
mkdir -p "$D/evidence" "$D/replays"
cp /verif/known_findings.jsonl "$D/" 2>/dev/null || true
sed -i "s#target-dir = \"/verif/target\"#target-dir = \"$D/target\"#" "$D/harness/.cargo/config.toml"
echo "$D"
