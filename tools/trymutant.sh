#!/bin/bash
# tools/trymutant.sh <seed dir with patch.diff> <tier> <ID> [ID...]
# applies the seeded change to /repo, runs the given checks, restores /repo. Prints one line per check.
SEED="$1"; TIER="$2"; shift; shift
cd /repo || exit 2
if [ -n "$(git status --porcelain --untracked-files=no)" ]; then echo "/repo is not clean"; exit 2; fi
if ! git apply "$SEED/patch.diff"; then echo "patch does not apply"; exit 2; fi
cd /verif
for id in "$@"; do
  out=$(./check $id $TIER 2>&1); rc=$?
  echo "$id rc=$rc $(echo "$out" | grep -E "^$id $TIER" | tail -1)"
  echo "$out" | grep -E "^VIOLATION|^MACHINERY|^  key=" | cut -c1-400 | head -8
done
git -C /repo checkout -- . 
