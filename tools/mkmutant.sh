#!/bin/bash
# tools/mkmutant.sh <name> : scratch git worktree of /repo (HEAD) with a warm copy of the build output,
# for a sub-agent that seeds a property-breaking change. Remove with:
#   git -C /repo worktree remove --force /tmp/mut_<name>
set -e
N="$1"; D=/tmp/mut_$N
git -C /repo worktree remove --force "$D" 2>/dev/null || true
rm -rf "$D"
git -C /repo worktree add --detach "$D" HEAD >/dev/null
# (the build output of /repo is not copied: it is large and cargo would rebuild the workspace crates anyway)
echo "$D"
