#!/usr/bin/env python3
"""Regenerates /verif/MANIFEST.json from the table below (kept valid at all times)."""
import json, sys

CLAIMED = {
 "C01": dict(level="exploration", technique="bounded-exhaustive enumeration of well-typed programs (type-directed, every term once) run on the real pipeline against a reference interpreter",
   text="Every well-typed GL-core program up to AST size 6 (quick) / 7 (thorough) at 7 result types plus full cartesian feature products (call shapes x position x capture x enclosing pattern, pattern matrices, record update orders, recursion shapes, short-circuit trees, do-chains) is compiled and run by the real parser/checker/compiler/VM with optimisation off and on and with the implicit prelude, and compared with a strict call-by-value reference interpreter. Exhaustive within the stated bound: a wrong stack slot, pattern order or arity case that manifests on any program below the bound is found.",
   note="Trusted: the harness reference interpreter (lang/refsem.rs, ~450 lines) and printer; programs whose outcome depends on the undocumented evaluation order of sibling sub-expressions are skipped and counted; under optimize=on the documented permitted difference (unused built-in arithmetic) is decided exactly by refsem::accept_set.", ref="4.1"),
 "C02": dict(level="exploration", technique="bounded-exhaustive enumeration of accepted programs and of all first-order token mutants x settings grid, executed on the real pipeline",
   text="Every enumerated well-typed program up to size 5 (quick) / 6 (thorough) under 4 corner settings (quick) / all 32 settings (thorough), every first-order token mutant (18 replacement atoms, delete, duplicate, swap) of a base set that the checker accepts, and 17 two-module programs x all 32 settings are executed; the outcome must not be a host panic or an internal-error message and a returned value must have the shape of the reported type (type-directed walk).",
   note="Internal failures are recognised by message list (vmkit::FORBIDDEN_MESSAGES) and catch_unwind; the shape check is conservative under type variables and abstract types.", ref="4.2"),
 "C04": dict(level="exploration", technique="bounded-exhaustive differential execution (optimize off vs on) of enumerated programs with host-effect log",
   text="Every enumerated program with host effects, explicit failures and discarded bindings up to size 5 (quick) / 6 (thorough), the full product of 16 dead/live positions x 14 effectful or failing expressions (direct, through record fields, closures, partial applications, an imported module) and ordered pairs of them, and the C01 feature products are each compiled twice by the real pipeline and compared on value, failure and the sequence of host-function calls.",
   note="Differential on gluon itself; the only tolerated difference is computed exactly from the reference semantics (first j failing unused built-in arithmetic operations skipped).", ref="4.4"),
}

NOT_YET = {}
for i in range(1, 21):
    pid = "C%02d" % i
    if pid not in CLAIMED:
        NOT_YET[pid] = "engine not built yet in this round (planned in DESIGN.md section 4.%d); no claim is made" % i

def main():
    checks = []
    for pid, c in sorted(CLAIMED.items()):
        checks.append({
            "property_id": pid,
            "quick_cmd": "./check %s quick" % pid,
            "thorough_cmd": "./check %s thorough" % pid,
            "evidence_file": "/verif/evidence/%s.json" % pid,
            "replay_cmd_template": "./check %s quick --replay {path}" % pid,
            "engine": "gv",
            "level_claimed": {"category": c["level"], "text": c["text"], "design_ref": "DESIGN.md section " + c["ref"]},
            "level_note": c["note"],
            "technique": c["technique"],
        })
    m = {
        "version": 1,
        "setup_cmd": "cd /verif/harness && CARGO_NET_OFFLINE=true cargo build --release --offline",
        "hooks": {
            "guard": "--cfg gluon_verif (rustc cfg flag)",
            "enable": "RUSTFLAGS come from /verif/harness/.cargo/config.toml ([build] rustflags = [\"--cfg\", \"gluon_verif\"]); every ./check rebuilds gluon from /repo's working tree through path dependencies into /verif/target",
            "baseline_off_cmd": "/verif/tools/baseline_off.sh",
            "source_commits": [],
            "add_only": True,
        },
        "engines": [
            {"name": "gv", "path": "/verif/harness", "serves_properties": sorted(CLAIMED.keys()),
             "kind_free_text": "one Rust crate (lib + multi-command binary) linking the real gluon crates from /repo; bounded-exhaustive enumerators, reference models as oracles, explicit-state search over histories replayed on fresh VMs"},
        ],
        "checks": checks,
        "not_applicable": [{"property_id": k, "reason": v} for k, v in sorted(NOT_YET.items())],
        "notes": "exit 0 = held on everything explored (KNOWN-FINDING lines for entries of known_findings.jsonl), exit 1 = VIOLATION line(s), exit 2 = machinery failure. VERIF_SEED only permutes enumeration order of capped sweeps.",
    }
    json.dump(m, open("/verif/MANIFEST.json", "w"), indent=1)
    print("MANIFEST.json written: %d checks, %d not_applicable" % (len(checks), len(NOT_YET)))

main()
