#!/usr/bin/env python3
"""Regenerates /verif/MANIFEST.json from the table below (kept valid at all times)."""
import json, sys

CLAIMED = {
 "C01": dict(level="exploration", technique="bounded-exhaustive enumeration of well-typed programs (type-directed, every term once) run on the real pipeline against a reference interpreter",
   text="Every well-typed GL-core program up to AST size 6 (quick) / 7 (thorough) at 7 result types plus full cartesian feature products (call shapes x position x capture x enclosing pattern, pattern matrices, record update orders, recursion shapes, short-circuit trees, do-chains) is compiled and run by the real parser/checker/compiler/VM with optimisation off and on and with the implicit prelude, and compared with a strict call-by-value reference interpreter. Exhaustive within the stated bound: a wrong stack slot, pattern order or arity case that manifests on any program below the bound is found.",
   note="Trusted: the harness reference interpreter (lang/refsem.rs, ~450 lines) and printer; programs whose outcome depends on the undocumented evaluation order of sibling sub-expressions are skipped and counted; under optimize=on the documented permitted difference (unused built-in arithmetic) is decided exactly by refsem::accept_set.", ref="4.1"),
 "C02": dict(level="exploration", technique="bounded-exhaustive enumeration of accepted programs and of all first-order token mutants x settings grid, executed on the real pipeline",
   text="Every enumerated well-typed program up to size 5 (quick) / 6 (thorough) under 4 corner settings (quick) / all 32 settings (thorough), every first-order token mutant (18 replacement atoms, delete, duplicate, swap) of a base set that the checker accepts, and 17 two-module programs x all 32 settings are executed; the outcome must not be a host panic or an internal-error message and a returned value must have the shape of the reported type (type-directed walk).",
   note="Internal failures are recognised by message list (vmkit::FORBIDDEN_MESSAGES) and catch_unwind; the shape check is conservative under type variables and abstract types.", ref="4.2"),
 "C04": dict(level="exploration", technique="bounded-exhaustive differential execution (optimize off vs on) of enumerated programs with host-effect log",
   text="Every enumerated program with host effects, explicit failures and discarded bindings up to size 5 (quick) / 6 (thorough), the full product of 16 dead/live positions x 14 effectful or failing expressions (direct, through record fields, closures, partial applications, an imported module) and ordered pairs of them, and the C01 feature products are each compiled twice by the real pipeline and compared on value, failure and the sequence of host-function calls.",
   note="Differential on gluon itself; the only tolerated difference is computed exactly from the reference semantics (first j failing unused built-in arithmetic operations skipped).", ref="4.4"),
 "C07": dict(level="fault_enumeration", technique="exhaustive grid of limits and interrupt placements over program families, observed through VM hooks",
   text="12 recursion families (direct, mutual, through closure argument, record field, partial application, over-application, tail position in if/match/let; tail and non-tail) and 5 allocation families are run at depths 100..100000 without limits (tail families: the peak VM stack must not depend on the depth), under every stack limit of a dense grid (every value 1..256, then steps; every value 1..512 thorough), under every memory limit baseline+8k of a dense grid, and with an interrupt requested at EVERY function entry of a run. Hooks observe accounted memory right after each limit-checked allocation, the absolute stack length and the per-frame use against the function's declared max_stack_size at every instruction.",
   note="Needs the gluon_verif hooks (on_alloc, on_instr). Allocations the VM deliberately makes outside the limit (error messages) are not counted; an OOM inside a primitive surfaces as a panic carrying the out-of-memory message and is accepted.", ref="4.7"),
 "C08": dict(level="exploration", technique="bounded-exhaustive enumeration of operator chains against a brute-force grouping reference and of ASTs x concrete styles round-tripped through the real parser",
   text="(1) ALL operator chains with up to 6 operands (7 thorough) over declared operators covering every precedence relation and associativity incl. equal precedence with opposite associativity, and the built-in operators: gluon's tree after reparse_infix must equal the unique tree consistent with all adjacent-operator constraints, conflicts must be reported (also observed end-to-end by evaluating tree-building operators). (2) All harness ASTs up to size 5 (6) plus a nesting family and a literal family, printed in 10 (16) concrete styles (explicit in, layout with indent 1/2/4, redundant parentheses at every position, comments/blank lines in every gap) parse back to the same tree; spans are in-bounds, nested, ordered, and re-parsing src[span] yields the subtree.",
   note="Only layouts documented in the book or used by std are printed; undocumented layouts are never demanded.", ref="4.8"),
 "C09": dict(level="exploration", technique="bounded-exhaustive enumeration of token/character strings, single-edit mutants of a corpus and nesting ramps, run through the real front end in watchdogged worker processes",
   text="All token sequences up to length 4 (5 thorough) over three 16-token alphabets in three indentation patterns, all character strings up to length 3 (4) over 28 lexically interesting characters, every first-order mutant (delete / duplicate / swap token, truncate at every token and inside multi-byte characters, re-indent a line) of the .glu corpus of /repo and of generated programs, and nesting ramps to depth 256 are pushed through typecheck_str (lex, layout, parse, macro expansion, rename, typecheck) in child processes with a CPU-time watchdog; no panic, abort, stack overflow or hang; every error span inside its file on char boundaries; emit_string() renders.",
   note="Exhaustive over short strings and single edits only; arbitrary 4 KiB text is not enumerable and not claimed. Corpus mutants go through the pipeline function typecheck_str delegates to (cross-checked through typecheck_str for findings).", ref="4.9"),
 "C11": dict(level="exploration", technique="bounded-exhaustive enumeration of values of a family of 60 Rust types through all marshalling routes, compared with the originals",
   text="60 Rust types (scalars, Option/Result/Vec/tuples/BTreeMap nested to depth 2 quick / 3 thorough, derived structs incl. reordered fields and generics, enums with unit/tuple/struct variants) x the full cartesian product of boundary leaf alphabets are sent through: push/get on the stack, marshal to a rooted value and back, a Gluon identity function, a Gluon function rebuilding the value constructor by constructor, a Gluon-computed fingerprint compared with Rust's, and the serde bridge (Ser then De, in child processes where it can crash). A 26x26 matrix of Gluon globals requested at Rust types must be accepted exactly on type equality.",
   note="Float equality by bits except NaN payloads; u64/usize above i64::MAX only round trip; Gluon show formats are not used.", ref="4.11"),
 "C12": dict(level="fault_enumeration", technique="bounded-exhaustive round trip of enumerated programs through real bytecode serialisation plus exhaustive truncation / undefined-reference fault enumeration in isolated processes",
   text="Every enumerated program up to size 5 (quick) / 6 (thorough) and the feature products is compiled to bytecode with the real compile_to_bytecode (serde_json), loaded and run in the same VM and in a fresh VM (dependencies imported first) and compared with the source run; each such module is also loaded into a VM without its dependencies (must be an error, not a crash). For a base set of ~22 programs EVERY truncation length of the serialised module and EVERY string leaf replaced by an undefined name is loaded in a worker process followed by a canary evaluation.",
   note="Only the serde_json route; corrupted modules that still deserialise may legitimately run; panics, crashes, hangs and an unusable VM are the violations.", ref="4.12"),
 "C16": dict(level="exploration", technique="exhaustive enumeration of orderings/histories of a program set on one VM, fresh VMs and fresh processes, compared byte-for-byte",
   text="For a set S of ~11k programs (well-typed, every token mutant of a few programs, multi-error and implicit-resolution-error programs) the triple (value, type text, rendered diagnostics) is compared between two fresh VMs, after every ordered pair and after all 24 orders of every 4-subset of a core set on one long-lived VM, and across k fresh OS processes.",
   note="The process dimension (hash seeds, ASLR) is sampled with k = 4 / 32 processes and is NOT claimed exhaustive; everything else is enumerated completely.", ref="4.16"),
 "C17": dict(level="model_checking", technique="explicit-state exploration: all operation sequences up to depth L generated from an executable Rust model and replayed on the real implementation",
   text="Every operation sequence of length 5 (quick; 7 thorough) over per-family alphabets on 2 channels, 2 references, 6 lazies (pure, failing, self-dependent, dependent, yielding) and 4 green threads is generated by a depth-first walk of a boring Rust model (VecDeque, cell, thunk state machine, coroutine) and replayed as one Gluon IO program on the real VM inside worker processes with a time limit; every step's observation and the number of thunk evaluations must equal the model's. A sequence of length L validates all its prefixes; hangs are verdicts.",
   note="Resources and thread bodies are fixed; undocumented behaviour (yield inside a thunk forced by a green thread, resume of a failed thread) is not modelled.", ref="4.17"),
 "C18": dict(level="exploration", technique="bounded-exhaustive enumeration of types x widths, printed by the real printer and read back by the real parser",
   text="All types up to weighted size 6 (quick) / 7-8 (thorough) built through the gluon_base::types constructors (functions, implicit arguments, forall, records with type fields and open tails, variants incl. GADT-style, effect rows, applications, operator names) are printed at 45 widths (20..60, 80, 100, 140, 200; every width 20..200 in thorough up to size 6) and parsed back by gluon's parser; the normal forms must be equal. 12 million (type, width) pairs in the quick tier.",
   note="Normal form identifies only what the concrete syntax cannot distinguish; a second normal form derived from the description guards the comparison.", ref="4.18"),
 "C19": dict(level="exploration", technique="bounded-exhaustive operation sequences / inputs against Rust reference models (BTreeMap, slice, str, serde_json, structural equality)",
   text="std.map: all operation histories to depth 5 (6 thorough) over 4 colliding keys and all insertion orders of up to 6 keys against BTreeMap; list/array functions on all lists over {0,1,2} up to length 5 incl. all slice index pairs; string functions on all strings up to 4 chars over multi-byte alphabets at all byte indices; JSON values up to 5 nodes round-tripped and cross-checked with serde_json; all ADT shapes up to 3 constructors x 2 fields with derived Eq/Show/Serialize/Deserialize on all value pairs to depth 2. Real std Gluon code runs on a real VM; abort-prone calls run in child processes.",
   note="Oracles demand only what the doc comments or the obvious mathematical definition say; see the engine's assume lines for what is not demanded (e.g. map.eq is structural).", ref="4.19"),
}

NOT_YET = {}
for i in range(1, 21):
    pid = "C%02d" % i
    if pid not in CLAIMED:
        NOT_YET[pid] = "engine not built yet in this round (planned in DESIGN.md section 4.%d); no claim is made" % i

def main():
    checks = []
    for pid, c in sorted(CLAIMED.items()):
        checks.append({
            "property_id": pid,
            "quick_cmd": "./check %s quick" % pid,
            "thorough_cmd": "./check %s thorough" % pid,
            "evidence_file": "/verif/evidence/%s.json" % pid,
            "replay_cmd_template": "./check %s quick --replay {path}" % pid,
            "engine": "gv",
            "level_claimed": {"category": c["level"], "text": c["text"], "design_ref": "DESIGN.md section " + c["ref"]},
            "level_note": c["note"],
            "technique": c["technique"],
        })
    m = {
        "version": 1,
        "setup_cmd": "cd /verif/harness && CARGO_NET_OFFLINE=true cargo build --release --offline",
        "hooks": {
            "guard": "--cfg gluon_verif (rustc cfg flag)",
            "enable": "RUSTFLAGS come from /verif/harness/.cargo/config.toml ([build] rustflags = [\"--cfg\", \"gluon_verif\"]); every ./check rebuilds gluon from /repo's working tree through path dependencies into /verif/target",
            "baseline_off_cmd": "/verif/tools/baseline_off.sh",
            "source_commits": [],
            "add_only": True,
        },
        "engines": [
            {"name": "gv", "path": "/verif/harness", "serves_properties": sorted(CLAIMED.keys()),
             "kind_free_text": "one Rust crate (lib + multi-command binary) linking the real gluon crates from /repo; bounded-exhaustive enumerators, reference models as oracles, explicit-state search over histories replayed on fresh VMs"},
        ],
        "checks": checks,
        "not_applicable": [{"property_id": k, "reason": v} for k, v in sorted(NOT_YET.items())],
        "notes": "exit 0 = held on everything explored (KNOWN-FINDING lines for entries of known_findings.jsonl), exit 1 = VIOLATION line(s), exit 2 = machinery failure. VERIF_SEED only permutes enumeration order of capped sweeps.",
    }
    json.dump(m, open("/verif/MANIFEST.json", "w"), indent=1)
    print("MANIFEST.json written: %d checks, %d not_applicable" % (len(checks), len(NOT_YET)))

main()
