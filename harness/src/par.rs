//! Parallel exhaustive iteration helpers (work is an index space or a shared iterator).

use std::sync::atomic::{AtomicBool, AtomicUsize, Ordering};
use std::sync::Mutex;
use std::time::{Duration, Instant};

pub fn n_workers() -> usize {
    std::env::var("VERIF_JOBS")
        .ok()
        .and_then(|s| s.parse().ok())
        .unwrap_or_else(|| {
            std::thread::available_parallelism()
                .map(|n| n.get())
                .unwrap_or(4)
                .min(16)
        })
}

/// Result of a capped sweep
pub struct Sweep<R> {
    pub results: Vec<R>,
    /// number of items processed
    pub done: usize,
    /// true iff the deadline stopped the sweep before the space was exhausted
    pub capped: bool,
}

/// Runs `f(worker_state, index)` for every index in 0..n on `n_workers()` threads (chunks handed
/// out dynamically). `init` builds the per-thread state. Each thread folds into its own `R`
/// (created by `R::default()`), results returned per thread. Stops early at `deadline`.
pub fn sweep<S, R, I, F>(n: usize, chunk: usize, deadline: Option<Instant>, init: I, f: F) -> Sweep<R>
where
    R: Default + Send,
    I: Fn(usize) -> S + Sync,
    F: Fn(&mut S, &mut R, usize) + Sync,
{
    let next = AtomicUsize::new(0);
    let done = AtomicUsize::new(0);
    let capped = AtomicBool::new(false);
    let results = Mutex::new(Vec::new());
    let workers = n_workers().min(((n + chunk - 1) / chunk.max(1)).max(1));
    std::thread::scope(|scope| {
        for w in 0..workers {
            let next = &next;
            let done = &done;
            let capped = &capped;
            let results = &results;
            let init = &init;
            let f = &f;
            std::thread::Builder::new()
                .stack_size(64 << 20)
                .spawn_scoped(scope, move || {
                    let mut st = init(w);
                    let mut r = R::default();
                    loop {
                        let start = next.fetch_add(chunk, Ordering::Relaxed);
                        if start >= n {
                            break;
                        }
                        if let Some(d) = deadline {
                            if Instant::now() >= d {
                                capped.store(true, Ordering::Relaxed);
                                break;
                            }
                        }
                        let end = (start + chunk).min(n);
                        for i in start..end {
                            f(&mut st, &mut r, i);
                        }
                        done.fetch_add(end - start, Ordering::Relaxed);
                    }
                    results.lock().unwrap().push(r);
                })
                .unwrap();
        }
    });
    Sweep {
        results: results.into_inner().unwrap(),
        done: done.load(Ordering::Relaxed),
        capped: capped.load(Ordering::Relaxed),
    }
}

pub fn deadline_for(tier: &str, quick_s: u64, thorough_s: u64) -> Instant {
    let s = if tier == "quick" { quick_s } else { thorough_s };
    let s = std::env::var("VERIF_WALL_CAP")
        .ok()
        .and_then(|x| x.parse().ok())
        .unwrap_or(s);
    Instant::now() + Duration::from_secs(s)
}

/// Streams items from a single producer to `n_workers()` worker threads in batches.
/// `produce` is called on the calling thread with an `emit` callback; it should stop producing
/// when `emit` returns false (deadline reached). Returns per-worker results and whether capped.
pub fn stream<T, S, R, P, I, F>(deadline: Option<Instant>, produce: P, init: I, f: F) -> Sweep<R>
where
    T: Send,
    R: Default + Send,
    P: FnOnce(&mut dyn FnMut(T) -> bool),
    I: Fn(usize) -> S + Sync,
    F: Fn(&mut S, &mut R, T) + Sync,
{
    use std::sync::mpsc::sync_channel;
    const BATCH: usize = 256;
    let workers = n_workers();
    let (tx, rx) = sync_channel::<Vec<T>>(workers * 4);
    let rx = Mutex::new(rx);
    let results = Mutex::new(Vec::new());
    let done = AtomicUsize::new(0);
    let mut capped = false;
    std::thread::scope(|scope| {
        for w in 0..workers {
            let rx = &rx;
            let results = &results;
            let init = &init;
            let f = &f;
            let done = &done;
            std::thread::Builder::new()
                .stack_size(64 << 20)
                .spawn_scoped(scope, move || {
                    let mut st = init(w);
                    let mut r = R::default();
                    loop {
                        let batch = {
                            let g = rx.lock().unwrap();
                            g.recv()
                        };
                        match batch {
                            Ok(items) => {
                                let n = items.len();
                                for it in items {
                                    f(&mut st, &mut r, it);
                                }
                                done.fetch_add(n, Ordering::Relaxed);
                            }
                            Err(_) => break,
                        }
                    }
                    results.lock().unwrap().push(r);
                })
                .unwrap();
        }
        let mut batch: Vec<T> = Vec::with_capacity(BATCH);
        let mut stop = false;
        {
            let mut emit = |t: T| -> bool {
                if stop {
                    return false;
                }
                batch.push(t);
                if batch.len() >= BATCH {
                    let full = std::mem::replace(&mut batch, Vec::with_capacity(BATCH));
                    if tx.send(full).is_err() {
                        stop = true;
                        return false;
                    }
                    if let Some(d) = deadline {
                        if Instant::now() >= d {
                            stop = true;
                            return false;
                        }
                    }
                }
                true
            };
            produce(&mut emit);
        }
        capped = stop;
        if !batch.is_empty() {
            let _ = tx.send(batch);
        }
        drop(tx);
    });
    Sweep {
        results: results.into_inner().unwrap(),
        done: done.load(Ordering::Relaxed),
        capped,
    }
}
