//! Driving the real implementation: VM construction, evaluation, outcome classification and an
//! untyped structural walk of result values.

use gluon::vm::api::{Hole, OpaqueValue, ValueRef};
use gluon::vm::thread::{RootedThread, Thread};
use gluon::{new_vm, ThreadExt};
use serde_json::{json, Value};
use std::fmt;

#[derive(Clone, Copy, Debug, PartialEq, Eq, Hash)]
pub struct Settings {
    pub implicit_prelude: bool,
    pub optimize: bool,
    pub emit_debug_info: bool,
    pub run_io: bool,
    pub full_metadata: bool,
}

impl Settings {
    pub const fn bare() -> Settings {
        Settings {
            implicit_prelude: false,
            optimize: true,
            emit_debug_info: true,
            run_io: false,
            full_metadata: false,
        }
    }
    pub fn from_bits(b: u32) -> Settings {
        Settings {
            implicit_prelude: b & 1 != 0,
            optimize: b & 2 != 0,
            emit_debug_info: b & 4 != 0,
            run_io: b & 8 != 0,
            full_metadata: b & 16 != 0,
        }
    }
    pub fn to_json(&self) -> Value {
        json!({"implicit_prelude": self.implicit_prelude, "optimize": self.optimize,
               "emit_debug_info": self.emit_debug_info, "run_io": self.run_io,
               "full_metadata": self.full_metadata})
    }
    pub fn from_json(v: &Value) -> Settings {
        Settings {
            implicit_prelude: v["implicit_prelude"].as_bool().unwrap_or(false),
            optimize: v["optimize"].as_bool().unwrap_or(true),
            emit_debug_info: v["emit_debug_info"].as_bool().unwrap_or(true),
            run_io: v["run_io"].as_bool().unwrap_or(false),
            full_metadata: v["full_metadata"].as_bool().unwrap_or(false),
        }
    }
}

pub fn apply_settings(vm: &Thread, s: Settings) {
    let mut db = vm.get_database_mut();
    db.set_implicit_prelude(s.implicit_prelude);
    db.set_optimize(s.optimize);
    db.set_emit_debug_info(s.emit_debug_info);
    db.set_run_io(s.run_io);
    db.set_full_metadata(s.full_metadata);
}

pub fn make_vm(s: Settings) -> RootedThread {
    let vm = new_vm();
    apply_settings(&vm, s);
    vm
}

/// Untyped structural image of a VM value. VM values are untagged: `False`, `()` and the first
/// nullary constructor are all `Tag(0)`; records are `Data(0, fields in type order)`.
#[derive(Clone, Debug, PartialEq, Eq, Hash, PartialOrd, Ord)]
pub enum W {
    Int(i64),
    Byte(u8),
    Float(u64),
    Str(String),
    /// tag, fields (a `Tag(n)` is `Data(n, [])`)
    Data(u32, Vec<W>),
    Array(Vec<W>),
    Closure,
    Userdata,
    Thread,
    Internal,
    /// walk cut (cycle or depth)
    Cut,
}

impl fmt::Display for W {
    fn fmt(&self, f: &mut fmt::Formatter) -> fmt::Result {
        match self {
            W::Int(i) => write!(f, "{}", i),
            W::Byte(b) => write!(f, "{}b", b),
            W::Float(x) => write!(f, "{:?}f", f64::from_bits(*x)),
            W::Str(s) => write!(f, "{:?}", s),
            W::Data(t, fs) => {
                write!(f, "<{}", t)?;
                for x in fs {
                    write!(f, " {}", x)?;
                }
                write!(f, ">")
            }
            W::Array(xs) => {
                write!(f, "[")?;
                for (i, x) in xs.iter().enumerate() {
                    if i > 0 {
                        write!(f, ", ")?;
                    }
                    write!(f, "{}", x)?;
                }
                write!(f, "]")
            }
            W::Closure => write!(f, "<fn>"),
            W::Userdata => write!(f, "<userdata>"),
            W::Thread => write!(f, "<thread>"),
            W::Internal => write!(f, "<internal>"),
            W::Cut => write!(f, "<cut>"),
        }
    }
}

pub fn walk(v: ValueRef, depth: usize) -> W {
    if depth == 0 {
        return W::Cut;
    }
    match v {
        ValueRef::Byte(b) => W::Byte(b),
        ValueRef::Int(i) => W::Int(i),
        ValueRef::Float(f) => W::Float(f.to_bits()),
        ValueRef::String(s) => W::Str(s.to_string()),
        ValueRef::Data(d) => {
            let mut fs = Vec::with_capacity(d.len());
            for i in 0..d.len() {
                fs.push(walk(d.get(i).unwrap(), depth - 1));
            }
            W::Data(d.tag(), fs)
        }
        ValueRef::Array(a) => {
            let mut xs = Vec::with_capacity(a.len());
            for x in a.iter() {
                xs.push(walk(x.as_ref(), depth - 1));
            }
            W::Array(xs)
        }
        ValueRef::Userdata(_) => W::Userdata,
        ValueRef::Thread(_) => W::Thread,
        ValueRef::Closure(_) => W::Closure,
        ValueRef::Internal => W::Internal,
    }
}

#[derive(Clone, Debug, PartialEq, Eq, Hash, PartialOrd, Ord)]
pub enum ErrKind {
    Parse,
    Typecheck,
    Macro,
    Io,
    /// `error "msg"` (vm::Error::Panic)
    Panic,
    /// "Arithmetic overflow"
    Overflow,
    OutOfMemory,
    StackOverflow,
    Interrupted,
    Dead,
    /// vm::Error::Message not otherwise classified
    Message,
    /// messages that only a broken invariant produces
    Forbidden,
    /// other vm::Error variants (UndefinedBinding, WrongType, ...)
    VmOther,
    Other,
    Multiple,
    /// Rust panic caught with catch_unwind
    HostPanic,
}

#[derive(Clone, Debug, PartialEq, Eq, Hash, PartialOrd, Ord)]
pub enum Outcome {
    Ok(W, String),
    Err(ErrKind, String),
}

impl Outcome {
    pub fn to_json(&self) -> Value {
        match self {
            Outcome::Ok(w, t) => json!({"ok": w.to_string(), "type": t}),
            Outcome::Err(k, m) => json!({"err": format!("{:?}", k), "msg": m}),
        }
    }
    pub fn class(&self) -> String {
        match self {
            Outcome::Ok(..) => "Ok".into(),
            Outcome::Err(k, _) => format!("{:?}", k),
        }
    }
    pub fn is_forbidden(&self) -> bool {
        matches!(self, Outcome::Err(ErrKind::Forbidden, _) | Outcome::Err(ErrKind::HostPanic, _))
    }
}

pub const FORBIDDEN_MESSAGES: &[&str] = &[
    "Cannot call",
    "GetOffset on",
    "GetField on",
    "Op TestTag called on non data type",
    "Op Split called on non data type",
    "ICE",
    "Unexpected error calling function",
    "Attempted to exit scope above current",
    "Popped the last frame",
    "non data type",
    "Expected excess arguments",
    "Attempted to pop",
    "Poped",
    "Attempt to pop",
];

pub fn first_line(s: &str) -> String {
    s.lines().next().unwrap_or("").trim_end().to_string()
}

pub fn classify_vm_error(e: &gluon::vm::Error) -> (ErrKind, String) {
    use gluon::vm::Error as E;
    match e {
        E::Dead => (ErrKind::Dead, String::new()),
        E::OutOfMemory { .. } => (ErrKind::OutOfMemory, String::new()),
        E::StackOverflow(_) => (ErrKind::StackOverflow, String::new()),
        E::Interrupted => (ErrKind::Interrupted, String::new()),
        E::Panic(msg, _) => (ErrKind::Panic, msg.clone()),
        E::Message(m) => {
            if m.starts_with("Arithmetic overflow") {
                (ErrKind::Overflow, String::new())
            } else if FORBIDDEN_MESSAGES.iter().any(|f| m.contains(f)) {
                (ErrKind::Forbidden, first_line(m))
            } else {
                (ErrKind::Message, first_line(m))
            }
        }
        other => (ErrKind::VmOther, first_line(&other.to_string())),
    }
}

pub fn classify_error(e: &gluon::Error) -> (ErrKind, String) {
    use gluon::Error as E;
    match e {
        E::Parse(e) => (ErrKind::Parse, first_line(&e.to_string())),
        E::Typecheck(e) => (ErrKind::Typecheck, first_line(&e.to_string())),
        E::Macro(e) => (ErrKind::Macro, first_line(&e.to_string())),
        E::IO(e) => (ErrKind::Io, first_line(&e.to_string())),
        E::VM(e) => classify_vm_error(e),
        E::Other(e) => {
            let s = e.to_string();
            if FORBIDDEN_MESSAGES.iter().any(|f| s.contains(f)) {
                (ErrKind::Forbidden, first_line(&s))
            } else {
                (ErrKind::Other, first_line(&s))
            }
        }
        E::Multiple(es) => {
            // classify by the first component, but keep Forbidden if any component is
            let mut first = None;
            for e in es.iter() {
                let c = classify_error(e);
                if c.0 == ErrKind::Forbidden {
                    return c;
                }
                if first.is_none() {
                    first = Some(c);
                }
            }
            first.unwrap_or((ErrKind::Multiple, String::new()))
        }
    }
}

pub fn outcome_of(
    r: gluon::Result<(OpaqueValue<RootedThread, Hole>, gluon::base::types::ArcType)>,
) -> Outcome {
    match r {
        Ok((v, t)) => Outcome::Ok(walk(v.get_ref(), 40), t.to_string()),
        Err(e) => {
            let (k, m) = classify_error(&e);
            Outcome::Err(k, m)
        }
    }
}

/// Evaluate `src` as module `name` on `vm`; host panics are caught and classified.
pub fn run(vm: &RootedThread, name: &str, src: &str) -> Outcome {
    let r = std::panic::catch_unwind(std::panic::AssertUnwindSafe(|| {
        outcome_of(vm.run_expr::<OpaqueValue<RootedThread, Hole>>(name, src))
    }));
    match r {
        Ok(o) => o,
        Err(p) => Outcome::Err(ErrKind::HostPanic, panic_message(&p)),
    }
}

pub fn panic_message(p: &Box<dyn std::any::Any + Send>) -> String {
    if let Some(s) = p.downcast_ref::<&str>() {
        first_line(s)
    } else if let Some(s) = p.downcast_ref::<String>() {
        first_line(s)
    } else {
        "<non-string panic>".to_string()
    }
}

/// Evaluate on a fresh VM.
pub fn run_fresh(s: Settings, src: &str) -> Outcome {
    let vm = make_vm(s);
    run(&vm, "main", src)
}

/// Silence the default panic hook (the harness catches panics and reports them itself).
pub fn quiet_panics() {
    std::panic::set_hook(Box::new(|_| {}));
}

thread_local! {
    pub static LAST_PANIC_LOC: std::cell::RefCell<String> = std::cell::RefCell::new(String::new());
}

/// Panic hook that records the location (file:line) of the last panic on this thread.
pub fn record_panics() {
    std::panic::set_hook(Box::new(|info| {
        let loc = info
            .location()
            .map(|l| format!("{}:{}", l.file(), l.line()))
            .unwrap_or_default();
        if loc.starts_with("src/") || std::env::var_os("VERIF_DEBUG").is_some() {
            eprintln!("harness panic: {}", info);
        }
        LAST_PANIC_LOC.with(|c| *c.borrow_mut() = loc);
    }));
}

pub fn last_panic_loc() -> String {
    LAST_PANIC_LOC.with(|c| c.borrow().clone())
}

// ---------------------------------------------------------------------------------------------
// extern module `verif.prim`: host functions with observable side effects

thread_local! {
    pub static EFF_LOG: std::cell::RefCell<Vec<i64>> = std::cell::RefCell::new(Vec::new());
    pub static TICKS: std::cell::RefCell<std::collections::BTreeMap<String, u64>> =
        std::cell::RefCell::new(Default::default());
}

fn eff(x: i64) -> i64 {
    EFF_LOG.with(|l| l.borrow_mut().push(x));
    x
}

fn tick(name: &str) -> i64 {
    TICKS.with(|t| {
        let mut t = t.borrow_mut();
        let e = t.entry(name.to_string()).or_insert(0);
        *e += 1;
        *e as i64
    })
}

pub fn take_eff_log() -> Vec<i64> {
    EFF_LOG.with(|l| std::mem::take(&mut *l.borrow_mut()))
}
pub fn take_ticks() -> std::collections::BTreeMap<String, u64> {
    TICKS.with(|l| std::mem::take(&mut *l.borrow_mut()))
}
pub fn ticks_of(name: &str) -> u64 {
    TICKS.with(|t| t.borrow().get(name).cloned().unwrap_or(0))
}

fn load_verif_prim(vm: &Thread) -> gluon::vm::Result<gluon::vm::ExternModule> {
    use gluon::vm::{primitive, record};
    gluon::vm::ExternModule::new(
        vm,
        record! {
            eff => primitive!(1, "verif.prim.eff", eff),
            tick => primitive!(1, "verif.prim.tick", tick),
        },
    )
}

/// VM with the `verif.prim` extern module registered (effects are logged per OS thread).
pub fn make_vm_with_prim(s: Settings) -> RootedThread {
    let vm = new_vm();
    gluon::import::add_extern_module(&vm, "verif.prim", load_verif_prim);
    apply_settings(&vm, s);
    vm
}

// ---------------------------------------------------------------------------------------------
// type-directed shape check: does a VM value have the shape of the type the checker reported?

use gluon::base::types::{ArcType, BuiltinType, NullInterner, Type};

/// Returns Err(description) if `v` cannot be a value of type `t`. Conservative: anything the
/// checker cannot decide locally (type variables, opaque/abstract types, userdata) is accepted.
pub fn shape_check(vm: &Thread, v: ValueRef, t: &ArcType, depth: usize) -> Result<(), String> {
    if depth == 0 {
        return Ok(());
    }
    let env = vm.get_env();
    let t = gluon::base::resolve::remove_aliases_cow(&env, &mut NullInterner, t);
    let t: &ArcType = &t;
    let mismatch = |what: &str| Err(format!("value {} where the type says {} ({})", walk(v.clone(), 3), t, what));
    match &**t {
        Type::Forall(_, inner) => shape_check(vm, v, inner, depth),
        Type::Builtin(b) => match (b, &v) {
            (BuiltinType::Int, ValueRef::Int(_)) => Ok(()),
            (BuiltinType::Byte, ValueRef::Byte(_)) => Ok(()),
            (BuiltinType::Float, ValueRef::Float(_)) => Ok(()),
            (BuiltinType::String, ValueRef::String(_)) => Ok(()),
            (BuiltinType::Char, ValueRef::Int(c)) => {
                if char::from_u32(*c as u32).is_some() && *c >= 0 && *c <= u32::MAX as i64 {
                    Ok(())
                } else {
                    mismatch("not a char")
                }
            }
            (BuiltinType::Array, _) | (BuiltinType::Function, _) => Ok(()),
            _ => mismatch("builtin"),
        },
        Type::App(f, args) => {
            let f = gluon::base::resolve::remove_aliases_cow(&env, &mut NullInterner, f);
            match (&**f, &v) {
                (Type::Builtin(BuiltinType::Array), ValueRef::Array(a)) if args.len() == 1 => {
                    for x in a.iter() {
                        shape_check(vm, x.as_ref(), &args[0], depth - 1)?;
                    }
                    Ok(())
                }
                (Type::Builtin(BuiltinType::Array), _) => mismatch("array"),
                _ => Ok(()),
            }
        }
        Type::Function(..) => match v {
            ValueRef::Closure(_) | ValueRef::Internal | ValueRef::Userdata(_) => Ok(()),
            _ => mismatch("function"),
        },
        Type::Record(row) => match &v {
            ValueRef::Data(d) => {
                let fields: Vec<_> = gluon::base::types::row_iter(row).collect();
                // an open row (polymorphic record) may carry more fields than are listed
                let closed = {
                    let mut it = gluon::base::types::row_iter(row);
                    for _ in it.by_ref() {}
                    matches!(&**it.current_type(), Type::EmptyRow)
                };
                if closed && d.len() != fields.len() {
                    return mismatch("record arity");
                }
                if !closed {
                    return Ok(());
                }
                for (i, f) in fields.iter().enumerate() {
                    shape_check(vm, d.get(i).unwrap(), &f.typ, depth - 1)?;
                }
                Ok(())
            }
            _ => mismatch("record"),
        },
        Type::Variant(row) => match &v {
            ValueRef::Data(d) => {
                let ctors: Vec<_> = gluon::base::types::row_iter(row).collect();
                let tag = d.tag() as usize;
                if tag >= ctors.len() {
                    return mismatch("variant tag out of range");
                }
                let args: Vec<_> = gluon::base::types::arg_iter(&ctors[tag].typ)
                    .cloned()
                    .collect::<Vec<ArcType>>();
                if args.len() != d.len() {
                    return mismatch("constructor arity");
                }
                for (i, a) in args.iter().enumerate() {
                    shape_check(vm, d.get(i).unwrap(), a, depth - 1)?;
                }
                Ok(())
            }
            _ => mismatch("variant"),
        },
        _ => Ok(()),
    }
}

/// Like `run`, and additionally checks the result value against the reported type.
pub fn run_checked(vm: &RootedThread, name: &str, src: &str) -> (Outcome, Option<String>) {
    let r = std::panic::catch_unwind(std::panic::AssertUnwindSafe(|| {
        match vm.run_expr::<OpaqueValue<RootedThread, Hole>>(name, src) {
            Ok((v, t)) => {
                let shape = shape_check(vm, v.get_ref(), &t, 12).err();
                (Outcome::Ok(walk(v.get_ref(), 40), t.to_string()), shape)
            }
            Err(e) => {
                let (k, m) = classify_error(&e);
                (Outcome::Err(k, m), None)
            }
        }
    }));
    match r {
        Ok(o) => o,
        Err(p) => (Outcome::Err(ErrKind::HostPanic, panic_message(&p)), None),
    }
}
