//! Parser-level syntax model for C08: a harness-side AST of gluon expressions, conversion of
//! gluon's own AST into it (normalising what is purely syntactic: parentheses = 1-tuples and
//! singleton blocks), a span tree for span-sanity checks, and printers to concrete syntax in
//! several styles (see `Style`). Only layouts that the book documents or `std/*.glu` uses are
//! emitted (each printer function names its precedent).

use gluon_base::ast::{
    self as gast, Argument, DisplayEnv, Expr, IdentEnv, Literal, Pattern, PatternField,
    SpannedExpr, SpannedPattern, ValueBinding, ValueBindings,
};
use gluon_base::pos::{BytePos, HasSpan, Span};
use serde_derive::{Deserialize, Serialize};
use gluon_base::ast::AstType;
use gluon_base::types::{ArgType, Type, TypeCache};

// ---------------------------------------------------------------------------------------------
// AST

#[derive(Clone, Debug, PartialEq, Eq, Hash, PartialOrd, Ord, Serialize, Deserialize)]
pub enum Lit {
    Int(i64),
    Byte(u8),
    /// bit pattern
    Float(u64),
    Str(String),
    Char(char),
}

#[derive(Clone, Debug, PartialEq, Eq, Hash, PartialOrd, Ord, Serialize, Deserialize)]
pub enum Ty {
    Hole,
    /// builtin or upper-case identifier
    Name(String),
    /// lower-case type variable
    Var(String),
    App(Box<Ty>, Vec<Ty>),
    Fun(Box<Ty>, Box<Ty>),
    Record(Vec<(String, Ty)>),
    Variant(Vec<(String, Vec<Ty>)>),
    Unit,
    /// anything the harness never prints (rendered with Debug so that it never compares equal
    /// to a printed type)
    Other(String),
}

#[derive(Clone, Debug, PartialEq, Eq, Hash, PartialOrd, Ord, Serialize, Deserialize)]
pub enum PField {
    Type(String),
    Value(String, Option<Pat>),
}

#[derive(Clone, Debug, PartialEq, Eq, Hash, PartialOrd, Ord, Serialize, Deserialize)]
pub enum Pat {
    /// lower-case identifier, `_` or a parenthesised operator
    Ident(String),
    Ctor(String, Vec<Pat>),
    Lit(Lit),
    /// 0 or >= 2 elements
    Tuple(Vec<Pat>),
    Record(Vec<PField>, bool),
    As(String, Box<Pat>),
    Error,
}

#[derive(Clone, Debug, PartialEq, Eq, Hash, PartialOrd, Ord, Serialize, Deserialize)]
pub struct Bind {
    pub name: Pat,
    /// (implicit, name)
    pub args: Vec<(bool, String)>,
    pub typ: Option<Ty>,
    pub expr: Ex,
}

#[derive(Clone, Debug, PartialEq, Eq, Hash, PartialOrd, Ord, Serialize, Deserialize)]
pub struct TBind {
    pub name: String,
    pub params: Vec<String>,
    pub body: Ty,
}

#[derive(Clone, Debug, PartialEq, Eq, Hash, PartialOrd, Ord, Serialize, Deserialize)]
pub enum Ex {
    Ident(String),
    Lit(Lit),
    /// function, implicit arguments, arguments
    App(Box<Ex>, Vec<Ex>, Vec<Ex>),
    Infix(Box<Ex>, String, Box<Ex>),
    Lambda(Vec<String>, Box<Ex>),
    Let(Box<Bind>, Box<Ex>),
    LetRec(Vec<Bind>, Box<Ex>),
    /// one binding: `type`; several: `rec type .. type ..`
    Type(Vec<TBind>, Box<Ex>),
    If(Box<Ex>, Box<Ex>, Box<Ex>),
    Match(Box<Ex>, Vec<(Pat, Ex)>),
    /// type fields, value fields (None = shorthand), base
    Record(Vec<String>, Vec<(String, Option<Ex>)>, Option<Box<Ex>>),
    /// 0 or >= 2 elements
    Tuple(Vec<Ex>),
    Array(Vec<Ex>),
    Proj(Box<Ex>, String),
    Do(Pat, Option<Ty>, Box<Ex>, Box<Ex>),
    /// `seq a in b` and the two-statement block `a; b` (one AST in gluon)
    Seq(Box<Ex>, Box<Ex>),
    Error,
}

// ---------------------------------------------------------------------------------------------
// gluon AST -> harness AST (+ span tree)

#[derive(Clone, Debug)]
pub struct SpanNode {
    pub kind: &'static str,
    pub lo: i64,
    pub hi: i64,
    pub kids: Vec<SpanNode>,
    /// for expression nodes: the converted subtree
    pub expr: Option<Ex>,
    /// for identifier-like leaves: the name the span should delimit
    pub name: Option<String>,
}

fn sp(kind: &'static str, span: Span<BytePos>, base: i64) -> SpanNode {
    SpanNode {
        kind,
        lo: span.start().to_usize() as i64 - base,
        hi: span.end().to_usize() as i64 - base,
        kids: Vec::new(),
        expr: None,
        name: None,
    }
}

pub struct Conv {
    /// value subtracted from every BytePos (1 for `&str` sources)
    pub base: i64,
    /// bindings that carry a documentation comment / attributes
    pub docs: std::cell::Cell<usize>,
    pub attrs: std::cell::Cell<usize>,
}

impl Conv {
    pub fn new(base: i64) -> Conv {
        Conv { base, docs: Default::default(), attrs: Default::default() }
    }
    fn meta(&self, m: &gluon_base::metadata::BaseMetadata) {
        if let Some(m) = &m.metadata {
            if m.comment.is_some() {
                self.docs.set(self.docs.get() + 1);
            }
            if !m.attributes.is_empty() {
                self.attrs.set(self.attrs.get() + 1);
            }
        }
    }
}

fn lit(l: &Literal) -> Lit {
    match l {
        Literal::Byte(b) => Lit::Byte(*b),
        Literal::Int(i) => Lit::Int(*i),
        Literal::Float(f) => Lit::Float(f.into_inner().to_bits()),
        Literal::String(s) => Lit::Str(s.clone()),
        Literal::Char(c) => Lit::Char(*c),
    }
}

impl Conv {
    pub fn ty<Id: AsRef<str>>(&self, t: &AstType<Id>) -> Ty {
        match &**t {
            Type::Hole => Ty::Hole,
            Type::Builtin(b) => Ty::Name(b.to_str().to_string()),
            Type::Ident(id) => Ty::Name(id.name.as_ref().to_string()),
            Type::Generic(g) => Ty::Var(g.id.as_ref().to_string()),
            Type::App(f, args) => Ty::App(Box::new(self.ty(f)), args.iter().map(|a| self.ty(a)).collect()),
            Type::Function(ArgType::Explicit, a, b) => Ty::Fun(Box::new(self.ty(a)), Box::new(self.ty(b))),
            Type::Record(row) => {
                let mut out = Vec::new();
                let mut cur = row;
                loop {
                    match &**cur {
                        Type::ExtendRow { fields, rest } => {
                            for f in fields.iter() {
                                out.push((f.name.value.as_ref().to_string(), self.ty(&f.typ)));
                            }
                            cur = rest;
                        }
                        Type::ExtendTypeRow { types, rest } if types.is_empty() => cur = rest,
                        Type::EmptyRow => break,
                        _ => return Ty::Other("record-row".to_string()),
                    }
                }
                if out.is_empty() { Ty::Record(vec![]) } else { Ty::Record(out) }
            }
            Type::Variant(row) => {
                let mut out = Vec::new();
                let mut cur = row;
                loop {
                    match &**cur {
                        Type::ExtendRow { fields, rest } => {
                            for f in fields.iter() {
                                let mut args = Vec::new();
                                let mut t = &f.typ;
                                loop {
                                    match &**t {
                                        Type::Function(ArgType::Constructor, a, r) => {
                                            args.push(self.ty(a));
                                            t = r;
                                        }
                                        Type::Opaque => break,
                                        _ => return Ty::Other("variant-field".to_string()),
                                    }
                                }
                                out.push((f.name.value.as_ref().to_string(), args));
                            }
                            cur = rest;
                        }
                        Type::EmptyRow => break,
                        _ => return Ty::Other("variant-row".to_string()),
                    }
                }
                Ty::Variant(out)
            }
            _ => Ty::Other("unsupported".to_string()),
        }
    }

    fn ty_node<Id: AsRef<str>>(&self, t: &AstType<Id>) -> SpanNode {
        // only the root span of a written type is checked (constructor fields etc. are
        // synthesised nodes without source text)
        sp("type", t.span(), self.base)
    }

    pub fn pat<Id: AsRef<str>>(&self, p: &SpannedPattern<Id>) -> (Pat, SpanNode) {
        let mut node = sp("pattern", p.span, self.base);
        let out = match &p.value {
            Pattern::As(id, inner) => {
                let mut n = sp("as-name", id.span, self.base);
                n.name = Some(id.value.as_ref().to_string());
                node.kids.push(n);
                let (q, qn) = self.pat(inner);
                node.kids.push(qn);
                Pat::As(id.value.as_ref().to_string(), Box::new(q))
            }
            Pattern::Constructor(id, args) => {
                let mut ps = Vec::new();
                for a in args.iter() {
                    let (q, qn) = self.pat(a);
                    ps.push(q);
                    node.kids.push(qn);
                }
                Pat::Ctor(id.name.as_ref().to_string(), ps)
            }
            Pattern::Ident(id) => {
                node.name = Some(id.name.as_ref().to_string());
                Pat::Ident(id.name.as_ref().to_string())
            }
            Pattern::Record { fields, implicit_import, .. } => {
                let mut fs = Vec::new();
                for f in fields.iter() {
                    match f {
                        PatternField::Type { name } => {
                            let mut n = sp("field-name", name.span, self.base);
                            n.name = Some(name.value.as_ref().to_string());
                            node.kids.push(n);
                            fs.push(PField::Type(name.value.as_ref().to_string()));
                        }
                        PatternField::Value { name, value } => {
                            let mut n = sp("field-name", name.span, self.base);
                            n.name = Some(name.value.as_ref().to_string());
                            node.kids.push(n);
                            let v = value.as_ref().map(|v| {
                                let (q, qn) = self.pat(v);
                                node.kids.push(qn);
                                q
                            });
                            fs.push(PField::Value(name.value.as_ref().to_string(), v));
                        }
                    }
                }
                if let Some(i) = implicit_import {
                    node.kids.push(sp("implicit-import", i.span, self.base));
                }
                Pat::Record(fs, implicit_import.is_some())
            }
            Pattern::Tuple { elems, .. } => {
                let mut ps = Vec::new();
                for a in elems.iter() {
                    let (q, qn) = self.pat(a);
                    ps.push(q);
                    node.kids.push(qn);
                }
                Pat::Tuple(ps)
            }
            Pattern::Literal(l) => Pat::Lit(lit(l)),
            Pattern::Error => Pat::Error,
        };
        (out, node)
    }

    fn args<Id: AsRef<str>>(&self, args: &[Argument<gast::SpannedIdent<Id>>], node: &mut SpanNode) -> Vec<(bool, String)> {
        args.iter()
            .map(|a| {
                let mut n = sp("arg", a.name.span, self.base);
                n.name = Some(a.name.value.name.as_ref().to_string());
                node.kids.push(n);
                (a.arg_type == ArgType::Implicit, a.name.value.name.as_ref().to_string())
            })
            .collect()
    }

    fn bind<Id: AsRef<str>>(&self, b: &ValueBinding<Id>, node: &mut SpanNode) -> Bind {
        self.meta(&b.metadata);
        let (name, nn) = self.pat(&b.name);
        node.kids.push(nn);
        let args = self.args(b.args, node);
        let typ = b.typ.as_ref().map(|t| {
            node.kids.push(self.ty_node(t));
            self.ty(t)
        });
        let (e, en) = self.expr(&b.expr);
        node.kids.push(en);
        Bind { name, args, typ, expr: e }
    }

    pub fn expr<Id: AsRef<str>>(&self, e: &SpannedExpr<Id>) -> (Ex, SpanNode) {
        let mut node = sp("expr", e.span, self.base);
        let out = match &e.value {
            Expr::Ident(id) => {
                node.name = Some(id.name.as_ref().to_string());
                Ex::Ident(id.name.as_ref().to_string())
            }
            Expr::Literal(l) => Ex::Lit(lit(l)),
            Expr::App { func, implicit_args, args } => {
                let (f, fnode) = self.expr(func);
                node.kids.push(fnode);
                let mut ia = Vec::new();
                for a in implicit_args.iter() {
                    let (x, n) = self.expr(a);
                    ia.push(x);
                    node.kids.push(n);
                }
                let mut xs = Vec::new();
                for a in args.iter() {
                    let (x, n) = self.expr(a);
                    xs.push(x);
                    node.kids.push(n);
                }
                Ex::App(Box::new(f), ia, xs)
            }
            Expr::Lambda(l) => {
                let args = self.args(l.args, &mut node);
                let (b, bn) = self.expr(l.body);
                node.kids.push(bn);
                Ex::Lambda(args.into_iter().map(|a| a.1).collect(), Box::new(b))
            }
            Expr::IfElse(c, a, b) => {
                let (c, cn) = self.expr(c);
                let (a, an) = self.expr(a);
                let (b, bn) = self.expr(b);
                node.kids.extend([cn, an, bn]);
                Ex::If(Box::new(c), Box::new(a), Box::new(b))
            }
            Expr::Match(s, alts) => {
                let (s, sn) = self.expr(s);
                node.kids.push(sn);
                let mut arms = Vec::new();
                for alt in alts.iter() {
                    let (p, pn) = self.pat(&alt.pattern);
                    let (x, xn) = self.expr(&alt.expr);
                    node.kids.push(pn);
                    node.kids.push(xn);
                    arms.push((p, x));
                }
                Ex::Match(Box::new(s), arms)
            }
            Expr::Infix { lhs, op, rhs, .. } => {
                let (l, ln) = self.expr(lhs);
                let (r, rn) = self.expr(rhs);
                let mut on = sp("operator", op.span, self.base);
                on.name = Some(op.value.name.as_ref().to_string());
                node.kids.extend([ln, on, rn]);
                Ex::Infix(Box::new(l), op.value.name.as_ref().to_string(), Box::new(r))
            }
            Expr::Projection(b, id, _) => {
                let (b, bn) = self.expr(b);
                node.kids.push(bn);
                Ex::Proj(Box::new(b), id.as_ref().to_string())
            }
            Expr::Array(a) => {
                let mut xs = Vec::new();
                for x in a.exprs.iter() {
                    let (x, n) = self.expr(x);
                    xs.push(x);
                    node.kids.push(n);
                }
                Ex::Array(xs)
            }
            Expr::Record { types, exprs, base, .. } => {
                let mut ts = Vec::new();
                for t in types.iter() {
                    let mut n = sp("field-name", t.name.span, self.base);
                    n.name = Some(t.name.value.as_ref().to_string());
                    node.kids.push(n);
                    ts.push(t.name.value.as_ref().to_string());
                }
                let mut fs = Vec::new();
                for f in exprs.iter() {
                    self.meta(&f.metadata);
                    let mut n = sp("field-name", f.name.span, self.base);
                    n.name = Some(f.name.value.as_ref().to_string());
                    node.kids.push(n);
                    let v = f.value.as_ref().map(|v| {
                        let (x, xn) = self.expr(v);
                        node.kids.push(xn);
                        x
                    });
                    fs.push((f.name.value.as_ref().to_string(), v));
                }
                let b = base.as_ref().map(|b| {
                    let (x, xn) = self.expr(b);
                    node.kids.push(xn);
                    Box::new(x)
                });
                Ex::Record(ts, fs, b)
            }
            Expr::Tuple { elems, .. } => {
                if elems.len() == 1 {
                    // parentheses
                    let (x, xn) = self.expr(&elems[0]);
                    node.kind = "paren";
                    node.kids.push(xn);
                    x
                } else {
                    let mut xs = Vec::new();
                    for x in elems.iter() {
                        let (x, n) = self.expr(x);
                        xs.push(x);
                        node.kids.push(n);
                    }
                    Ex::Tuple(xs)
                }
            }
            Expr::LetBindings(bs, body) => {
                let out = match bs {
                    ValueBindings::Plain(b) => {
                        let b = self.bind(b, &mut node);
                        let (body, bn) = self.expr(body);
                        node.kids.push(bn);
                        Ex::Let(Box::new(b), Box::new(body))
                    }
                    ValueBindings::Recursive(bs) => {
                        let bs: Vec<Bind> = bs.iter().map(|b| self.bind(b, &mut node)).collect();
                        let (body, bn) = self.expr(body);
                        node.kids.push(bn);
                        Ex::LetRec(bs, Box::new(body))
                    }
                };
                out
            }
            Expr::TypeBindings(tbs, body) => {
                let mut out = Vec::new();
                for tb in tbs.iter() {
                    self.meta(&tb.metadata);
                    let mut n = sp("type-name", tb.name.span, self.base);
                    n.name = Some(tb.name.value.as_ref().to_string());
                    node.kids.push(n);
                    node.kids.push(sp("alias", tb.alias.span, self.base));
                    out.push(TBind {
                        name: tb.name.value.as_ref().to_string(),
                        params: tb.alias.value.params().iter().map(|g| g.id.as_ref().to_string()).collect(),
                        body: self.ty(tb.alias.value.unresolved_type()),
                    });
                }
                let (body, bn) = self.expr(body);
                node.kids.push(bn);
                Ex::Type(out, Box::new(body))
            }
            Expr::Block(es) => {
                let mut xs = Vec::new();
                for x in es.iter() {
                    let (x, n) = self.expr(x);
                    xs.push(x);
                    node.kids.push(n);
                }
                node.kind = "block";
                let mut it = xs.into_iter().rev();
                match it.next() {
                    None => Ex::Error,
                    Some(last) => it.fold(last, |body, x| Ex::Seq(Box::new(x), Box::new(body))),
                }
            }
            Expr::Do(d) => {
                let id = d.id.as_ref().map(|p| {
                    let (p, pn) = self.pat(p);
                    node.kids.push(pn);
                    p
                });
                let typ = d.typ.as_ref().map(|t| {
                    node.kids.push(self.ty_node(t));
                    self.ty(t)
                });
                let (bound, bn) = self.expr(d.bound);
                let (body, yn) = self.expr(d.body);
                node.kids.push(bn);
                node.kids.push(yn);
                match id {
                    Some(p) => Ex::Do(p, typ, Box::new(bound), Box::new(body)),
                    None => Ex::Seq(Box::new(bound), Box::new(body)),
                }
            }
            Expr::MacroExpansion { original, .. } => {
                let (x, xn) = self.expr(original);
                node.kids.push(xn);
                x
            }
            Expr::Annotated(x, _) => {
                let (x, xn) = self.expr(x);
                node.kids.push(xn);
                x
            }
            Expr::Error(_) => Ex::Error,
        };
        if node.kind != "block" {
            node.expr = Some(out.clone());
        }
        (out, node)
    }
}

// ---------------------------------------------------------------------------------------------
// driving gluon's parser with plain `String` identifiers

pub struct StrEnv;
impl DisplayEnv for StrEnv {
    type Ident = String;
    fn string<'a>(&'a self, ident: &'a String) -> &'a str {
        ident
    }
}
impl IdentEnv for StrEnv {
    fn from_str(&mut self, s: &str) -> String {
        s.to_string()
    }
}

#[derive(Clone, Debug)]
pub enum Parsed {
    /// tree, spans, number of bindings / fields with a documentation comment, with attributes
    Ok(Ex, SpanNode, usize, usize),
    /// error text (first error), whether it is an infix (fixity) error
    Err(String, bool),
    Panic(String),
}

/// `parse_partial_expr` + `reparse_infix` (built-in operator table only: no metadata), the way
/// `gluon::compiler_pipeline` chains them, with `String` identifiers.
pub fn parse(src: &str) -> Parsed {
    let r = std::panic::catch_unwind(|| {
        gluon_base::mk_ast_arena!(arena);
        let mut env = StrEnv;
        let tc: TypeCache<String, gluon_base::types::ArcType<String>> = TypeCache::default();
        let mut expr = match gluon_parser::parse_partial_expr((*arena).borrow(), &mut env, &tc, src) {
            Ok(e) => e,
            Err((_, errs)) => {
                let first = errs.into_iter().next().map(|e| e.value.to_string()).unwrap_or_default();
                return Parsed::Err(first, false);
            }
        };
        let meta = Default::default();
        if let Err(errs) = gluon_parser::reparse_infix((*arena).borrow(), &meta, &env, &mut expr) {
            let first = errs.into_iter().next().map(|e| e.value.to_string()).unwrap_or_default();
            return Parsed::Err(first, true);
        }
        let conv = Conv::new(1);
        let (e, n) = conv.expr(&expr);
        Parsed::Ok(e, n, conv.docs.get(), conv.attrs.get())
    });
    match r {
        Ok(p) => p,
        Err(p) => Parsed::Panic(crate::vmkit::panic_message(&p)),
    }
}

// ---------------------------------------------------------------------------------------------
// concrete syntax

#[derive(Clone, Copy, Debug, PartialEq, Eq)]
pub enum Inline {
    /// everything on one line where the grammar allows it (explicit `in`)
    Always,
    /// right-hand sides that are themselves let/type/do/seq/if/match go to an indented block
    Compact,
    /// every right-hand side that is not an atom or a small application goes to an indented block
    Never,
}

#[derive(Clone, Copy, Debug, PartialEq, Eq)]
pub enum InStyle {
    /// body on the column of its `let`/`type` (book: Indentation)
    Implicit,
    /// `in` alone on the column of its `let`, body on the next line (book: Indentation, second example)
    OwnLine,
    /// `in body` on the column of its `let` when the body is a plain expression (book: Variable bindings / Record expressions)
    WithBody,
}

#[derive(Clone, Copy, Debug, PartialEq, Eq)]
pub enum Ins {
    LineComment,
    BlockComment,
    BlankLine,
    /// comment on a line of its own, at the indentation of the following line
    OwnLineComment,
}

#[derive(Clone, Debug)]
pub struct Style {
    pub name: &'static str,
    pub inline: Inline,
    pub step: usize,
    pub in_style: InStyle,
    /// `rec` on a line of its own (book: Variable bindings) instead of `rec let` (std)
    pub rec_own_line: bool,
    /// `seq a` / body (book: Sequence expressions) instead of the bare block
    pub seq_keyword: bool,
    /// variants / record fields of multi-line constructs one per line
    pub redundant_paren_expr: Option<usize>,
    pub redundant_paren_pat: Option<usize>,
    pub insert: Option<(usize, Ins)>,
    /// bit 0: a `/// ..` line, bit 1: an `#[..]` line before every let / type binding and
    /// record field that starts a line (std: everywhere)
    pub meta: u8,
    /// `else if` on one line, the chain on the column of the first `if` (std/parser.glu take1)
    pub else_if: bool,
    /// Windows line endings
    pub crlf: bool,
    /// `..` of a multi-line record on a line of its own, the base record on the next (book: Record expressions)
    pub base_own_line: bool,
    /// arguments of an application that starts a line each on a line of their own, one step
    /// right of the function (std/parser.glu, std/json/de.glu)
    pub args_own_line: bool,
    /// parenthesise an `if` that is a statement of a block (used only to classify a failure)
    pub paren_if_statement: bool,
}

impl Style {
    pub const fn base(name: &'static str, inline: Inline, step: usize, in_style: InStyle, rec_own_line: bool, seq_keyword: bool) -> Style {
        Style { name, inline, step, in_style, rec_own_line, seq_keyword, redundant_paren_expr: None, redundant_paren_pat: None, insert: None, meta: 0, else_if: false, crlf: false, base_own_line: false, args_own_line: false, paren_if_statement: false }
    }
    pub const fn with_meta(mut self, meta: u8) -> Style {
        self.meta = meta;
        self
    }
    pub const fn with_base_own_line(mut self) -> Style {
        self.base_own_line = true;
        self
    }
    pub const fn with_args_own_line(mut self) -> Style {
        self.args_own_line = true;
        self
    }
    pub const fn with_crlf(mut self) -> Style {
        self.crlf = true;
        self
    }
    pub const fn with_else_if(mut self) -> Style {
        self.else_if = true;
        self
    }
}

pub const COMMENT_LINE: &str = "// c8";
pub const COMMENT_BLOCK: &str = "/* c8 */";
pub const META_DOC: &str = "/// d8";
pub const META_ATTR: &str = "#[a8(x)]";

#[derive(Clone, Debug, Default)]
pub struct Printed {
    pub src: String,
    pub gaps: usize,
    pub exprs: usize,
    pub pats: usize,
    /// per expression node (pre-order): byte range of its tokens without / with the parentheses
    /// directly around it
    pub ranges: Vec<[usize; 4]>,
    /// the requested redundant parenthesis / insertion was applied
    pub applied: bool,
    /// documentation comments / attribute lines printed
    pub docs: usize,
    pub attrs: usize,
}

pub fn fixity(op: &str) -> (i32, bool) {
    // (precedence, left-associative) of gluon's built-in operators (parser/src/infix.rs OpTable::get)
    let core = op.trim_start_matches('#').trim_start_matches(char::is_alphanumeric);
    match core {
        "*" | "/" => (7, true),
        "+" | "-" => (6, true),
        "==" | "/=" | "<" | ">" | "<=" | ">=" => (4, true),
        "&&" => (3, false),
        "||" => (2, false),
        _ => panic!("operator {} has no built-in fixity", op),
    }
}

fn is_atom(e: &Ex) -> bool {
    matches!(e, Ex::Ident(_) | Ex::Lit(_) | Ex::Record(..) | Ex::Tuple(_) | Ex::Array(_) | Ex::Proj(..))
}

/// constructs whose continuation lines are tied to the column of their first token, which we
/// only ever put first on a line (book / std precedent)
fn needs_line_start(e: &Ex) -> bool {
    match e {
        Ex::Match(..) | Ex::LetRec(..) => true,
        Ex::Type(tbs, _) => tbs.len() > 1,
        _ => false,
    }
}

fn is_chain(e: &Ex) -> bool {
    matches!(e, Ex::Let(..) | Ex::LetRec(..) | Ex::Type(..) | Ex::Do(..) | Ex::Seq(..))
}

fn is_small(e: &Ex) -> bool {
    match e {
        Ex::App(f, ia, xs) => is_atom(f) && ia.iter().all(is_atom) && xs.iter().all(is_atom),
        e => is_atom(e),
    }
}

pub fn escape_str(s: &str) -> String {
    let mut o = String::from("\"");
    for c in s.chars() {
        match c {
            '"' => o.push_str("\\\""),
            '\\' => o.push_str("\\\\"),
            '\n' => o.push_str("\\n"),
            '\r' => o.push_str("\\r"),
            '\t' => o.push_str("\\t"),
            c => o.push(c),
        }
    }
    o.push('"');
    o
}

pub fn lit_text(l: &Lit) -> String {
    match l {
        Lit::Int(i) => i.to_string(),
        Lit::Byte(b) => format!("{}b", b),
        Lit::Float(f) => {
            let x = f64::from_bits(*f);
            let s = format!("{:?}", x);
            assert!(s.contains('.') && !s.contains('e') && !s.contains("inf") && !s.contains("NaN"), "float {} not printable", s);
            s
        }
        Lit::Str(s) => escape_str(s),
        Lit::Char(c) => match c {
            '\'' => "'\\''".to_string(),
            '\\' => "'\\\\'".to_string(),
            '\n' => "'\\n'".to_string(),
            '\r' => "'\\r'".to_string(),
            '\t' => "'\\t'".to_string(),
            c => format!("'{}'", c),
        },
    }
}

fn ident_text(name: &str) -> String {
    if name.starts_with(gast::is_operator_char) {
        format!("({})", name)
    } else {
        name.to_string()
    }
}

struct P<'a> {
    st: &'a Style,
    out: String,
    /// byte column of the cursor (gluon counts columns in bytes; sources with non-ASCII text
    /// never get column-preserving insertions)
    col: usize,
    line_indent: usize,
    ascii: bool,
    gap: usize,
    eidx: usize,
    pidx: usize,
    ranges: Vec<[usize; 4]>,
    applied: bool,
    docs: usize,
    attrs: usize,
    /// nothing but closing brackets, commas and a line break follows the expression being printed
    clean: bool,
    ml_cache: std::cell::RefCell<std::collections::HashMap<usize, bool>>,
    /// alternative literal spellings keyed by expression index
    alt: &'a dyn Fn(&Lit) -> Option<String>,
}

impl<'a> P<'a> {
    /// runs `f` for a child that is followed by more tokens on its last line
    fn dirty<R>(&mut self, f: impl FnOnce(&mut Self) -> R) -> R {
        let saved = self.clean;
        self.clean = false;
        let r = f(self);
        self.clean = saved;
        r
    }
    /// runs `f` for a child that is followed by a line break (or `,` + line break)
    fn fresh<R>(&mut self, f: impl FnOnce(&mut Self) -> R) -> R {
        let saved = self.clean;
        self.clean = true;
        let r = f(self);
        self.clean = saved;
        r
    }
    fn tok(&mut self, s: &str) {
        if !s.is_ascii() {
            self.ascii = false;
        }
        self.out.push_str(s);
        match s.rfind('\n') {
            Some(i) => {
                // a raw string literal with a line break in it
                self.col = s.len() - i - 1;
                self.ascii = false;
            }
            None => self.col += s.len(),
        }
    }
    fn pad(&mut self, c: usize) {
        if self.st.crlf {
            self.out.push('\r');
        }
        self.out.push('\n');
        for _ in 0..c {
            self.out.push(' ');
        }
        self.col = c;
    }
    /// a space between two tokens that must stay on one line (`rec let`, `else if`)
    fn glue(&mut self) {
        self.out.push(' ');
        self.col += 1;
    }
    fn sp(&mut self) {
        let k = self.gap;
        self.gap += 1;
        match self.st.insert {
            Some((g, Ins::BlockComment)) if g == k => {
                self.applied = true;
                self.out.push(' ');
                self.out.push_str(COMMENT_BLOCK);
                self.out.push(' ');
                self.col += 2 + COMMENT_BLOCK.len();
            }
            Some((g, Ins::LineComment)) if g == k && self.ascii => {
                // the rest of the line continues on the next line with every token on the column
                // it would have had: the layout rules are stated in terms of columns only
                self.applied = true;
                let c = self.col + 1;
                self.out.push(' ');
                self.out.push_str(COMMENT_LINE);
                self.pad(c);
            }
            _ => {
                self.out.push(' ');
                self.col += 1;
            }
        }
    }
    fn nl(&mut self, c: usize) {
        let k = self.gap;
        self.gap += 1;
        match self.st.insert {
            Some((g, ins)) if g == k => {
                self.applied = true;
                match ins {
                    Ins::LineComment => {
                        self.out.push(' ');
                        self.out.push_str(COMMENT_LINE);
                        self.pad(c);
                    }
                    Ins::BlockComment => {
                        self.out.push(' ');
                        self.out.push_str(COMMENT_BLOCK);
                        self.pad(c);
                    }
                    Ins::BlankLine => {
                        self.out.push('\n');
                        self.pad(c);
                    }
                    Ins::OwnLineComment => {
                        self.pad(c);
                        self.out.push_str(COMMENT_LINE);
                        self.pad(c);
                    }
                }
            }
            _ => self.pad(c),
        }
        self.line_indent = c;
    }

    // ---- types

    fn ty(&mut self, t: &Ty, atomic: bool, fun_lhs: bool) {
        match t {
            Ty::Hole => self.tok("_"),
            Ty::Name(n) | Ty::Var(n) => self.tok(n),
            Ty::Unit => self.tok("()"),
            Ty::App(f, args) => {
                if atomic {
                    self.tok("(");
                }
                self.ty(f, true, false);
                for a in args {
                    self.sp();
                    self.ty(a, true, false);
                }
                if atomic {
                    self.tok(")");
                }
            }
            Ty::Fun(a, b) => {
                if atomic || fun_lhs {
                    self.tok("(");
                }
                self.ty(a, false, true);
                self.sp();
                self.tok("->");
                self.sp();
                self.ty(b, false, false);
                if atomic || fun_lhs {
                    self.tok(")");
                }
            }
            Ty::Record(fs) => {
                if fs.is_empty() {
                    self.tok("{}");
                } else {
                    self.tok("{");
                    for (k, (n, t)) in fs.iter().enumerate() {
                        if k > 0 {
                            self.tok(",");
                        }
                        self.sp();
                        self.tok(n);
                        self.sp();
                        self.tok(":");
                        self.sp();
                        self.ty(t, false, false);
                    }
                    self.sp();
                    self.tok("}");
                }
            }
            Ty::Variant(vs) => {
                // only ever the whole body of a type binding (book: Variants)
                for (k, (c, args)) in vs.iter().enumerate() {
                    if k > 0 {
                        self.sp();
                    }
                    self.tok("|");
                    self.sp();
                    self.tok(c);
                    for a in args {
                        self.sp();
                        self.ty(a, true, false);
                    }
                }
            }
            Ty::Other(_) => panic!("unprintable type"),
        }
    }

    // ---- patterns

    fn pat(&mut self, p: &Pat, atomic: bool) {
        let idx = self.pidx;
        self.pidx += 1;
        let extra = self.st.redundant_paren_pat == Some(idx);
        if extra {
            self.applied = true;
            self.tok("(");
            self.pat_inner(p, false);
            self.tok(")");
        } else {
            self.pat_inner(p, atomic);
        }
    }

    fn pat_inner(&mut self, p: &Pat, atomic: bool) {
        match p {
            Pat::Ident(n) => self.tok(&ident_text(n)),
            Pat::Lit(l) => {
                let t = (self.alt)(l).unwrap_or_else(|| lit_text(l));
                self.tok(&t)
            }
            Pat::Ctor(c, args) => {
                let paren = atomic && !args.is_empty();
                if paren {
                    self.tok("(");
                }
                self.tok(c);
                for a in args {
                    self.sp();
                    self.pat(a, true);
                }
                if paren {
                    self.tok(")");
                }
            }
            Pat::Tuple(ps) => {
                self.tok("(");
                for (k, q) in ps.iter().enumerate() {
                    if k > 0 {
                        self.tok(",");
                        self.sp();
                    }
                    self.pat(q, false);
                }
                self.tok(")");
            }
            Pat::Record(fs, implicit) => {
                if fs.is_empty() && !implicit {
                    self.tok("{}");
                    return;
                }
                self.tok("{");
                let mut first = true;
                for f in fs {
                    if !first {
                        self.tok(",");
                    }
                    first = false;
                    self.sp();
                    match f {
                        PField::Type(n) => self.tok(n),
                        PField::Value(n, None) => self.tok(&ident_text(n)),
                        PField::Value(n, Some(q)) => {
                            self.tok(&ident_text(n));
                            self.sp();
                            self.tok("=");
                            self.sp();
                            self.pat(q, false);
                        }
                    }
                }
                if *implicit {
                    if !first {
                        self.tok(",");
                    }
                    self.sp();
                    self.tok("?");
                }
                self.sp();
                self.tok("}");
            }
            Pat::As(n, q) => {
                // an as-pattern is itself atomic (grammar: AtomicPattern)
                self.tok(n);
                self.sp();
                self.tok("@");
                self.sp();
                self.pat(q, true);
            }
            Pat::Error => panic!("unprintable pattern"),
        }
    }

    // ---- expressions

    fn begin(&mut self) -> usize {
        let idx = self.eidx;
        self.eidx += 1;
        self.ranges.push([usize::MAX, 0, usize::MAX, 0]);
        idx
    }

    fn want_break(&self, e: &Ex) -> bool {
        match self.st.inline {
            Inline::Always => false,
            Inline::Compact => is_chain(e) || matches!(e, Ex::Match(..) | Ex::If(..)),
            Inline::Never => !is_small(e),
        }
    }

    /// after `=`, `->`, `then`, `else`: the value on the same line, or as an indented block one
    /// step right of `base` (std: everywhere)
    /// does the expression print on more than one line (wherever it is put)?
    fn multiline(&self, e: &Ex) -> bool {
        let key = e as *const Ex as usize;
        if let Some(v) = self.ml_cache.borrow().get(&key) {
            return *v;
        }
        let v = self.multiline_(e);
        self.ml_cache.borrow_mut().insert(key, v);
        v
    }

    fn multiline_(&self, e: &Ex) -> bool {
        match e {
            Ex::Match(..) | Ex::LetRec(..) => true,
            Ex::Type(tbs, b) => tbs.len() > 1 || self.multiline(b),
            Ex::Lambda(_, b) => (self.st.inline != Inline::Always && self.want_break(b)) || self.multiline(b),
            Ex::Ident(_) | Ex::Lit(_) | Ex::Error => false,
            Ex::App(f, ia, xs) => self.multiline(f) || ia.iter().any(|x| self.multiline(x)) || xs.iter().any(|x| self.multiline(x)),
            Ex::Infix(l, _, r) => self.multiline(l) || self.multiline(r),
            Ex::Let(b, body) => self.multiline(&b.expr) || self.multiline(body),
            Ex::If(a, b, c) => self.multiline(a) || self.multiline(b) || self.multiline(c),
            Ex::Record(_, fs, base) => fs.iter().any(|(_, v)| v.as_ref().map_or(false, |v| self.multiline(v))) || base.as_ref().map_or(false, |b| self.multiline(b)),
            Ex::Tuple(xs) | Ex::Array(xs) => xs.iter().any(|x| self.multiline(x)),
            Ex::Proj(b, _) => self.multiline(b),
            Ex::Do(_, _, a, b) | Ex::Seq(a, b) => self.multiline(a) || self.multiline(b),
        }
    }

    /// the only line breaks are in the body of a lambda that ends the expression
    /// (std: `show = \xs ->` + indented body; tests/pass: `test "x" <| \_ ->` + indented body)
    fn breaks_only_in_tail_lambda(&self, e: &Ex) -> bool {
        match e {
            Ex::Lambda(..) => true,
            Ex::Infix(l, _, r) => !self.multiline(l) && self.breaks_only_in_tail_lambda(r),
            _ => false,
        }
    }

    fn rhs(&mut self, e: &Ex, base: usize, block_ok: bool) {
        // The value stays on the line of its `=` / `->` only if it is printed on that one line,
        // or ends in a lambda whose body is the last thing before the next line break: tokens
        // that follow a line break inside a block opened in the middle of a line would have to
        // stay right of that block's first token
        let inline_ok = !needs_line_start(e) && (!self.multiline(e) || (self.clean && self.breaks_only_in_tail_lambda(e)));
        if !inline_ok || (self.st.inline != Inline::Always && self.want_break(e)) {
            let c = base + self.st.step;
            self.nl(c);
            self.stmt(e, c, block_ok);
        } else {
            self.sp();
            self.inl(e, Pos::TopRhs, true);
        }
    }

    /// documentation comment / attribute lines in front of a binding that starts a line on column `c`
    fn meta_lines(&mut self, c: usize) {
        if self.st.meta & 1 != 0 {
            self.tok(META_DOC);
            self.docs += 1;
            self.nl(c);
        }
        if self.st.meta & 2 != 0 {
            self.tok(META_ATTR);
            self.attrs += 1;
            self.nl(c);
        }
    }

    fn binding_head(&mut self, b: &Bind, in_rec: bool) {
        self.tok("let");
        self.sp();
        if b.args.is_empty() && !in_rec {
            self.pat(&b.name, true);
        } else {
            // function bindings and the bindings of a rec group have a plain identifier as
            // name (grammar: ValueBinding, RecursiveValueBinding)
            match &b.name {
                Pat::Ident(n) => self.tok(&ident_text(n)),
                _ => panic!("function binding with a pattern as name"),
            }
            for (implicit, a) in &b.args {
                self.sp();
                if *implicit {
                    self.tok("?");
                }
                self.tok(&ident_text(a));
            }
        }
        if let Some(t) = &b.typ {
            self.sp();
            self.tok(":");
            self.sp();
            self.ty(t, false, false);
        }
        self.sp();
        self.tok("=");
    }

    fn tbind_head(&mut self, tb: &TBind) {
        self.tok("type");
        self.sp();
        self.tok(&tb.name);
        for p in &tb.params {
            self.sp();
            self.tok(p);
        }
        self.sp();
        self.tok("=");
    }

    fn tbind_body(&mut self, tb: &TBind, c: usize, may_break: bool) {
        match &tb.body {
            Ty::Variant(vs) if may_break && self.st.inline == Inline::Never => {
                // std: one variant per line, one step right of `type`
                for (ctor, args) in vs {
                    self.nl(c + self.st.step);
                    self.tok("|");
                    self.sp();
                    self.tok(ctor);
                    for a in args {
                        self.sp();
                        self.ty(a, true, false);
                    }
                }
            }
            t => {
                self.sp();
                self.ty(t, false, false);
            }
        }
    }

    /// `in` + body of a let/type/rec group printed as a vertical chain on column `c`
    fn chain_body(&mut self, body: &Ex, c: usize, continues_group: bool) {
        match self.st.in_style {
            InStyle::Implicit if !continues_group => {
                self.nl(c);
                self.stmt(body, c, true);
            }
            InStyle::WithBody if !is_chain(body) && !needs_line_start(body) && !matches!(body, Ex::If(..)) => {
                self.nl(c);
                self.tok("in");
                self.sp();
                self.inl(body, Pos::Top, true);
            }
            _ => {
                self.nl(c);
                self.tok("in");
                self.nl(c);
                self.stmt(body, c, true);
            }
        }
    }

    /// expression starting at the cursor which is the first token position of a line, column `c`
    fn stmt(&mut self, e: &Ex, c: usize, block_ok: bool) {
        debug_assert_eq!(self.col, c);
        self.line_indent = c;
        let capable = is_chain(e) || matches!(e, Ex::Match(..) | Ex::If(..));
        let vertical = capable && (self.st.inline != Inline::Always || needs_line_start(e) || self.multiline(e));
        if !vertical {
            if let Ex::App(f, ia, xs) = e {
                if self.st.args_own_line && ia.is_empty() && self.st.redundant_paren_expr != Some(self.eidx) {
                    let idx = self.begin();
                    let start = self.out.len();
                    self.dirty(|p| p.inl(f, Pos::Atom, false));
                    let c2 = c + self.st.step;
                    let n = xs.len();
                    for (k, a) in xs.iter().enumerate() {
                        self.nl(c2);
                        if k + 1 < n {
                            self.fresh(|p| p.inl(a, Pos::Atom, false));
                        } else {
                            self.inl(a, Pos::Atom, false);
                        }
                    }
                    self.ranges[idx] = [start, self.out.len(), start, self.out.len()];
                    return;
                }
            }
            return self.inl(e, Pos::TopRhs, true);
        }
        let idx = self.begin();
        let extra = self.st.redundant_paren_expr == Some(idx);
        let start_outer = self.out.len();
        let mut c = c;
        if extra {
            // std/parser.glu chainl1, examples/lisp: `(` + indented block + `)`
            self.applied = true;
            self.tok("(");
            c = self.line_indent + self.st.step;
            self.nl(c);
        }
        let start = self.out.len();
        self.vertical(e, c, block_ok && !extra);
        let end = self.out.len();
        if extra {
            self.tok(")");
        }
        self.ranges[idx] = [start, end, start_outer, self.out.len()];
    }

    fn vertical(&mut self, e: &Ex, c: usize, block_ok: bool) {
        match e {
            Ex::Let(b, body) => {
                self.meta_lines(c);
                self.binding_head(b, false);
                self.fresh(|p| p.rhs(&b.expr, c, true));
                self.chain_body(body, c, false);
            }
            Ex::LetRec(bs, body) => {
                if !self.st.rec_own_line {
                    // book: `/// An infinite list` + `rec let ones = ..`
                    self.meta_lines(c);
                }
                self.tok("rec");
                for (k, b) in bs.iter().enumerate() {
                    if k == 0 && !self.st.rec_own_line {
                        self.glue();
                    } else {
                        self.nl(c);
                        // std/parser.glu: `rec` + `/// doc` + `let many p ..`
                        self.meta_lines(c);
                    }
                    self.binding_head(b, true);
                    self.fresh(|p| p.rhs(&b.expr, c, true));
                }
                // a `let` on the column of a `rec` group continues the group (book: groups are closed with `in`)
                self.chain_body(body, c, matches!(&**body, Ex::Let(..)));
            }
            Ex::Type(tbs, body) => {
                if tbs.len() == 1 {
                    self.meta_lines(c);
                    self.tbind_head(&tbs[0]);
                    self.tbind_body(&tbs[0], c, true);
                } else {
                    if !self.st.rec_own_line {
                        self.meta_lines(c);
                    }
                    self.tok("rec");
                    for (k, tb) in tbs.iter().enumerate() {
                        if k == 0 && !self.st.rec_own_line {
                            self.glue();
                        } else {
                            self.nl(c);
                            self.meta_lines(c);
                        }
                        self.tbind_head(tb);
                        self.tbind_body(tb, c, true);
                    }
                }
                self.chain_body(body, c, tbs.len() > 1 && matches!(&**body, Ex::Type(t, _) if t.len() == 1));
            }
            Ex::Do(p, t, bound, body) => {
                self.tok("do");
                self.sp();
                self.pat(p, false);
                if let Some(t) = t {
                    self.sp();
                    self.tok(":");
                    self.sp();
                    self.ty(t, false, false);
                }
                self.sp();
                self.tok("=");
                self.fresh(|p| p.rhs(bound, c, true));
                self.nl(c);
                self.stmt(body, c, true);
            }
            Ex::Seq(a, body) => {
                // a statement: anything that would swallow the following lines (let/type/do/seq
                // chains, lambdas, and after the `seq` keyword also if/match) is parenthesised
                let open = is_chain(a) || matches!(&**a, Ex::Lambda(..)) || (self.st.paren_if_statement && matches!(&**a, Ex::If(..)));
                if self.st.seq_keyword || !block_ok {
                    // book: Sequence expressions; the only spelling where no block is open
                    // (inside parentheses: examples/lisp/lisp.glu `scope_state (`)
                    self.tok("seq");
                    self.sp();
                    let open = open || matches!(&**a, Ex::Match(..) | Ex::If(..));
                    self.fresh(|p| p.inl(a, if open { Pos::Atom } else { Pos::Top }, true));
                } else if matches!(&**a, Ex::Match(..) | Ex::If(..)) && !(self.st.paren_if_statement && matches!(&**a, Ex::If(..))) {
                    self.fresh(|p| p.stmt(a, c, true));
                } else {
                    self.fresh(|p| p.inl(a, if open { Pos::Atom } else { Pos::Top }, true));
                }
                self.nl(c);
                self.stmt(body, c, true);
            }
            Ex::Match(s, arms) => {
                self.tok("match");
                self.sp();
                self.dirty(|p| p.inl(s, Pos::Head, false));
                self.sp();
                self.tok("with");
                let n_arms = arms.len();
                for (k, (p, body)) in arms.iter().enumerate() {
                    let saved = self.clean;
                    if k + 1 < n_arms {
                        self.clean = true;
                    }
                    self.nl(c);
                    self.tok("|");
                    self.sp();
                    self.pat(p, false);
                    self.sp();
                    self.tok("->");
                    // an alternative's value on the same line must not itself have alternatives
                    let inline_ok = !matches!(body, Ex::Match(..));
                    if inline_ok {
                        self.rhs(body, c, true);
                    } else {
                        let c2 = c + self.st.step;
                        self.nl(c2);
                        self.stmt(body, c2, true);
                    }
                    self.clean = saved;
                }
            }
            Ex::If(p, a, b) => {
                self.tok("if");
                self.sp();
                self.dirty(|q| q.inl(p, Pos::Head, false));
                self.sp();
                self.tok("then");
                self.fresh(|p| p.rhs(a, c, true));
                self.nl(c);
                self.tok("else");
                if self.st.else_if && matches!(&**b, Ex::If(..)) && self.st.redundant_paren_expr != Some(self.eidx) {
                    self.glue();
                    let idx = self.begin();
                    let start = self.out.len();
                    self.vertical(b, c, block_ok);
                    self.ranges[idx] = [start, self.out.len(), start, self.out.len()];
                } else {
                    self.rhs(b, c, true);
                }
            }
            _ => unreachable!(),
        }
    }

    /// expression printed from a cursor anywhere on a line
    fn inl(&mut self, e: &Ex, pos: Pos, tail: bool) {
        let idx = self.begin();
        let extra = self.st.redundant_paren_expr == Some(idx);
        let start_outer = self.out.len();
        let vertical = needs_line_start(e) || ((is_chain(e) || matches!(e, Ex::If(..))) && self.multiline(e));
        let need = vertical
            || match pos {
                Pos::Top | Pos::TopRhs => false,
                // `if` condition / `match` scrutinee: constructs that extend as far right as
                // possible are parenthesised (nobody writes `if \x -> x then ..`)
                Pos::Head => !(is_atom(e) || matches!(e, Ex::App(..) | Ex::Infix(..))),
                Pos::Atom => !is_atom(e),
                Pos::Lhs(paren) => paren || !(is_atom(e) || matches!(e, Ex::App(..) | Ex::Infix(..))),
                Pos::Rhs(paren) => paren || !(is_atom(e) || matches!(e, Ex::App(..) | Ex::Infix(..)) || (tail && matches!(e, Ex::Lambda(..)))),
            };
        if extra {
            self.applied = true;
            self.tok("(");
        }
        let (start, end);
        if need {
            self.tok("(");
            if vertical {
                let c = self.line_indent + self.st.step;
                self.nl(c);
                start = self.out.len();
                self.vertical(e, c, false);
                end = self.out.len();
            } else {
                start = self.out.len();
                self.inline_inner(e, true, false);
                end = self.out.len();
            }
            self.tok(")");
        } else {
            start = self.out.len();
            self.inline_inner(e, if extra { true } else { tail }, pos == Pos::TopRhs && !extra);
            end = self.out.len();
        }
        if extra {
            self.tok(")");
        }
        self.ranges[idx] = [start, end, start_outer, self.out.len()];
    }

    fn seq_items(&mut self, items: &[Ex]) {
        for (k, x) in items.iter().enumerate() {
            if k > 0 {
                self.tok(",");
                self.sp();
            }
            self.dirty(|p| p.inl(x, Pos::Top, true));
        }
    }

    fn inline_inner(&mut self, e: &Ex, tail: bool, multi_ok: bool) {
        match e {
            Ex::Ident(n) => self.tok(&ident_text(n)),
            Ex::Lit(l) => {
                let t = (self.alt)(l).unwrap_or_else(|| lit_text(l));
                self.tok(&t)
            }
            Ex::App(f, ia, xs) => {
                self.dirty(|p| p.inl(f, Pos::Atom, false));
                for a in ia {
                    self.sp();
                    self.tok("?");
                    self.dirty(|p| p.inl(a, Pos::Atom, false));
                }
                for a in xs {
                    self.sp();
                    self.dirty(|p| p.inl(a, Pos::Atom, false));
                }
            }
            Ex::Infix(l, op, r) => {
                let (p, left) = fixity(op);
                let lp = match &**l {
                    Ex::Infix(_, o2, _) => {
                        let (p2, l2) = fixity(o2);
                        !(p2 > p || (p2 == p && left && l2))
                    }
                    _ => false,
                };
                let rp = match &**r {
                    Ex::Infix(_, o2, _) => {
                        let (p2, l2) = fixity(o2);
                        !(p2 > p || (p2 == p && !left && !l2))
                    }
                    _ => false,
                };
                self.dirty(|p| p.inl(l, Pos::Lhs(lp), false));
                self.sp();
                self.tok(op);
                self.sp();
                self.inl(r, Pos::Rhs(rp), tail);
            }
            Ex::Lambda(args, body) => {
                self.tok("\\");
                for (k, a) in args.iter().enumerate() {
                    if k > 0 {
                        self.sp();
                    }
                    self.tok(a);
                }
                self.sp();
                self.tok("->");
                // std: `(\x ->` + body one step right of the line's indentation
                let base = self.line_indent;
                self.rhs(body, base, true);
            }
            Ex::Let(b, body) => {
                self.binding_head(b, false);
                self.sp();
                self.dirty(|p| p.inl(&b.expr, Pos::Top, true));
                self.sp();
                self.tok("in");
                self.sp();
                self.inl(body, Pos::Top, true);
            }
            Ex::Type(tbs, body) => {
                self.tbind_head(&tbs[0]);
                self.tbind_body(&tbs[0], 0, false);
                self.sp();
                self.tok("in");
                self.sp();
                self.inl(body, Pos::Top, true);
            }
            Ex::If(p, a, b) => {
                self.tok("if");
                self.sp();
                self.dirty(|q| q.inl(p, Pos::Head, false));
                self.sp();
                self.tok("then");
                self.sp();
                self.dirty(|p| p.inl(a, Pos::Top, true));
                self.sp();
                self.tok("else");
                self.sp();
                self.inl(b, Pos::Top, true);
            }
            Ex::Record(ts, fs, base) => {
                if ts.is_empty() && fs.is_empty() && base.is_none() {
                    self.tok("{}");
                    return;
                }
                // std: `let monoid : Monoid (List a) = {` + one field per line + `}` on the line's indentation
                let multi = multi_ok && self.clean && self.st.inline == Inline::Never && !fs.is_empty();
                let l = self.line_indent;
                let c = l + self.st.step;
                self.tok("{");
                let mut first = true;
                for t in ts {
                    if !first && !multi {
                        self.tok(",");
                    }
                    first = false;
                    if multi { self.nl(c) } else { self.sp() }
                    self.tok(t);
                    if multi {
                        self.tok(",");
                    }
                }
                for (n, v) in fs {
                    if !first && !multi {
                        self.tok(",");
                    }
                    first = false;
                    if multi {
                        self.nl(c);
                        self.meta_lines(c);
                    } else {
                        self.sp()
                    }
                    self.tok(&ident_text(n));
                    if let Some(v) = v {
                        self.sp();
                        self.tok("=");
                        if multi {
                            self.fresh(|p| p.rhs(v, c, false));
                        } else {
                            self.sp();
                            self.dirty(|p| p.inl(v, Pos::Top, true));
                        }
                    }
                    if multi {
                        self.tok(",");
                    }
                }
                if let Some(b) = base {
                    if !first && !multi {
                        self.tok(",");
                    }
                    if multi { self.nl(c) } else { self.sp() }
                    self.tok("..");
                    if multi && self.st.base_own_line {
                        self.nl(c);
                    } else {
                        self.sp();
                    }
                    let saved = self.clean;
                    self.clean = multi;
                    self.inl(b, Pos::Top, true);
                    self.clean = saved;
                }
                if multi { self.nl(l) } else { self.sp() }
                self.tok("}");
            }
            Ex::Tuple(xs) => {
                self.tok("(");
                self.seq_items(xs);
                self.tok(")");
            }
            Ex::Array(xs) => {
                self.tok("[");
                self.seq_items(xs);
                self.tok("]");
            }
            Ex::Proj(b, f) => {
                // `1.a` would be tokenised as a float
                let numeric = matches!(&**b, Ex::Lit(Lit::Int(_)) | Ex::Lit(Lit::Byte(_)) | Ex::Lit(Lit::Float(_)));
                self.dirty(|p| p.inl(b, if numeric { Pos::Lhs(true) } else { Pos::Atom }, false));
                self.tok(".");
                self.tok(&ident_text(f));
            }
            Ex::Do(p, t, bound, body) => {
                self.tok("do");
                self.sp();
                self.pat(p, false);
                if let Some(t) = t {
                    self.sp();
                    self.tok(":");
                    self.sp();
                    self.ty(t, false, false);
                }
                self.sp();
                self.tok("=");
                self.sp();
                self.dirty(|p| p.inl(bound, Pos::Top, true));
                self.sp();
                self.tok("in");
                self.sp();
                self.inl(body, Pos::Top, true);
            }
            Ex::Seq(a, body) => {
                self.tok("seq");
                self.sp();
                self.dirty(|p| p.inl(a, Pos::Top, true));
                self.sp();
                self.tok("in");
                self.sp();
                self.inl(body, Pos::Top, true);
            }
            Ex::Match(..) | Ex::LetRec(..) => unreachable!("printed vertically"),
            Ex::Error => panic!("unprintable expression"),
        }
    }
}

#[derive(Clone, Copy, PartialEq, Eq)]
enum Pos {
    /// any expression (grammar: SpExpr)
    Top,
    /// the same, directly after `=`, `->`, `then`, `else` of a construct printed vertically
    TopRhs,
    /// condition of `if`, scrutinee of `match`
    Head,
    /// operand of an infix operator; the flag says that fixity requires parentheses
    Lhs(bool),
    Rhs(bool),
    /// grammar: AtomicExpr
    Atom,
}

pub fn print_with(e: &Ex, st: &Style, alt: &dyn Fn(&Lit) -> Option<String>) -> Printed {
    let mut p = P { st, out: String::new(), col: 0, line_indent: 0, ascii: true, gap: 0, eidx: 0, pidx: 0, ranges: Vec::new(), applied: false, docs: 0, attrs: 0, clean: true, ml_cache: Default::default(), alt };
    p.stmt(e, 0, true);
    Printed { src: p.out, gaps: p.gap, exprs: p.eidx, pats: p.pidx, ranges: p.ranges, applied: p.applied, docs: p.docs, attrs: p.attrs }
}

pub fn print(e: &Ex, st: &Style) -> Printed {
    print_with(e, st, &|_| None)
}

// ---------------------------------------------------------------------------------------------
// exhaustive enumeration of ASTs by size

#[derive(Clone, Debug)]
pub struct GenCfg {
    pub ops: Vec<&'static str>,
    pub max_args: usize,
    pub tuple3: bool,
    pub implicit_args: bool,
    pub annotations: bool,
    pub unit_leaf: bool,
}

impl GenCfg {
    pub fn quick() -> GenCfg {
        GenCfg { ops: vec!["#Int+", "#Int*", "||"], max_args: 2, tuple3: false, implicit_args: true, annotations: true, unit_leaf: true }
    }
}

const HOLE: &str = "?";

/// Patterns of exactly `n` nodes (binder identifiers are renamed afterwards)
pub fn pats(n: usize, memo: &mut Vec<Option<Vec<Pat>>>) -> Vec<Pat> {
    if n == 0 {
        return vec![];
    }
    if memo.len() <= n {
        memo.resize(n + 1, None);
    }
    if let Some(v) = &memo[n] {
        return v.clone();
    }
    let mut out = Vec::new();
    if n == 1 {
        out.push(Pat::Ident(HOLE.into()));
        out.push(Pat::Ident("_".into()));
        out.push(Pat::Lit(Lit::Int(0)));
        out.push(Pat::Ctor("C".into(), vec![]));
        out.push(Pat::Tuple(vec![]));
        out.push(Pat::Record(vec![PField::Value(HOLE.into(), None)], false));
        out.push(Pat::Record(vec![PField::Type("T".into())], false));
        out.push(Pat::Record(vec![], true));
    } else {
        let k = n - 1;
        for p in pats(k, memo) {
            out.push(Pat::Ctor("C".into(), vec![p.clone()]));
            out.push(Pat::As(HOLE.into(), Box::new(p.clone())));
            out.push(Pat::Record(vec![PField::Value(HOLE.into(), Some(p.clone()))], false));
            if k == 1 {
                if let Pat::Record(fs, false) = &p {
                    // two shorthand fields / shorthand + implicit import
                    let mut two = fs.clone();
                    two.push(PField::Value(HOLE.into(), None));
                    out.push(Pat::Record(two, false));
                    out.push(Pat::Record(fs.clone(), true));
                }
            }
        }
        for a in 1..k {
            let b = k - a;
            for p in pats(a, memo) {
                for q in pats(b, memo) {
                    out.push(Pat::Ctor("C".into(), vec![p.clone(), q.clone()]));
                    out.push(Pat::Tuple(vec![p.clone(), q.clone()]));
                }
            }
        }
    }
    memo[n] = Some(out.clone());
    out
}

pub struct ExGen {
    pub cfg: GenCfg,
    memo: Vec<Option<std::sync::Arc<Vec<Ex>>>>,
    pmemo: Vec<Option<Vec<Pat>>>,
}

fn id() -> Ex {
    Ex::Ident(HOLE.into())
}

fn bx(e: &Ex) -> Box<Ex> {
    Box::new(e.clone())
}

impl ExGen {
    pub fn new(cfg: GenCfg) -> ExGen {
        ExGen { cfg, memo: Vec::new(), pmemo: Vec::new() }
    }

    fn type_bindings() -> Vec<TBind> {
        vec![
            TBind { name: "T".into(), params: vec![], body: Ty::Name("Int".into()) },
            TBind { name: "T".into(), params: vec!["a".into()], body: Ty::Variant(vec![("A".into(), vec![Ty::Var("a".into())]), ("B".into(), vec![])]) },
            TBind { name: "T".into(), params: vec![], body: Ty::Record(vec![("x".into(), Ty::Name("Int".into())), ("y".into(), Ty::Fun(Box::new(Ty::Var("a".into())), Box::new(Ty::App(Box::new(Ty::Name("T".into())), vec![Ty::Var("a".into())]))))]) },
        ]
    }

    /// all expressions with exactly `n` nodes
    pub fn exprs(&mut self, n: usize) -> std::sync::Arc<Vec<Ex>> {
        if self.memo.len() <= n {
            self.memo.resize(n + 1, None);
        }
        if let Some(v) = &self.memo[n] {
            return v.clone();
        }
        let mut out: Vec<Ex> = Vec::new();
        if n == 0 {
        } else if n == 1 {
            out.push(id());
            out.push(Ex::Lit(Lit::Int(0)));
            if self.cfg.unit_leaf {
                out.push(Ex::Tuple(vec![]));
            }
            out.push(Ex::Record(vec![], vec![(HOLE.into(), None)], None));
        } else {
            let k = n - 1;
            // one child of size k
            for a in self.exprs(k).iter() {
                out.push(Ex::App(Box::new(id()), vec![], vec![a.clone()]));
                out.push(Ex::Lambda(vec![HOLE.into()], bx(a)));
                out.push(Ex::Array(vec![a.clone()]));
                out.push(Ex::Proj(bx(a), HOLE.into()));
                out.push(Ex::Record(vec![], vec![(HOLE.into(), Some(a.clone()))], None));
                out.push(Ex::Record(vec![], vec![(HOLE.into(), None)], Some(bx(a))));
                // type bindings cost one node
                for tb in Self::type_bindings() {
                    out.push(Ex::Type(vec![tb], bx(a)));
                }
            }
            if k >= 2 {
                for a in self.exprs(k - 1).iter() {
                    out.push(Ex::Lambda(vec![HOLE.into(), HOLE.into()], bx(a)));
                    out.push(Ex::Record(vec!["T".into()], vec![(HOLE.into(), Some(a.clone()))], None));
                    out.push(Ex::Record(vec![], vec![(HOLE.into(), Some(a.clone())), (HOLE.into(), None)], None));
                    let tbs = Self::type_bindings();
                    let mut second = tbs[0].clone();
                    second.name = "U".into();
                    out.push(Ex::Type(vec![tbs[1].clone(), second], bx(a)));
                }
            }
            // two children
            for sa in 1..k {
                let sb = k - sa;
                let xs = self.exprs(sa);
                let ys = self.exprs(sb);
                for a in xs.iter() {
                    for b in ys.iter() {
                        out.push(Ex::App(bx(a), vec![], vec![b.clone()]));
                        for op in self.cfg.ops.clone() {
                            out.push(Ex::Infix(bx(a), op.to_string(), bx(b)));
                        }
                        out.push(Ex::Let(Box::new(Bind { name: Pat::Ident(HOLE.into()), args: vec![], typ: None, expr: a.clone() }), bx(b)));
                        out.push(Ex::Tuple(vec![a.clone(), b.clone()]));
                        out.push(Ex::Array(vec![a.clone(), b.clone()]));
                        out.push(Ex::Seq(bx(a), bx(b)));
                        out.push(Ex::Do(Pat::Ident(HOLE.into()), None, bx(a), bx(b)));
                        out.push(Ex::Record(vec![], vec![(HOLE.into(), Some(a.clone()))], Some(bx(b))));
                        out.push(Ex::Record(vec![], vec![(HOLE.into(), Some(a.clone())), (HOLE.into(), Some(b.clone()))], None));
                    }
                }
            }
            // two children + one extra node
            if k >= 3 {
                for sa in 1..k - 1 {
                    let sb = k - 1 - sa;
                    let xs = self.exprs(sa);
                    let ys = self.exprs(sb);
                    for a in xs.iter() {
                        for b in ys.iter() {
                            // function binding, annotated binding, single-binding rec group
                            out.push(Ex::Let(Box::new(Bind { name: Pat::Ident(HOLE.into()), args: vec![(false, HOLE.into())], typ: None, expr: a.clone() }), bx(b)));
                            if self.cfg.annotations {
                                out.push(Ex::Let(Box::new(Bind { name: Pat::Ident(HOLE.into()), args: vec![], typ: Some(Ty::Fun(Box::new(Ty::Name("Int".into())), Box::new(Ty::App(Box::new(Ty::Name("T".into())), vec![Ty::Var("a".into())])))), expr: a.clone() }), bx(b)));
                            }
                            out.push(Ex::LetRec(vec![Bind { name: Pat::Ident(HOLE.into()), args: vec![(false, HOLE.into())], typ: None, expr: a.clone() }], bx(b)));
                            if self.cfg.implicit_args {
                                out.push(Ex::App(Box::new(id()), vec![a.clone()], vec![b.clone()]));
                            }
                            if self.cfg.max_args >= 2 {
                                out.push(Ex::App(Box::new(id()), vec![], vec![a.clone(), b.clone()]));
                            }
                        }
                    }
                }
            }
            // pattern + children: let with pattern, do with pattern, match with one alternative
            for sp_ in 1..k {
                let rest = k - sp_;
                let ps = pats(sp_, &mut self.pmemo);
                for sa in 1..rest {
                    let sb = rest - sa;
                    let xs = self.exprs(sa);
                    let ys = self.exprs(sb);
                    for p in ps.iter() {
                        let plain_ident = matches!(p, Pat::Ident(n) if n == HOLE);
                        for a in xs.iter() {
                            for b in ys.iter() {
                                if !plain_ident {
                                    out.push(Ex::Let(Box::new(Bind { name: p.clone(), args: vec![], typ: None, expr: a.clone() }), bx(b)));
                                    out.push(Ex::Do(p.clone(), None, bx(a), bx(b)));
                                }
                                out.push(Ex::Match(bx(a), vec![(p.clone(), b.clone())]));
                            }
                        }
                    }
                }
            }
            // three children: if, two-alternative match (patterns cost), two-binding rec group, tuple3
            if k >= 3 {
                for sa in 1..k - 1 {
                    for sb in 1..k - sa {
                        let sc = k - sa - sb;
                        if sc == 0 {
                            continue;
                        }
                        let xs = self.exprs(sa);
                        let ys = self.exprs(sb);
                        let zs = self.exprs(sc);
                        for a in xs.iter() {
                            for b in ys.iter() {
                                for c in zs.iter() {
                                    out.push(Ex::If(bx(a), bx(b), bx(c)));
                                    if self.cfg.tuple3 {
                                        out.push(Ex::Tuple(vec![a.clone(), b.clone(), c.clone()]));
                                    }
                                }
                            }
                        }
                    }
                }
            }
            if k >= 4 {
                // rec group with two bindings (+1), match with two alternatives with 1-node patterns (+2)
                for sa in 1..k - 2 {
                    for sb in 1..k - 1 - sa {
                        let sc = k - 1 - sa - sb;
                        if sc == 0 {
                            continue;
                        }
                        let xs = self.exprs(sa);
                        let ys = self.exprs(sb);
                        let zs = self.exprs(sc);
                        for a in xs.iter() {
                            for b in ys.iter() {
                                for c in zs.iter() {
                                    out.push(Ex::LetRec(
                                        vec![
                                            Bind { name: Pat::Ident(HOLE.into()), args: vec![(false, HOLE.into())], typ: None, expr: a.clone() },
                                            Bind { name: Pat::Ident(HOLE.into()), args: vec![], typ: None, expr: b.clone() },
                                        ],
                                        bx(c),
                                    ));
                                }
                            }
                        }
                    }
                }
            }
            if k >= 5 {
                let p1 = pats(1, &mut self.pmemo);
                for sa in 1..k - 3 {
                    for sb in 1..k - 2 - sa {
                        let sc = k - 2 - sa - sb;
                        if sc == 0 {
                            continue;
                        }
                        let xs = self.exprs(sa);
                        let ys = self.exprs(sb);
                        let zs = self.exprs(sc);
                        for a in xs.iter() {
                            for b in ys.iter() {
                                for c in zs.iter() {
                                    // the two patterns: a constructor and a catch-all / each 1-node pattern first
                                    for p in p1.iter() {
                                        out.push(Ex::Match(bx(a), vec![(p.clone(), b.clone()), (Pat::Ident("_".into()), c.clone())]));
                                    }
                                }
                            }
                        }
                    }
                }
            }
        }
        let out = std::sync::Arc::new(out);
        self.memo[n] = Some(out.clone());
        out
    }
}

const LOWER: &[&str] = &["a", "b", "c", "d", "e", "f", "g", "h", "j", "k", "m", "n", "p", "q", "s", "t", "u", "v", "w", "x", "y", "z"];
const UPPER: &[&str] = &["A", "B", "C", "D", "E", "F", "G", "H"];

/// Gives every identifier / literal leaf a distinct spelling, in source order.
pub struct Namer {
    lower: usize,
    upper: usize,
    int: i64,
}

impl Namer {
    pub fn new() -> Namer {
        Namer { lower: 0, upper: 0, int: 0 }
    }
    fn low(&mut self) -> String {
        let k = self.lower;
        self.lower += 1;
        if k < LOWER.len() { LOWER[k].to_string() } else { format!("{}{}", LOWER[k % LOWER.len()], k / LOWER.len()) }
    }
    fn up(&mut self) -> String {
        let k = self.upper;
        self.upper += 1;
        if k < UPPER.len() { UPPER[k].to_string() } else { format!("{}{}", UPPER[k % UPPER.len()], k / UPPER.len()) }
    }
    fn name(&mut self, n: &mut String) {
        if n == HOLE {
            *n = self.low();
        }
    }
    fn lit(&mut self, l: &mut Lit) {
        if let Lit::Int(0) = l {
            self.int += 1;
            *l = Lit::Int(self.int);
        }
    }
    pub fn pat(&mut self, p: &mut Pat) {
        match p {
            Pat::Ident(n) => self.name(n),
            Pat::Ctor(c, args) => {
                if c == "C" {
                    *c = self.up();
                }
                for a in args {
                    self.pat(a)
                }
            }
            Pat::Lit(l) => self.lit(l),
            Pat::Tuple(ps) => {
                for a in ps {
                    self.pat(a)
                }
            }
            Pat::Record(fs, _) => {
                for f in fs {
                    match f {
                        PField::Type(n) => {
                            if n == "T" {
                                *n = self.up();
                            }
                        }
                        PField::Value(n, v) => {
                            self.name(n);
                            if let Some(v) = v {
                                self.pat(v)
                            }
                        }
                    }
                }
            }
            Pat::As(n, q) => {
                self.name(n);
                self.pat(q)
            }
            Pat::Error => {}
        }
    }
    fn bind(&mut self, b: &mut Bind) {
        self.pat(&mut b.name);
        for a in &mut b.args {
            self.name(&mut a.1);
        }
        self.expr(&mut b.expr);
    }
    pub fn expr(&mut self, e: &mut Ex) {
        match e {
            Ex::Ident(n) => self.name(n),
            Ex::Lit(l) => self.lit(l),
            Ex::App(f, ia, xs) => {
                self.expr(f);
                for a in ia {
                    self.expr(a)
                }
                for a in xs {
                    self.expr(a)
                }
            }
            Ex::Infix(l, _, r) => {
                self.expr(l);
                self.expr(r)
            }
            Ex::Lambda(args, b) => {
                for a in args {
                    self.name(a)
                }
                self.expr(b)
            }
            Ex::Let(b, body) => {
                self.bind(b);
                self.expr(body)
            }
            Ex::LetRec(bs, body) => {
                for b in bs {
                    self.bind(b)
                }
                self.expr(body)
            }
            Ex::Type(_, body) => self.expr(body),
            Ex::If(a, b, c) => {
                self.expr(a);
                self.expr(b);
                self.expr(c)
            }
            Ex::Match(s, arms) => {
                self.expr(s);
                for (p, x) in arms {
                    self.pat(p);
                    self.expr(x)
                }
            }
            Ex::Record(ts, fs, base) => {
                for t in ts {
                    if t == "T" {
                        *t = self.up();
                    }
                }
                for (n, v) in fs {
                    self.name(n);
                    if let Some(v) = v {
                        self.expr(v)
                    }
                }
                if let Some(b) = base {
                    self.expr(b)
                }
            }
            Ex::Tuple(xs) | Ex::Array(xs) => {
                for a in xs {
                    self.expr(a)
                }
            }
            Ex::Proj(b, f) => {
                self.expr(b);
                self.name(f)
            }
            Ex::Do(p, _, a, b) => {
                self.pat(p);
                self.expr(a);
                self.expr(b)
            }
            Ex::Seq(a, b) => {
                self.expr(a);
                self.expr(b)
            }
            Ex::Error => {}
        }
    }
}

pub fn named(e: &Ex) -> Ex {
    let mut e = e.clone();
    Namer::new().expr(&mut e);
    e
}
