//! Evidence writer, violation artefacts, known-findings matcher and exit protocol.
//!
//! exit 0: property held on everything explored (known findings listed)
//! exit 1: a `VIOLATION property=<id> replay=<path>` line per unlisted violation
//! exit 2: machinery failure (never a verdict)

use serde_json::{json, Map, Value};
use std::collections::BTreeMap;
use std::path::PathBuf;
use std::time::Instant;

pub fn verif_dir() -> PathBuf {
    std::env::var_os("VERIF_DIR")
        .map(PathBuf::from)
        .unwrap_or_else(|| PathBuf::from("/verif"))
}

#[derive(Clone, Debug)]
pub struct Violation {
    /// Stable signature of the *specific* failing input / call site / history; matched against
    /// known_findings.jsonl
    pub key: String,
    /// Human readable description
    pub what: String,
    /// Everything needed to replay the case without the explorer
    pub replay: Value,
}

pub struct Report {
    pub property: String,
    pub tier: String,
    pub seed: u64,
    pub level: &'static str,
    pub coverage: Map<String, Value>,
    pub assumptions: Vec<String>,
    pub violations: Vec<Violation>,
    pub machinery_errors: Vec<String>,
    start: Instant,
}

impl Report {
    pub fn new(property: &str, tier: &str, level: &'static str) -> Report {
        let seed = std::env::var("VERIF_SEED")
            .ok()
            .and_then(|s| s.parse::<u64>().ok())
            .unwrap_or(0);
        Report {
            property: property.to_string(),
            tier: tier.to_string(),
            seed,
            level,
            coverage: Map::new(),
            assumptions: Vec::new(),
            violations: Vec::new(),
            machinery_errors: Vec::new(),
            start: Instant::now(),
        }
    }
    pub fn elapsed(&self) -> f64 {
        self.start.elapsed().as_secs_f64()
    }
    pub fn set(&mut self, key: &str, v: impl Into<Value>) {
        self.coverage.insert(key.to_string(), v.into());
    }
    pub fn add(&mut self, key: &str, n: u64) {
        let cur = self.coverage.get(key).and_then(|v| v.as_u64()).unwrap_or(0);
        self.coverage.insert(key.to_string(), json!(cur + n));
    }
    pub fn get_u64(&self, key: &str) -> u64 {
        self.coverage.get(key).and_then(|v| v.as_u64()).unwrap_or(0)
    }
    pub fn sample(&mut self, v: impl Into<Value>) {
        let e = self
            .coverage
            .entry("samples".to_string())
            .or_insert_with(|| json!([]));
        if let Value::Array(a) = e {
            if a.len() < 24 {
                a.push(v.into());
            }
        }
    }
    pub fn assume(&mut self, s: impl Into<String>) {
        self.assumptions.push(s.into());
    }
    pub fn violation(&mut self, key: impl Into<String>, what: impl Into<String>, replay: Value) {
        let key = key.into();
        // one artefact per distinct key; count all
        self.add("violating_cases_total", 1);
        if self.violations.iter().filter(|v| v.key == key).count() >= 1 {
            return;
        }
        let distinct: std::collections::BTreeSet<&str> =
            self.violations.iter().map(|v| v.key.as_str()).collect();
        if distinct.len() >= 1000 && !distinct.contains(key.as_str()) {
            return;
        }
        self.violations.push(Violation {
            key,
            what: what.into(),
            replay,
        });
    }
    pub fn machinery(&mut self, s: impl Into<String>) {
        self.machinery_errors.push(s.into());
    }

    /// Merge sub-report (for properties decided by several engines)
    pub fn absorb(&mut self, prefix: &str, other: Report) {
        for (k, v) in other.coverage {
            match k.as_str() {
                "evaluations" | "distinct_nontrivial" | "states" | "transitions"
                | "traces_validated_against_impl" | "violating_cases_total" => {
                    self.add(&k, v.as_u64().unwrap_or(0));
                    self.coverage.insert(format!("{}.{}", prefix, k), v);
                }
                "samples" => {
                    if let Value::Array(a) = v {
                        for s in a.into_iter().take(6) {
                            self.sample(json!({ "engine": prefix, "case": s }));
                        }
                    }
                }
                "exhaustive" => {
                    let cur = self
                        .coverage
                        .get("exhaustive")
                        .and_then(|x| x.as_bool())
                        .unwrap_or(true);
                    self.coverage
                        .insert("exhaustive".into(), json!(cur && v.as_bool().unwrap_or(false)));
                    self.coverage.insert(format!("{}.exhaustive", prefix), v);
                }
                "rule" => {
                    let cur = self
                        .coverage
                        .get("rule")
                        .and_then(|x| x.as_str())
                        .unwrap_or("")
                        .to_string();
                    let add = format!("[{}] {}", prefix, v.as_str().unwrap_or(""));
                    self.coverage.insert(
                        "rule".into(),
                        json!(if cur.is_empty() { add } else { format!("{} || {}", cur, add) }),
                    );
                }
                _ => {
                    self.coverage.insert(format!("{}.{}", prefix, k), v);
                }
            }
        }
        self.assumptions.extend(other.assumptions);
        self.violations.extend(other.violations);
        self.machinery_errors.extend(other.machinery_errors);
    }
}

#[derive(Debug)]
pub struct KnownFinding {
    pub property: String,
    pub key: String,
    pub status: String,
    pub what: String,
}

pub fn load_known_findings() -> Vec<KnownFinding> {
    let p = verif_dir().join("known_findings.jsonl");
    let mut out = Vec::new();
    if let Ok(text) = std::fs::read_to_string(&p) {
        for line in text.lines() {
            let line = line.trim();
            if line.is_empty() || line.starts_with('#') {
                continue;
            }
            if let Ok(v) = serde_json::from_str::<Value>(line) {
                out.push(KnownFinding {
                    property: v["property"].as_str().unwrap_or("").to_string(),
                    key: v["key"].as_str().unwrap_or("").to_string(),
                    status: v["status"].as_str().unwrap_or("").to_string(),
                    what: v["what"].as_str().unwrap_or("").to_string(),
                });
            }
        }
    }
    out
}

fn fnv(s: &str) -> u64 {
    let mut h: u64 = 0xcbf29ce484222325;
    for b in s.bytes() {
        h ^= b as u64;
        h = h.wrapping_mul(0x100000001b3);
    }
    h
}

/// Writes evidence and replay artefacts, prints protocol lines, returns the exit code.
pub fn finish(mut report: Report) -> i32 {
    let known = load_known_findings();
    let dir = verif_dir();
    let mut unlisted: Vec<(Violation, PathBuf)> = Vec::new();
    // replay artefacts of earlier runs are stale: each run rewrites its property's directory
    let _ = std::fs::remove_dir_all(dir.join("replays").join(&report.property));
    let mut known_hit: BTreeMap<String, (String, u64)> = BTreeMap::new();
    for v in &report.violations {
        let k = known.iter().find(|k| {
            k.status == "known" && k.property == report.property && k.key == v.key
        });
        match k {
            Some(k) => {
                let e = known_hit
                    .entry(k.key.clone())
                    .or_insert((k.what.clone(), 0));
                e.1 += 1;
            }
            None => {
                let rdir = dir.join("replays").join(&report.property);
                let _ = std::fs::create_dir_all(&rdir);
                let path = rdir.join(format!("{:016x}.json", fnv(&format!("{}{}", v.key, v.replay))));
                let body = json!({
                    "property": report.property,
                    "key": v.key,
                    "what": v.what,
                    "replay": v.replay,
                });
                let _ = std::fs::write(&path, serde_json::to_string_pretty(&body).unwrap());
                unlisted.push((v.clone(), path));
            }
        }
    }
    for (key, (what, n)) in &known_hit {
        println!(
            "KNOWN-FINDING: property={} key={} cases={} {}",
            report.property, key, n, what
        );
    }
    let mut seen_keys = std::collections::BTreeSet::new();
    for (v, path) in &unlisted {
        if seen_keys.insert(v.key.clone()) {
            println!(
                "VIOLATION property={} replay={}",
                report.property,
                path.display()
            );
            println!("  key={} :: {}", v.key, v.what);
        }
    }
    for m in &report.machinery_errors {
        eprintln!("MACHINERY-ERROR property={} {}", report.property, m);
    }
    let wall = report.elapsed();
    report.coverage.insert(
        "known_findings_hit".into(),
        json!(known_hit
            .iter()
            .map(|(k, (_, n))| json!({"key": k, "cases": n}))
            .collect::<Vec<_>>()),
    );
    if !report.coverage.contains_key("samples") {
        report.coverage.insert("samples".into(), json!([]));
    }
    let ev = json!({
        "property_id": report.property,
        "tier": report.tier,
        "seed": report.seed,
        "level": report.level,
        "coverage": Value::Object(report.coverage.clone()),
        "assumptions": report.assumptions,
        "wall_s": (wall * 1000.0).round() / 1000.0,
        "violations": seen_keys.len(),
        "machinery_errors": report.machinery_errors,
    });
    let edir = dir.join("evidence");
    let _ = std::fs::create_dir_all(&edir);
    let epath = edir.join(format!("{}.json", report.property));
    if let Err(e) = std::fs::write(&epath, serde_json::to_string_pretty(&ev).unwrap() + "\n") {
        eprintln!("MACHINERY-ERROR cannot write evidence: {}", e);
        return 2;
    }
    let summary: Vec<String> = ["evaluations", "distinct_nontrivial", "states", "transitions", "exhaustive"]
        .iter()
        .filter_map(|k| report.coverage.get(*k).map(|v| format!("{}={}", k, v)))
        .collect();
    println!(
        "{} {} level={} {} violations={} known={} wall={:.1}s",
        report.property,
        report.tier,
        report.level,
        summary.join(" "),
        seen_keys.len(),
        known_hit.len(),
        wall
    );
    if !unlisted.is_empty() {
        return 1;
    }
    if !report.machinery_errors.is_empty() {
        return 2;
    }
    0
}
