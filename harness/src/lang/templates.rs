//! Feature-product families: parametric GL-core templates whose parameter space is enumerated
//! as a full cartesian product. They reach the interaction classes the size-bounded space is too
//! small for (call shape x position x capture x enclosing pattern, pattern matrices, record
//! update ordering, recursion shapes, short-circuit nesting, do-chains).

use super::gen::compositions;
use super::term::*;

fn int(i: i64) -> Term {
    Term::Int(i)
}
fn add(l: Term, r: Term) -> Term {
    bin(Op::Add, l, r)
}
fn mul(l: Term, r: Term) -> Term {
    bin(Op::Mul, l, r)
}
fn sub(l: Term, r: Term) -> Term {
    bin(Op::Sub, l, r)
}
fn eq(l: Term, r: Term) -> Term {
    bin(Op::Eq, l, r)
}
fn lam(ps: &[String], body: Term) -> Term {
    Term::Lam(ps.to_vec(), b(body))
}
fn ctor(c: &str, args: Vec<Term>) -> Term {
    Term::Ctor(c.to_string(), args)
}
fn pctor(c: &str, args: Vec<Pat>) -> Pat {
    Pat::Ctor(c.to_string(), args)
}
fn pvar(s: &str) -> Pat {
    Pat::Var(s.to_string())
}
fn record(fs: Vec<(&str, Term)>) -> Term {
    Term::Record(fs.into_iter().map(|(n, t)| (n.to_string(), t)).collect())
}
fn proj(e: Term, f: &str) -> Term {
    Term::Proj(b(e), f.to_string())
}
fn if_(c: Term, t: Term, e: Term) -> Term {
    Term::If(b(c), b(t), b(e))
}

// ---------------------------------------------------------------------------------------------
// 1. call shapes

/// Function of `n` parameters split into curried groups `def` (e.g. [2,1] = `\p0 p1 -> \p2 -> ..`)
/// whose body is the base-10 number p0 p1 .. p(n-1) plus the captured variables.
fn curried_body(def: &[usize], captured: &[&str], extra: Option<Term>) -> Term {
    let n: usize = def.iter().sum();
    let mut body = var("p0");
    for i in 1..n {
        body = add(mul(body, int(10)), var(&format!("p{}", i)));
    }
    for c in captured {
        body = add(body, var(c));
    }
    if let Some(e) = extra {
        body = add(body, e);
    }
    // wrap groups from the inside out, all groups except the first (the first group is the
    // definition's own parameter list)
    let mut start = n;
    for g in def.iter().skip(1).rev() {
        let ps: Vec<String> = (start - g..start).map(|i| format!("p{}", i)).collect();
        body = lam(&ps, body);
        start -= g;
    }
    body
}

fn first_params(def: &[usize]) -> Vec<String> {
    (0..def[0]).map(|i| format!("p{}", i)).collect()
}

/// applies `callee` to the arguments 1..=n in groups `call`
fn apply_groups(callee: Term, call: &[usize], first_arg: i64) -> Term {
    let mut cur = callee;
    let mut next = first_arg;
    for g in call {
        let args: Vec<Term> = (0..*g)
            .map(|_| {
                let a = int(next);
                next += 1;
                a
            })
            .collect();
        cur = app(cur, args);
    }
    cur
}

pub fn call_shapes(tier: &str) -> Vec<(String, Term)> {
    let mut out = Vec::new();
    let max_n = if tier == "quick" { 3 } else { 4 };
    for n in 1..=max_n {
        for def in compositions(n, 1)
            .into_iter()
            .chain(compositions(n, 2))
            .chain(compositions(n, 3))
            .chain(compositions(n, 4))
        {
            for call in compositions(n, 1)
                .into_iter()
                .chain(compositions(n, 2))
                .chain(compositions(n, 3))
                .chain(compositions(n, 4))
            {
                for kind in 0..5 {
                    for position in 0..6 {
                        for capture in 0..3 {
                            for enclosing in 0..4 {
                                out.push((
                                    "call_shape".to_string(),
                                    call_shape(&def, &call, kind, position, capture, enclosing),
                                ));
                            }
                        }
                    }
                }
            }
        }
    }
    out
}

fn call_shape(def: &[usize], call: &[usize], kind: usize, position: usize, capture: usize, enclosing: usize) -> Term {
    let captured: Vec<&str> = match capture {
        0 => vec![],
        1 => vec!["c0"],
        _ => vec!["c0", "c1"],
    };
    let body = curried_body(def, &captured, None);
    let ps = first_params(def);
    let ps_ref: Vec<&str> = ps.iter().map(|s| s.as_str()).collect();
    // the call expression, given the callee is bound appropriately
    let (bind, callee, first_arg): (Box<dyn Fn(Term) -> Term>, Term, i64) = match kind {
        // let-bound function
        0 => {
            let body = body.clone();
            let ps: Vec<String> = ps.clone();
            (
                Box::new(move |rest| {
                    let ps_ref: Vec<&str> = ps.iter().map(|s| s.as_str()).collect();
                    letfun("f", &ps_ref, body.clone(), rest)
                }),
                var("f"),
                1,
            )
        }
        // variable bound to a lambda
        1 => {
            let l = lam(&ps, body.clone());
            (Box::new(move |rest| let_("f", l.clone(), rest)), var("f"), 1)
        }
        // record field
        2 => {
            let l = lam(&ps, body.clone());
            (
                Box::new(move |rest| let_("r", record(vec![("k", int(0)), ("f", l.clone())]), rest)),
                proj(var("r"), "f"),
                1,
            )
        }
        // inline lambda
        3 => (Box::new(|rest| rest), lam(&ps, body.clone()), 1),
        // partial application of a function with one extra leading parameter
        _ => {
            let mut all = vec!["q"];
            all.extend(ps_ref.iter());
            let body2 = curried_body(def, &captured, Some(mul(var("q"), int(100000))));
            let all: Vec<String> = all.iter().map(|s| s.to_string()).collect();
            (
                Box::new(move |rest| {
                    let all_ref: Vec<&str> = all.iter().map(|s| s.as_str()).collect();
                    letfun("g", &all_ref, body2.clone(), let_("f", app(var("g"), vec![int(7)]), rest))
                }),
                var("f"),
                1,
            )
        }
    };
    let call_e = apply_groups(callee, call, first_arg);
    // position of the call
    let positioned = match position {
        // tail position of the program
        0 => call_e,
        // non-tail: operand
        1 => add(call_e, int(100000000)),
        // let rhs
        2 => let_("res", call_e, add(var("res"), int(1))),
        // scrutinee
        3 => Term::Match(
            b(call_e),
            vec![(Pat::Int(0), int(-1)), (pvar("other"), var("other"))],
        ),
        // argument of another call
        4 => app(Term::Lam(vec!["z".into()], b(sub(var("z"), int(1)))), vec![call_e]),
        // tail position inside a wrapper function
        _ => app(Term::Lam(vec!["unit".into()], b(call_e)), vec![Term::Unit]),
    };
    let bound = bind(positioned);
    // captured variables and the enclosing pattern that binds them
    let with_caps = match enclosing {
        0 => let_("c0", int(1000000), let_("c1", int(20000000), bound)),
        1 => Term::Let(
            Pat::Record(vec![("c0".into(), None), ("c1".into(), None)]),
            b(record(vec![("c0", int(1000000)), ("c1", int(20000000))])),
            b(bound),
        ),
        2 => Term::Let(
            Pat::Record(vec![
                ("u".into(), None),
                ("c1".into(), None),
                ("w".into(), Some(Pat::Wild)),
                ("c0".into(), None),
            ]),
            b(record(vec![
                ("u", int(5)),
                ("v", int(6)),
                ("c0", int(1000000)),
                ("w", int(7)),
                ("c1", int(20000000)),
                ("x", int(8)),
            ])),
            b(bound),
        ),
        _ => Term::Match(
            b(ctor("C", vec![int(1000000), ctor("B", vec![int(20000000)])])),
            vec![
                (pctor("C", vec![pvar("c0"), pctor("B", vec![pvar("c1")])]), bound),
                (Pat::Wild, int(-2)),
            ],
        ),
    };
    with_caps
}

// ---------------------------------------------------------------------------------------------
// 2. record update ordering

fn ordered_selections(names: &[&'static str], k: usize) -> Vec<Vec<&'static str>> {
    if k == 0 {
        return vec![vec![]];
    }
    let mut out = Vec::new();
    for (i, n) in names.iter().enumerate() {
        let mut rest: Vec<&'static str> = names.to_vec();
        rest.remove(i);
        for mut tail in ordered_selections(&rest, k - 1) {
            tail.insert(0, n);
            out.push(tail);
        }
    }
    out
}

pub fn record_updates() -> Vec<(String, Term)> {
    let mut out = Vec::new();
    let base_names = ["a", "b", "c"];
    let upd_names = ["a", "b", "c", "d"];
    for bk in 1..=3 {
        for base in ordered_selections(&base_names, bk) {
            for uk in 1..=2 {
                for upd in ordered_selections(&upd_names, uk) {
                    let base_rec = Term::Record(
                        base.iter()
                            .enumerate()
                            .map(|(i, n)| (n.to_string(), int(i as i64 + 1)))
                            .collect(),
                    );
                    let upd_fields: Vec<(String, Term)> = upd
                        .iter()
                        .enumerate()
                        .map(|(i, n)| (n.to_string(), int(10 * (i as i64 + 1))))
                        .collect();
                    for form in 0..3 {
                        let t = match form {
                            // literal base
                            0 => Term::Update(upd_fields.clone(), b(base_rec.clone())),
                            // base through a variable, result projected afterwards
                            1 => let_(
                                "r",
                                base_rec.clone(),
                                let_(
                                    "s",
                                    Term::Update(upd_fields.clone(), b(var("r"))),
                                    Term::Tuple(vec![var("s"), proj(var("s"), upd[0]), var("r")]),
                                ),
                            ),
                            // update inside a function applied to the base
                            _ => letfun(
                                "up",
                                &["r"],
                                Term::Update(upd_fields.clone(), b(var("r"))),
                                app(var("up"), vec![base_rec.clone()]),
                            ),
                        };
                        // form 2 needs the parameter's record type to be known: gluon infers the
                        // update's base from the argument only when the function is not
                        // generalised first, so keep form 2 only in the same-let shape
                        if form == 2 {
                            continue;
                        }
                        out.push(("record_update".to_string(), t));
                    }
                }
            }
        }
    }
    out
}

// ---------------------------------------------------------------------------------------------
// 3. pattern matrices

fn v_values() -> Vec<Term> {
    vec![
        ctor("A", vec![]),
        ctor("B", vec![int(0)]),
        ctor("B", vec![int(1)]),
        ctor("C", vec![int(0), ctor("A", vec![])]),
        ctor("C", vec![int(1), ctor("B", vec![int(0)])]),
        ctor("C", vec![int(0), ctor("C", vec![int(1), ctor("A", vec![])])]),
        ctor("C", vec![int(2), ctor("B", vec![int(3)])]),
    ]
}

/// (pattern, Int-typed variable it binds if any)
fn v_patterns() -> Vec<(Pat, Option<&'static str>)> {
    vec![
        (Pat::Wild, None),
        (pctor("A", vec![]), None),
        (pctor("B", vec![Pat::Wild]), None),
        (pctor("B", vec![Pat::Int(0)]), None),
        (pctor("B", vec![pvar("x")]), Some("x")),
        (pctor("C", vec![Pat::Wild, Pat::Wild]), None),
        (pctor("C", vec![pvar("x"), pctor("A", vec![])]), Some("x")),
        (pctor("C", vec![Pat::Int(0), pctor("B", vec![pvar("y")])]), Some("y")),
        (pctor("C", vec![pvar("x"), Pat::Wild]), Some("x")),
        (
            pctor("C", vec![Pat::Wild, Pat::As("z".into(), Box::new(pctor("B", vec![pvar("y")])))]),
            Some("y"),
        ),
        (pctor("C", vec![Pat::Int(1), pctor("C", vec![pvar("y"), Pat::Wild])]), Some("y")),
    ]
}

pub fn pattern_matrices(tier: &str) -> Vec<(String, Term)> {
    let mut out = Vec::new();
    let pats = v_patterns();
    let vals = v_values();
    let max_rows = if tier == "quick" { 2 } else { 3 };
    let mut rows_sets: Vec<Vec<usize>> = Vec::new();
    for r in 1..=max_rows {
        let total = pats.len().pow(r as u32);
        for code in 0..total {
            let mut c = code;
            let mut idx = Vec::with_capacity(r);
            for _ in 0..r {
                idx.push(c % pats.len());
                c /= pats.len();
            }
            rows_sets.push(idx);
        }
    }
    for rows in &rows_sets {
        let arms: Vec<(Pat, Term)> = rows
            .iter()
            .enumerate()
            .map(|(i, pi)| {
                let (p, v) = &pats[*pi];
                let base = int(100 * (i as i64 + 1));
                let body = match v {
                    Some(v) => add(base, var(v)),
                    None => base,
                };
                (p.clone(), body)
            })
            .collect();
        for (vi, v) in vals.iter().enumerate() {
            // scrutinee directly and through a variable bound by a function parameter
            let t = if vi % 2 == 0 {
                Term::Match(b(v.clone()), arms.clone())
            } else {
                letfun(
                    "m",
                    &["s"],
                    Term::Match(b(var("s")), arms.clone()),
                    add(app(var("m"), vec![v.clone()]), int(1)),
                )
            };
            out.push(("pattern_matrix_v".to_string(), t));
        }
    }
    // two-column matrices over (O, O)
    let o_pats: Vec<(Pat, Option<&'static str>)> = vec![
        (Pat::Wild, None),
        (pctor("N", vec![]), None),
        (pctor("S", vec![Pat::Wild]), None),
        (pctor("S", vec![Pat::Int(0)]), None),
        (pctor("S", vec![pvar("x")]), Some("x")),
    ];
    let o_vals = vec![ctor("N", vec![]), ctor("S", vec![int(0)]), ctor("S", vec![int(1)])];
    let mut pairs: Vec<(Pat, Option<Term>)> = Vec::new();
    for (p1, v1) in &o_pats {
        for (p2, v2) in &o_pats {
            // rename second column's variable
            let (p2, v2) = match v2 {
                Some(_) => (pctor("S", vec![pvar("y")]), Some("y")),
                None => (p2.clone(), None),
            };
            let extra = match (v1, v2) {
                (Some(a), Some(c)) => Some(add(var(a), mul(var(c), int(10)))),
                (Some(a), None) => Some(var(a)),
                (None, Some(c)) => Some(mul(var(c), int(10))),
                (None, None) => None,
            };
            pairs.push((Pat::Tuple(vec![p1.clone(), p2]), extra));
        }
    }
    let max_rows2 = 2;
    for r in 1..=max_rows2 {
        let total = pairs.len().pow(r as u32);
        for code in 0..total {
            let mut c = code;
            let mut arms = Vec::new();
            for i in 0..r {
                let (p, extra) = &pairs[c % pairs.len()];
                c /= pairs.len();
                let base = int(1000 * (i as i64 + 1));
                arms.push((
                    p.clone(),
                    match extra {
                        Some(e) => add(base, e.clone()),
                        None => base,
                    },
                ));
            }
            for a in &o_vals {
                for c2 in &o_vals {
                    if tier == "quick" && r == 2 && (code % 3 != 0) {
                        continue;
                    }
                    out.push((
                        "pattern_matrix_tuple".to_string(),
                        Term::Match(b(Term::Tuple(vec![a.clone(), c2.clone()])), arms.clone()),
                    ));
                }
            }
        }
    }
    out
}

// ---------------------------------------------------------------------------------------------
// 4. recursion shapes

pub fn recursion() -> Vec<(String, Term)> {
    let mut out = Vec::new();
    let fd = |name: &str, ps: &[&str], body: Term| FunDef {
        name: name.to_string(),
        params: ps.iter().map(|s| s.to_string()).collect(),
        body,
    };
    for n in [0i64, 1, 2, 5, 17] {
        // direct, non-tail
        out.push((
            "rec_direct".to_string(),
            Term::LetRec(
                vec![fd(
                    "f",
                    &["n"],
                    if_(eq(var("n"), int(0)), int(0), add(int(2), app(var("f"), vec![sub(var("n"), int(1))]))),
                )],
                b(app(var("f"), vec![int(n)])),
            ),
        ));
        // tail recursive with accumulator
        out.push((
            "rec_tail_acc".to_string(),
            Term::LetRec(
                vec![fd(
                    "f",
                    &["n", "acc"],
                    if_(
                        eq(var("n"), int(0)),
                        var("acc"),
                        app(var("f"), vec![sub(var("n"), int(1)), add(var("acc"), var("n"))]),
                    ),
                )],
                b(app(var("f"), vec![int(n), int(100)])),
            ),
        ));
        // mutual recursion
        out.push((
            "rec_mutual".to_string(),
            Term::LetRec(
                vec![
                    fd("even", &["n"], if_(eq(var("n"), int(0)), Term::Bool(true), app(var("odd"), vec![sub(var("n"), int(1))]))),
                    fd("odd", &["n"], if_(eq(var("n"), int(0)), Term::Bool(false), app(var("even"), vec![sub(var("n"), int(1))]))),
                ],
                b(Term::Tuple(vec![app(var("even"), vec![int(n)]), app(var("odd"), vec![int(n)])])),
            ),
        ));
        // recursion through a closure argument (continuation)
        out.push((
            "rec_cps".to_string(),
            Term::LetRec(
                vec![fd(
                    "f",
                    &["n", "k"],
                    if_(
                        eq(var("n"), int(0)),
                        app(var("k"), vec![int(0)]),
                        app(
                            var("f"),
                            vec![
                                sub(var("n"), int(1)),
                                Term::Lam(vec!["r".into()], b(app(var("k"), vec![add(var("r"), var("n"))]))),
                            ],
                        ),
                    ),
                )],
                b(app(var("f"), vec![int(n), Term::Lam(vec!["r".into()], b(var("r")))])),
            ),
        ));
        // recursion building a variant value, then consuming it
        out.push((
            "rec_build_consume".to_string(),
            Term::LetRec(
                vec![
                    fd("build", &["n"], if_(eq(var("n"), int(0)), ctor("A", vec![]), ctor("C", vec![var("n"), app(var("build"), vec![sub(var("n"), int(1))])]))),
                    fd(
                        "sum",
                        &["v"],
                        Term::Match(
                            b(var("v")),
                            vec![
                                (pctor("A", vec![]), int(0)),
                                (pctor("B", vec![pvar("x")]), var("x")),
                                (pctor("C", vec![pvar("x"), pvar("rest")]), add(var("x"), app(var("sum"), vec![var("rest")]))),
                            ],
                        ),
                    ),
                ],
                b(app(var("sum"), vec![app(var("build"), vec![int(n)])])),
            ),
        ));
        // recursive value (cyclic) observed through a bounded walk. (gluon's recursion check only
        // releases a value binding whose uninitialised uses are all to itself, so mutually
        // recursive *values* cannot be consumed by a call afterwards; self-recursion can.)
        out.push((
            "rec_value".to_string(),
            Term::LetRec(
                vec![fd("xs", &[], ctor("C", vec![int(n), var("xs")]))],
                b(Term::LetRec(
                    vec![fd(
                        "take",
                        &["k", "v"],
                        if_(
                            eq(var("k"), int(0)),
                            int(0),
                            Term::Match(
                                b(var("v")),
                                vec![
                                    (pctor("C", vec![pvar("x"), pvar("rest")]), add(var("x"), mul(int(10), app(var("take"), vec![sub(var("k"), int(1)), var("rest")])))),
                                    (Pat::Wild, int(-1)),
                                ],
                            ),
                        ),
                    )],
                    b(app(var("take"), vec![int(4), var("xs")])),
                )),
            ),
        ));
        // the cyclic value itself as the result (walked to a bounded depth on both sides)
        out.push((
            "rec_value_result".to_string(),
            Term::LetRec(
                vec![fd("xs", &[], ctor("C", vec![int(n), var("xs")]))],
                b(Term::Tuple(vec![var("xs"), int(n)])),
            ),
        ));
        // recursive record of functions referring to itself through a field
        out.push((
            "rec_record".to_string(),
            Term::LetRec(
                vec![fd(
                    "r",
                    &[],
                    record(vec![
                        (
                            "f",
                            Term::Lam(
                                vec!["x".into()],
                                b(if_(eq(var("x"), int(0)), int(1), add(app(proj(var("r"), "f"), vec![sub(var("x"), int(1))]), int(1)))),
                            ),
                        ),
                        ("k", int(3)),
                    ]),
                )],
                b(add(app(proj(var("r"), "f"), vec![int(n)]), proj(var("r"), "k"))),
            ),
        ));
    }
    out
}

// ---------------------------------------------------------------------------------------------
// 5. short-circuit nesting: all boolean trees up to 3 operators over {True, False, failing leaf}

pub fn short_circuit() -> Vec<(String, Term)> {
    fn trees(ops: usize) -> Vec<Term> {
        if ops == 0 {
            return vec![
                Term::Bool(true),
                Term::Bool(false),
                eq(Term::Error("x".into()), int(0)),
                bin(Op::Lt, bin(Op::Div, int(1), int(0)), int(1)),
            ];
        }
        let mut out = Vec::new();
        for l in 0..ops {
            let r = ops - 1 - l;
            for lt in trees(l) {
                for rt in trees(r) {
                    out.push(Term::And(b(lt.clone()), b(rt.clone())));
                    out.push(Term::Or(b(lt.clone()), b(rt.clone())));
                }
            }
        }
        out
    }
    let mut out = Vec::new();
    for ops in 1..=3 {
        for t in trees(ops) {
            out.push(("short_circuit".to_string(), if_(t, int(1), int(2))));
        }
    }
    out
}

// ---------------------------------------------------------------------------------------------
// 6. do / seq chains over the option-like type O with a locally defined flat_map

pub fn do_chains() -> Vec<(String, Term)> {
    let mut out = Vec::new();
    let flat_map_def = |rest: Term| {
        letfun(
            "flat_map",
            &["f", "m"],
            Term::Match(
                b(var("m")),
                vec![
                    (pctor("N", vec![]), ctor("N", vec![])),
                    (pctor("S", vec![pvar("x")]), app(var("f"), vec![var("x")])),
                ],
            ),
            rest,
        )
    };
    // chains of length 1..3; each step N / S k / failing; binding or seq
    for len in 1..=3usize {
        let total = 3usize.pow(len as u32) * 2usize.pow(len as u32);
        for code in 0..total {
            let mut c = code;
            let mut kinds = Vec::new();
            for _ in 0..len {
                kinds.push((c % 3, (c / 3) % 2));
                c /= 6;
            }
            // innermost body: sum of bound variables
            let mut body_sum = int(0);
            for (i, (_, bind)) in kinds.iter().enumerate() {
                if *bind == 1 {
                    body_sum = add(body_sum, mul(var(&format!("d{}", i)), int(10i64.pow(i as u32))));
                }
            }
            let mut t = ctor("S", vec![body_sum]);
            for (i, (k, bind)) in kinds.iter().enumerate().rev() {
                let e = match *k {
                    0 => ctor("N", vec![]),
                    1 => ctor("S", vec![int(i as i64 + 1)]),
                    _ => ctor("S", vec![Term::Error("boom".into())]),
                };
                t = Term::Do(if *bind == 1 { Some(format!("d{}", i)) } else { None }, b(e), b(t));
            }
            out.push(("do_chain".to_string(), flat_map_def(t)));
        }
    }
    out
}

pub fn all(tier: &str) -> Vec<(String, Term)> {
    let mut out = Vec::new();
    out.extend(call_shapes(tier));
    out.extend(record_updates());
    out.extend(pattern_matrices(tier));
    out.extend(recursion());
    out.extend(short_circuit());
    out.extend(do_chains());
    out
}

// ---------------------------------------------------------------------------------------------
// 7. effectful / failing expressions in dead and live positions (C04)

/// effectful or failing expressions of type Int, parameterised by a tag to tell them apart
pub fn effect_exprs(tag: i64) -> Vec<(&'static str, Term)> {
    let t = int(tag);
    vec![
        ("eff", Term::Eff(b(t.clone()))),
        ("error", Term::Error(format!("x{}", tag))),
        ("div0", bin(Op::Div, t.clone(), int(0))),
        ("overflow", add(int(i64::MAX), t.clone())),
        (
            "matchfail",
            Term::Match(b(ctor("N", vec![])), vec![(pctor("S", vec![pvar("q")]), var("q"))]),
        ),
        ("indexfail", Term::Index(b(Term::Array(vec![])), b(t.clone()))),
        ("field_eff", app(proj(var("r"), "f"), vec![t.clone()])),
        ("field_fail", app(proj(var("r"), "g"), vec![t.clone()])),
        ("closure_eff", app(app(var("mk"), vec![int(0)]), vec![t.clone()])),
        ("partial_eff", app(var("pe"), vec![t.clone()])),
        ("module_eff", app(proj(var(VMOD), "f"), vec![t.clone()])),
        ("module_fail", app(proj(var(VMOD), "g"), vec![t.clone()])),
        ("lambda_eff", app(Term::Lam(vec!["z".into()], b(Term::Eff(b(var("z"))))), vec![t.clone()])),
        // the host function reached through let-bound aliases of function values
        ("alias_module_eff", app(var("al"), vec![t.clone()])),
        ("alias_record_eff", app(var("ar"), vec![t.clone()])),
        ("alias_of_alias_eff", app(var("al2"), vec![t.clone()])),
        ("fn_calling_alias", app(var("viaal"), vec![t.clone()])),
        ("over_applied_fn_returning_alias", app(var("getal"), vec![int(0), t.clone()])),
        ("pure", add(t.clone(), int(1))),
    ]
}

/// contexts placing an Int expression in dead / live positions; `k` distinguishes results
pub fn effect_contexts(k: i64) -> Vec<(&'static str, Box<dyn Fn(Term) -> Term>)> {
    let v: Vec<(&'static str, Box<dyn Fn(Term) -> Term>)> = vec![
        ("let_wild", Box::new(move |e| Term::Let(Pat::Wild, b(e), b(int(k))))),
        ("let_unused", Box::new(move |e| let_("u", e, int(k)))),
        ("let_used", Box::new(move |e| let_("u", e, add(var("u"), int(k))))),
        (
            "record_pattern_unused",
            Box::new(move |e| {
                Term::Let(
                    Pat::Record(vec![("a".into(), None)]),
                    b(record(vec![("a", e), ("b", int(0))])),
                    b(int(k)),
                )
            }),
        ),
        ("record_field_unused", Box::new(move |e| proj(record(vec![("a", e), ("b", int(k))]), "b"))),
        ("tuple_field_unused", Box::new(move |e| proj(Term::Tuple(vec![e, int(k)]), "_1"))),
        ("arg_ignored_lambda", Box::new(move |e| app(Term::Lam(vec!["y".into()], b(int(k))), vec![e]))),
        ("arg_ignored_fun", Box::new(move |e| letfun("ign", &["y"], int(k), app(var("ign"), vec![e])))),
        ("dead_branch", Box::new(move |e| if_(Term::Bool(true), int(k), e))),
        ("live_branch", Box::new(move |e| if_(Term::Bool(false), int(k), e))),
        ("uncalled_closure", Box::new(move |e| letfun("h", &["y"], e, int(k)))),
        ("called_closure_unused", Box::new(move |e| letfun("h", &["y"], e, let_("u", app(var("h"), vec![Term::Unit]), int(k))))),
        ("nested_let_unused", Box::new(move |e| let_("u", let_("w", e, int(5)), int(k)))),
        ("seq", Box::new(move |e| Term::Seq(b(e), b(int(k))))),
        ("unused_arith_of", Box::new(move |e| let_("u", add(e, int(1)), int(k)))),
        ("ctor_arg_unused", Box::new(move |e| let_("u", ctor("S", vec![e]), int(k)))),
    ];
    v
}

/// wraps a body with the definitions the effect expressions refer to
pub fn effect_env(body: Term) -> Term {
    let vmod_def = record(vec![
        ("f", Term::Lam(vec!["x".into()], b(Term::Eff(b(var("x")))))),
        ("g", Term::Lam(vec!["x".into()], b(add(Term::Error("g".into()), var("x"))))),
    ]);
    let r_def = record(vec![
        ("f", Term::Lam(vec!["x".into()], b(Term::Eff(b(var("x")))))),
        ("g", Term::Lam(vec!["x".into()], b(add(Term::Error("rg".into()), var("x"))))),
    ]);
    let_(
        VMOD,
        vmod_def,
        let_(
            "r",
            r_def,
            letfun(
                "mk",
                &["a"],
                Term::Lam(vec!["c".into()], b(Term::Eff(b(add(var("a"), var("c")))))),
                letfun(
                    "add_eff",
                    &["a", "c"],
                    Term::Eff(b(add(var("a"), var("c")))),
                    let_(
                        "pe",
                        app(var("add_eff"), vec![int(0)]),
                        let_(
                            "al",
                            proj(var(VMOD), "f"),
                            let_(
                                "ar",
                                proj(var("r"), "f"),
                                let_(
                                    "al2",
                                    var("al"),
                                    letfun("viaal", &["x"], app(var("al"), vec![var("x")]), letfun("getal", &["x"], var("ar"), body)),
                                ),
                            ),
                        ),
                    ),
                ),
            ),
        ),
    )
}

pub fn effect_positions(tier: &str) -> Vec<(String, Term)> {
    let mut out = Vec::new();
    let n_ctx = effect_contexts(0).len();
    let n_e = effect_exprs(0).len();
    // singles
    for ci in 0..n_ctx {
        for ei in 0..n_e {
            let (cn, c) = effect_contexts(100).remove(ci);
            let (en, e) = effect_exprs(1).remove(ei);
            out.push((format!("effpos:{}:{}", cn, en), effect_env(c(e))));
        }
    }
    // ordered pairs: first position then second position, results combined
    let step = if tier == "quick" { 3 } else { 1 };
    let mut idx = 0;
    for c1 in 0..n_ctx {
        for e1 in 0..n_e {
            for c2 in 0..n_ctx {
                for e2 in 0..n_e {
                    idx += 1;
                    if idx % step != 0 {
                        continue;
                    }
                    let (cn1, cf1) = effect_contexts(100).remove(c1);
                    let (en1, ex1) = effect_exprs(1).remove(e1);
                    let (cn2, cf2) = effect_contexts(200).remove(c2);
                    let (en2, ex2) = effect_exprs(2).remove(e2);
                    let body = let_("first", cf1(ex1), let_("second", cf2(ex2), add(var("first"), var("second"))));
                    out.push((format!("effpair:{}:{}+{}:{}", cn1, en1, cn2, en2), effect_env(body)));
                }
            }
        }
    }
    out
}
