pub mod gen;
pub mod refsem;
pub mod templates;
pub mod term;
