//! Reference semantics for GL-core: a boring big-step, environment-passing, strict call-by-value
//! interpreter. It fixes only what the book fixes (strictness, sequencing of let/blocks,
//! short-circuit operators, scrutinee before arm, record field order, application by arity).
//! Sibling sub-expressions of one application / record / tuple / array / operator have no
//! documented order: if two of them fail *differently* the outcome is `Ambiguous` and the program
//! is not used as an oracle.

use super::term::*;
use crate::vmkit::W;
use std::cell::RefCell;
use std::rc::Rc;

#[derive(Clone, Debug)]
pub enum Val {
    Int(i64),
    Str(String),
    /// Bool / unit / constructors / records / tuples: tag + fields
    Data(u32, Rc<Vec<Val>>, Option<Rc<Vec<String>>>),
    Array(Rc<Vec<Val>>),
    Closure(Rc<Clo>),
    /// placeholder for a recursive value being defined
    RecCell(Rc<RefCell<Option<Val>>>),
    /// (relaxed mode only) the result of a failed built-in arithmetic operation whose failure is
    /// deferred until the value is used by anything but another built-in operation
    Poison,
}

#[derive(Debug)]
pub struct Clo {
    pub params: Vec<String>,
    pub body: Term,
    pub env: Env,
    pub applied: Vec<Val>,
}

#[derive(Clone, Debug, Default)]
pub struct Env(Option<Rc<EnvNode>>);

#[derive(Debug)]
pub struct EnvNode {
    name: String,
    val: Val,
    next: Env,
}

impl Env {
    pub fn new() -> Env {
        Env(None)
    }
    pub fn bind(&self, name: &str, val: Val) -> Env {
        Env(Some(Rc::new(EnvNode {
            name: name.to_string(),
            val,
            next: self.clone(),
        })))
    }
    pub fn get(&self, name: &str) -> Option<&Val> {
        let mut cur = &self.0;
        while let Some(n) = cur {
            if n.name == name {
                return Some(&n.val);
            }
            cur = &n.next.0;
        }
        None
    }
}

#[derive(Clone, Debug, PartialEq, Eq, Hash)]
pub enum Fail {
    /// `error "msg"`
    Error(String),
    /// integer overflow or division by zero
    Arith,
    /// no pattern matched
    MatchFail,
    /// array index out of range (message is implementation detail)
    Index,
    /// two different failures in one unordered group, or fuel exhausted, or an effect order that
    /// the documentation does not fix: not usable as an oracle
    Ambiguous,
    /// use of a recursive value before it is initialised (checker should reject these programs)
    Uninit,
}

pub struct Interp {
    pub fuel: u64,
    /// log of `eff` calls
    pub log: Vec<i64>,
    /// C04's permitted difference: the first `defer_first` failing built-in arithmetic operations
    /// (in evaluation order) do not fail but yield a poison value; a run in which a poison value
    /// is ever used (forced, or part of the result) is `invalid` (the operation was *not* unused)
    pub defer_first: usize,
    pub arith_failures_seen: usize,
    pub invalid: bool,
    /// set when an `eff` happened inside an unordered group together with another effect/failure
    pub effect_order_ambiguous: bool,
}

pub type R = Result<Val, Fail>;

pub fn unit() -> Val {
    Val::Data(0, Rc::new(vec![]), None)
}
pub fn boolv(b: bool) -> Val {
    Val::Data(if b { 1 } else { 0 }, Rc::new(vec![]), None)
}

pub fn ctor_tag(name: &str) -> u32 {
    match name {
        "A" | "N" | "False" => 0,
        "B" | "S" | "True" => 1,
        "C" => 2,
        _ => panic!("unknown constructor {}", name),
    }
}

impl Interp {
    pub fn new() -> Interp {
        Interp {
            fuel: 200_000,
            log: Vec::new(),
            defer_first: 0,
            arith_failures_seen: 0,
            invalid: false,
            effect_order_ambiguous: false,
        }
    }

    fn force(&mut self, v: &Val) -> R {
        match v {
            Val::RecCell(c) => match &*c.borrow() {
                Some(v) => Ok(v.clone()),
                None => Err(Fail::Uninit),
            },
            Val::Poison => {
                self.invalid = true;
                Err(Fail::Arith)
            }
            v => Ok(v.clone()),
        }
    }

    /// Evaluates the members of an unordered group. All members are evaluated (strictness);
    /// failures must agree.
    fn group(&mut self, env: &Env, ts: &[&Term]) -> Result<Vec<Val>, Fail> {
        let mut vals = Vec::with_capacity(ts.len());
        let mut fail: Option<Fail> = None;
        let log_start = self.log.len();
        let mut members_with_effects = 0;
        for t in ts {
            let before = self.log.len();
            match self.eval(env, t) {
                Ok(v) => vals.push(v),
                Err(f) => {
                    match &fail {
                        None => fail = Some(f),
                        Some(g) if *g == f => {}
                        Some(_) => fail = Some(Fail::Ambiguous),
                    }
                    vals.push(unit());
                }
            }
            if self.log.len() != before {
                members_with_effects += 1;
            }
        }
        if members_with_effects > 1 || (members_with_effects >= 1 && fail.is_some() && ts.len() > 1) {
            // the relative order of effects (or of an effect and a failure) in an unordered group
            // is not documented
            let _ = log_start;
            self.effect_order_ambiguous = true;
        }
        match fail {
            Some(f) => Err(f),
            None => Ok(vals),
        }
    }

    pub fn apply(&mut self, f: Val, args: Vec<Val>) -> R {
        let mut f = f;
        let mut args = args.into_iter();
        loop {
            let fv = self.force(&f)?;
            let clo = match fv {
                Val::Closure(c) => c,
                other => panic!("refsem: applying a non-function {:?}", other),
            };
            let mut applied = clo.applied.clone();
            while applied.len() < clo.params.len() {
                match args.next() {
                    Some(a) => applied.push(a),
                    None => break,
                }
            }
            if applied.len() < clo.params.len() {
                return Ok(Val::Closure(Rc::new(Clo {
                    params: clo.params.clone(),
                    body: clo.body.clone(),
                    env: clo.env.clone(),
                    applied,
                })));
            }
            let mut env = clo.env.clone();
            for (p, a) in clo.params.iter().zip(applied.into_iter()) {
                env = env.bind(p, a);
            }
            let r = self.eval(&env, &clo.body)?;
            if args.len() == 0 {
                return Ok(r);
            }
            f = r;
        }
    }

    fn arith(&self, op: Op, l: i64, r: i64) -> R {
        let v = match op {
            Op::Add => l.checked_add(r),
            Op::Sub => l.checked_sub(r),
            Op::Mul => l.checked_mul(r),
            Op::Div => l.checked_div(r),
            Op::Lt => return Ok(boolv(l < r)),
            Op::Eq => return Ok(boolv(l == r)),
        };
        v.map(Val::Int).ok_or(Fail::Arith)
    }

    pub fn match_pat(&mut self, p: &Pat, v: &Val, env: &Env) -> Result<Option<Env>, Fail> {
        match p {
            Pat::Wild => return Ok(Some(env.clone())),
            Pat::Var(n) => return Ok(Some(env.bind(n, v.clone()))),
            _ => {}
        }
        let v = self.force(v)?;
        Ok(match p {
            Pat::Wild => Some(env.clone()),
            Pat::Var(n) => Some(env.bind(n, v)),
            Pat::Int(i) => match v {
                Val::Int(j) if *i == j => Some(env.clone()),
                _ => None,
            },
            Pat::Str(s) => match v {
                Val::Str(ref t) if s == t => Some(env.clone()),
                _ => None,
            },
            Pat::As(n, p) => {
                let env = env.bind(n, v.clone());
                self.match_pat(p, &v, &env)?
            }
            Pat::Ctor(c, ps) => match &v {
                Val::Data(tag, fs, _) if *tag == ctor_tag(c) => {
                    let mut env = env.clone();
                    for (p, f) in ps.iter().zip(fs.iter()) {
                        match self.match_pat(p, f, &env)? {
                            Some(e) => env = e,
                            None => return Ok(None),
                        }
                    }
                    Some(env)
                }
                _ => None,
            },
            Pat::Tuple(ps) => match &v {
                Val::Data(_, fs, _) => {
                    let mut env = env.clone();
                    for (p, f) in ps.iter().zip(fs.iter()) {
                        match self.match_pat(p, f, &env)? {
                            Some(e) => env = e,
                            None => return Ok(None),
                        }
                    }
                    Some(env)
                }
                _ => panic!("refsem: tuple pattern on {:?}", v),
            },
            Pat::Record(fps) => match &v {
                Val::Data(_, fs, Some(names)) => {
                    let mut env = env.clone();
                    for (n, p) in fps {
                        let idx = names
                            .iter()
                            .position(|x| x == n)
                            .unwrap_or_else(|| panic!("refsem: no field {}", n));
                        match p {
                            None => env = env.bind(n, fs[idx].clone()),
                            Some(p) => match self.match_pat(p, &fs[idx], &env)? {
                                Some(e) => env = e,
                                None => return Ok(None),
                            },
                        }
                    }
                    Some(env)
                }
                _ => panic!("refsem: record pattern on {:?}", v),
            },
        })
    }

    pub fn eval(&mut self, env: &Env, t: &Term) -> R {
        if self.fuel == 0 {
            return Err(Fail::Ambiguous);
        }
        self.fuel -= 1;
        use Term::*;
        match t {
            Int(i) => Ok(Val::Int(*i)),
            Bool(x) => Ok(boolv(*x)),
            Unit => Ok(unit()),
            Str(s) => Ok(Val::Str(s.clone())),
            Var(n) => {
                let v = env
                    .get(n)
                    .unwrap_or_else(|| panic!("refsem: unbound {}", n))
                    .clone();
                // a recursive value referenced before initialisation stays a cell (it may only
                // be *used* later, e.g. inside a lambda or a lazy field)
                Ok(v)
            }
            Bin(op, l, r) => {
                let vs = self.group(env, &[l, r])?;
                if matches!(vs[0], Val::Poison) || matches!(vs[1], Val::Poison) {
                    // built-in operation on the result of a skipped one: skipped as well
                    return Ok(Val::Poison);
                }
                match (self.force(&vs[0])?, self.force(&vs[1])?) {
                    (Val::Int(a), Val::Int(c)) => match self.arith(*op, a, c) {
                        Err(Fail::Arith) => {
                            self.arith_failures_seen += 1;
                            if self.arith_failures_seen <= self.defer_first {
                                Ok(Val::Poison)
                            } else {
                                Err(Fail::Arith)
                            }
                        }
                        r => r,
                    },
                    (a, c) => panic!("refsem: arith on {:?} {:?}", a, c),
                }
            }
            If(c, a, e) => {
                let cv = self.eval(env, c)?;
                match self.force(&cv)? {
                    Val::Data(1, ..) => self.eval(env, a),
                    Val::Data(0, ..) => self.eval(env, e),
                    v => panic!("refsem: if on {:?}", v),
                }
            }
            And(l, r) => {
                let lv = self.eval(env, l)?;
                match self.force(&lv)? {
                    Val::Data(1, ..) => self.eval(env, r),
                    v => Ok(v),
                }
            }
            Or(l, r) => {
                let lv = self.eval(env, l)?;
                match self.force(&lv)? {
                    Val::Data(0, ..) => self.eval(env, r),
                    v => Ok(v),
                }
            }
            Let(p, e, r) => {
                let v = self.eval(env, e)?;
                match self.match_pat(p, &v, env)? {
                    Some(env2) => self.eval(&env2, r),
                    None => Err(Fail::MatchFail),
                }
            }
            Seq(a, r) => {
                self.eval(env, a)?;
                self.eval(env, r)
            }
            Do(x, e, r) => {
                let fm = env
                    .get("flat_map")
                    .unwrap_or_else(|| panic!("refsem: no flat_map in scope"))
                    .clone();
                let k = Val::Closure(Rc::new(Clo {
                    params: vec![x.clone().unwrap_or_else(|| "_".to_string())],
                    body: (**r).clone(),
                    env: env.clone(),
                    applied: vec![],
                }));
                let ev = self.eval(env, e)?;
                self.apply(fm, vec![k, ev])
            }
            LetFun(d, r) => {
                let clo = Val::Closure(Rc::new(Clo {
                    params: d.params.clone(),
                    body: d.body.clone(),
                    env: env.clone(),
                    applied: vec![],
                }));
                let env2 = env.bind(&d.name, clo);
                self.eval(&env2, r)
            }
            LetRec(ds, r) => {
                let cells: Vec<Rc<RefCell<Option<Val>>>> =
                    ds.iter().map(|_| Rc::new(RefCell::new(None))).collect();
                let mut env2 = env.clone();
                for (d, c) in ds.iter().zip(cells.iter()) {
                    env2 = env2.bind(&d.name, Val::RecCell(c.clone()));
                }
                for (d, c) in ds.iter().zip(cells.iter()) {
                    let v = if d.params.is_empty() {
                        self.eval(&env2, &d.body)?
                    } else {
                        Val::Closure(Rc::new(Clo {
                            params: d.params.clone(),
                            body: d.body.clone(),
                            env: env2.clone(),
                            applied: vec![],
                        }))
                    };
                    *c.borrow_mut() = Some(v);
                }
                self.eval(&env2, r)
            }
            Lam(ps, body) => Ok(Val::Closure(Rc::new(Clo {
                params: ps.clone(),
                body: (**body).clone(),
                env: env.clone(),
                applied: vec![],
            }))),
            App(f, args) => {
                let mut members: Vec<&Term> = vec![f];
                members.extend(args.iter());
                let mut vs = self.group(env, &members)?;
                let fv = vs.remove(0);
                self.apply(fv, vs)
            }
            Record(fs) => {
                let members: Vec<&Term> = fs.iter().map(|(_, t)| t).collect();
                let vs = self.group(env, &members)?;
                let names: Vec<String> = fs.iter().map(|(n, _)| n.clone()).collect();
                Ok(Val::Data(0, Rc::new(vs), Some(Rc::new(names))))
            }
            Update(fs, base) => {
                let mut members: Vec<&Term> = fs.iter().map(|(_, t)| t).collect();
                members.push(base);
                let mut vs = self.group(env, &members)?;
                let bv = vs.pop().unwrap();
                let (bfields, bnames) = match self.force(&bv)? {
                    Val::Data(_, f, Some(n)) => (f, n),
                    v => panic!("refsem: update of {:?}", v),
                };
                // new fields not in base, in written order; then base fields in base order,
                // overridden in place
                let mut names = Vec::new();
                let mut vals = Vec::new();
                for ((n, _), v) in fs.iter().zip(vs.iter()) {
                    if !bnames.contains(n) {
                        names.push(n.clone());
                        vals.push(v.clone());
                    }
                }
                for (n, v) in bnames.iter().zip(bfields.iter()) {
                    names.push(n.clone());
                    match fs.iter().position(|(m, _)| m == n) {
                        Some(i) => vals.push(vs[i].clone()),
                        None => vals.push(v.clone()),
                    }
                }
                Ok(Val::Data(0, Rc::new(vals), Some(Rc::new(names))))
            }
            Proj(e, f) => {
                let v = self.eval(env, e)?;
                match self.force(&v)? {
                    Val::Data(_, fs, Some(names)) => {
                        let idx = names
                            .iter()
                            .position(|x| x == f)
                            .unwrap_or_else(|| panic!("refsem: no field {}", f));
                        Ok(fs[idx].clone())
                    }
                    Val::Data(_, fs, None) if f.starts_with('_') => {
                        let idx: usize = f[1..].parse().unwrap();
                        Ok(fs[idx].clone())
                    }
                    v => panic!("refsem: proj on {:?}", v),
                }
            }
            Tuple(ts) => {
                let members: Vec<&Term> = ts.iter().collect();
                let vs = self.group(env, &members)?;
                Ok(Val::Data(0, Rc::new(vs), None))
            }
            Ctor(c, args) => {
                let members: Vec<&Term> = args.iter().collect();
                let vs = self.group(env, &members)?;
                Ok(Val::Data(ctor_tag(c), Rc::new(vs), None))
            }
            Match(s, arms) => {
                let v = self.eval(env, s)?;
                for (p, body) in arms {
                    if let Some(env2) = self.match_pat(p, &v, env)? {
                        return self.eval(&env2, body);
                    }
                }
                Err(Fail::MatchFail)
            }
            Array(ts) => {
                let members: Vec<&Term> = ts.iter().collect();
                let vs = self.group(env, &members)?;
                Ok(Val::Array(Rc::new(vs)))
            }
            Index(a, i) => {
                let vs = self.group(env, &[a, i])?;
                match (self.force(&vs[0])?, self.force(&vs[1])?) {
                    (Val::Array(xs), Val::Int(i)) => {
                        if i >= 0 && (i as usize) < xs.len() {
                            Ok(xs[i as usize].clone())
                        } else {
                            Err(Fail::Index)
                        }
                    }
                    (a, c) => panic!("refsem: index on {:?} {:?}", a, c),
                }
            }
            Len(a) => {
                let v = self.eval(env, a)?;
                match self.force(&v)? {
                    Val::Array(xs) => Ok(Val::Int(xs.len() as i64)),
                    v => panic!("refsem: len on {:?}", v),
                }
            }
            Error(m) => Err(Fail::Error(m.clone())),
            Eff(e) => {
                let v = self.eval(env, e)?;
                match self.force(&v)? {
                    Val::Int(i) => {
                        self.log.push(i);
                        Ok(Val::Int(i))
                    }
                    v => panic!("refsem: eff on {:?}", v),
                }
            }
        }
    }
}

/// Lower a reference value to the untyped image of a VM value; `depth` bounds cyclic values.
pub fn lower(v: &Val, depth: usize) -> W {
    if depth == 0 {
        return W::Cut;
    }
    match v {
        Val::Int(i) => W::Int(*i),
        Val::Str(s) => W::Str(s.clone()),
        Val::Data(t, fs, _) => W::Data(*t, fs.iter().map(|f| lower(f, depth - 1)).collect()),
        Val::Array(xs) => W::Array(xs.iter().map(|f| lower(f, depth - 1)).collect()),
        Val::Closure(_) => W::Closure,
        Val::Poison => W::Internal,
        Val::RecCell(c) => match &*c.borrow() {
            Some(v) => lower(v, depth),
            None => W::Internal,
        },
    }
}

#[derive(Clone, Debug, PartialEq, Eq, Hash)]
pub enum RefOutcome {
    Value(W),
    Fail(Fail),
}

pub struct RefRun {
    pub outcome: RefOutcome,
    pub log: Vec<i64>,
    pub effect_order_ambiguous: bool,
}

/// Strict run.
pub fn run(t: &Term) -> RefRun {
    run_deferring(t, 0).0
}

/// Run deferring the first `defer_first` arithmetic failures; returns the run, whether it is
/// valid (no deferred result was ever used) and how many arithmetic failures were met.
pub fn run_deferring(t: &Term, defer_first: usize) -> (RefRun, bool, usize) {
    let mut it = Interp::new();
    it.defer_first = defer_first;
    let r = it.eval(&Env::new(), t);
    let mut invalid = it.invalid;
    let outcome = match r {
        Ok(v) if contains_poison(&v, 40) => {
            invalid = true;
            RefOutcome::Fail(Fail::Arith)
        }
        Ok(v) => RefOutcome::Value(lower(&v, 40)),
        Err(f) => RefOutcome::Fail(f),
    };
    (
        RefRun {
            outcome,
            log: it.log,
            effect_order_ambiguous: it.effect_order_ambiguous,
        },
        !invalid,
        it.arith_failures_seen,
    )
}

/// Every behaviour the documented semantics allows an *optimised* build: the strict run, plus
/// the runs in which the first j failing built-in arithmetic operations whose results are never
/// used are skipped (j = 1, 2, ...). Failing immediately ends a run, so there are at most k+1.
pub fn accept_set(t: &Term) -> Vec<RefRun> {
    let mut out = Vec::new();
    let mut j = 0;
    loop {
        let (run, valid, seen) = run_deferring(t, j);
        if !valid {
            break;
        }
        out.push(run);
        if seen <= j || j > 16 {
            break;
        }
        j += 1;
    }
    if out.is_empty() {
        out.push(run(t));
    }
    out
}

fn contains_poison(v: &Val, depth: usize) -> bool {
    if depth == 0 {
        return false;
    }
    match v {
        Val::Poison => true,
        Val::Data(_, fs, _) => fs.iter().any(|f| contains_poison(f, depth - 1)),
        Val::Array(xs) => xs.iter().any(|f| contains_poison(f, depth - 1)),
        Val::RecCell(c) => match &*c.borrow() {
            Some(v) => contains_poison(v, depth - 1),
            None => false,
        },
        _ => false,
    }
}
