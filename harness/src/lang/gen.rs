//! Type-directed exhaustive enumeration of GL-core terms: `gen(ctx, ty, n)` yields *every*
//! well-typed term of exactly size `n` and type `ty` under `ctx` exactly once (binder names are
//! canonical: the variable bound at depth i is `v{i}`, so there are no alpha-duplicates).

use super::term::*;
use std::collections::HashMap;
use std::rc::Rc;

#[derive(Clone)]
pub struct Cfg {
    pub ints: Vec<i64>,
    pub strs: Vec<String>,
    /// types that `let`-bound values, arguments, scrutinees, projected records may have
    pub universe: Vec<Ty>,
    /// `error "e"` as a leaf of type Int
    pub with_error: bool,
    /// `eff e`
    pub with_eff: bool,
    /// `let _ = e in r`
    pub with_seq: bool,
    pub with_arrays: bool,
    pub with_match: bool,
}

pub fn r2() -> Ty {
    Ty::rec(&[("a", Ty::Int), ("b", Ty::Int)])
}
pub fn t2() -> Ty {
    Ty::Tup(vec![Ty::Int, Ty::Int])
}
pub fn i2i() -> Ty {
    Ty::fun(Ty::Int, Ty::Int)
}
pub fn i2i2i() -> Ty {
    Ty::fun(Ty::Int, i2i())
}

impl Cfg {
    pub fn standard() -> Cfg {
        Cfg {
            ints: vec![0, 1, 2, i64::MAX],
            strs: vec!["".into(), "s".into()],
            universe: vec![
                Ty::Int,
                Ty::Bool,
                i2i(),
                i2i2i(),
                r2(),
                t2(),
                Ty::O,
                Ty::V,
                Ty::Arr(Box::new(Ty::Int)),
            ],
            with_error: true,
            with_eff: false,
            with_seq: false,
            with_arrays: true,
            with_match: true,
        }
    }
}

pub struct Gen {
    pub cfg: Cfg,
    memo: HashMap<(Vec<Ty>, Ty, usize), Rc<Vec<Term>>>,
}

fn vname(i: usize) -> String {
    format!("v{}", i)
}

/// all ways to write `total` as an ordered sum of `k` positive integers
pub fn compositions(total: usize, k: usize) -> Vec<Vec<usize>> {
    fn go(total: usize, k: usize, cur: &mut Vec<usize>, out: &mut Vec<Vec<usize>>) {
        if k == 1 {
            if total >= 1 {
                cur.push(total);
                out.push(cur.clone());
                cur.pop();
            }
            return;
        }
        if total < k {
            return;
        }
        for first in 1..=(total - (k - 1)) {
            cur.push(first);
            go(total - first, k - 1, cur, out);
            cur.pop();
        }
    }
    let mut out = Vec::new();
    if k == 0 {
        if total == 0 {
            out.push(vec![]);
        }
        return out;
    }
    go(total, k, &mut Vec::new(), &mut out);
    out
}

impl Gen {
    pub fn new(cfg: Cfg) -> Gen {
        Gen {
            cfg,
            memo: HashMap::new(),
        }
    }

    pub fn gen(&mut self, ctx: &Vec<Ty>, ty: &Ty, n: usize) -> Rc<Vec<Term>> {
        let key = (ctx.clone(), ty.clone(), n);
        if let Some(v) = self.memo.get(&key) {
            return v.clone();
        }
        let mut out = Vec::new();
        self.produce(ctx, ty, n, &mut |t| out.push(t));
        let rc = Rc::new(out);
        self.memo.insert(key, rc.clone());
        rc
    }

    /// cartesian product of child lists, calling `emit` with each tuple
    fn product(lists: &[Rc<Vec<Term>>], emit: &mut dyn FnMut(&[Term])) {
        if lists.iter().any(|l| l.is_empty()) {
            return;
        }
        let mut idx = vec![0usize; lists.len()];
        let mut cur: Vec<Term> = lists.iter().map(|l| l[0].clone()).collect();
        loop {
            emit(&cur);
            let mut k = lists.len();
            loop {
                if k == 0 {
                    return;
                }
                k -= 1;
                idx[k] += 1;
                if idx[k] < lists[k].len() {
                    cur[k] = lists[k][idx[k]].clone();
                    break;
                }
                idx[k] = 0;
                cur[k] = lists[k][0].clone();
            }
        }
    }

    /// children: (ctx, ty) per child; total size budget `budget` distributed in every way
    fn children(
        &mut self,
        specs: &[(Vec<Ty>, Ty)],
        budget: usize,
        emit: &mut dyn FnMut(&[Term]),
    ) {
        for comp in compositions(budget, specs.len()) {
            let lists: Vec<Rc<Vec<Term>>> = specs
                .iter()
                .zip(comp.iter())
                .map(|((c, t), n)| self.gen(c, t, *n))
                .collect();
            Self::product(&lists, emit);
        }
    }

    pub fn produce(&mut self, ctx: &Vec<Ty>, ty: &Ty, n: usize, emit: &mut dyn FnMut(Term)) {
        if n == 0 {
            return;
        }
        let cfg = self.cfg.clone();
        if n == 1 {
            match ty {
                Ty::Int => {
                    for i in &cfg.ints {
                        emit(Term::Int(*i));
                    }
                    if cfg.with_error {
                        emit(Term::Error("e".into()));
                    }
                }
                Ty::Bool => {
                    emit(Term::Bool(false));
                    emit(Term::Bool(true));
                }
                Ty::Unit => emit(Term::Unit),
                Ty::Str => {
                    for s in &cfg.strs {
                        emit(Term::Str(s.clone()));
                    }
                }
                Ty::V => emit(Term::Ctor("A".into(), vec![])),
                Ty::O => emit(Term::Ctor("N".into(), vec![])),
                Ty::Arr(_) if cfg.with_arrays => emit(Term::Array(vec![])),
                _ => {}
            }
            for (i, t) in ctx.iter().enumerate() {
                if t == ty {
                    emit(Term::Var(vname(i)));
                }
            }
            return;
        }
        let here = ctx.clone();
        let budget = n - 1;
        // built-in operators
        match ty {
            Ty::Int => {
                for op in [Op::Add, Op::Sub, Op::Mul, Op::Div] {
                    self.children(
                        &[(here.clone(), Ty::Int), (here.clone(), Ty::Int)],
                        budget,
                        &mut |c| emit(bin(op, c[0].clone(), c[1].clone())),
                    );
                }
                if cfg.with_eff {
                    self.children(&[(here.clone(), Ty::Int)], budget, &mut |c| {
                        emit(Term::Eff(b(c[0].clone())))
                    });
                }
                if cfg.with_arrays {
                    for u in cfg.universe.iter().filter(|u| matches!(u, Ty::Arr(_))) {
                        self.children(&[(here.clone(), u.clone())], budget, &mut |c| {
                            emit(Term::Len(b(c[0].clone())))
                        });
                    }
                }
            }
            Ty::Bool => {
                for op in [Op::Lt, Op::Eq] {
                    self.children(
                        &[(here.clone(), Ty::Int), (here.clone(), Ty::Int)],
                        budget,
                        &mut |c| emit(bin(op, c[0].clone(), c[1].clone())),
                    );
                }
                self.children(
                    &[(here.clone(), Ty::Bool), (here.clone(), Ty::Bool)],
                    budget,
                    &mut |c| emit(Term::And(b(c[0].clone()), b(c[1].clone()))),
                );
                self.children(
                    &[(here.clone(), Ty::Bool), (here.clone(), Ty::Bool)],
                    budget,
                    &mut |c| emit(Term::Or(b(c[0].clone()), b(c[1].clone()))),
                );
            }
            _ => {}
        }
        // if
        self.children(
            &[
                (here.clone(), Ty::Bool),
                (here.clone(), ty.clone()),
                (here.clone(), ty.clone()),
            ],
            budget,
            &mut |c| emit(Term::If(b(c[0].clone()), b(c[1].clone()), b(c[2].clone()))),
        );
        // let
        for u in cfg.universe.iter() {
            let mut inner = here.clone();
            inner.push(u.clone());
            let name = vname(here.len());
            self.children(
                &[(here.clone(), u.clone()), (inner.clone(), ty.clone())],
                budget,
                &mut |c| emit(Term::Let(Pat::Var(name.clone()), b(c[0].clone()), b(c[1].clone()))),
            );
            // function definitions with parameters
            if let Ty::Fun(a, r) = u {
                // one parameter
                let mut bctx = here.clone();
                bctx.push((**a).clone());
                let p0 = vname(here.len());
                // the function's own name is bound after its parameters' scope: name = v{len}
                self.children(
                    &[(bctx.clone(), (**r).clone()), (inner.clone(), ty.clone())],
                    budget,
                    &mut |c| {
                        emit(Term::LetFun(
                            Box::new(FunDef {
                                name: name.clone(),
                                params: vec![p0.clone()],
                                body: c[0].clone(),
                            }),
                            b(c[1].clone()),
                        ))
                    },
                );
                if let Ty::Fun(a2, r2) = &**r {
                    let mut bctx2 = bctx.clone();
                    bctx2.push((**a2).clone());
                    let p1 = vname(here.len() + 1);
                    self.children(
                        &[(bctx2.clone(), (**r2).clone()), (inner.clone(), ty.clone())],
                        budget,
                        &mut |c| {
                            emit(Term::LetFun(
                                Box::new(FunDef {
                                    name: name.clone(),
                                    params: vec![p0.clone(), p1.clone()],
                                    body: c[0].clone(),
                                }),
                                b(c[1].clone()),
                            ))
                        },
                    );
                }
            }
            // destructuring lets
            match u {
                Ty::Tup(ts) => {
                    let mut inner = here.clone();
                    let mut ps = Vec::new();
                    for t in ts {
                        ps.push(Pat::Var(vname(inner.len())));
                        inner.push(t.clone());
                    }
                    self.children(
                        &[(here.clone(), u.clone()), (inner.clone(), ty.clone())],
                        budget,
                        &mut |c| emit(Term::Let(Pat::Tuple(ps.clone()), b(c[0].clone()), b(c[1].clone()))),
                    );
                }
                Ty::Rec(fs) => {
                    let mut inner = here.clone();
                    let mut ps = Vec::new();
                    for (f, t) in fs {
                        ps.push((f.clone(), Some(Pat::Var(vname(inner.len())))));
                        inner.push(t.clone());
                    }
                    self.children(
                        &[(here.clone(), u.clone()), (inner.clone(), ty.clone())],
                        budget,
                        &mut |c| emit(Term::Let(Pat::Record(ps.clone()), b(c[0].clone()), b(c[1].clone()))),
                    );
                }
                _ => {}
            }
        }
        if cfg.with_seq {
            self.children(
                &[(here.clone(), Ty::Int), (here.clone(), ty.clone())],
                budget,
                &mut |c| emit(Term::Seq(b(c[0].clone()), b(c[1].clone()))),
            );
        }
        // lambda
        if let Ty::Fun(a, r) = ty {
            let mut bctx = here.clone();
            bctx.push((**a).clone());
            let p0 = vname(here.len());
            self.children(&[(bctx.clone(), (**r).clone())], budget, &mut |c| {
                emit(Term::Lam(vec![p0.clone()], b(c[0].clone())))
            });
            if let Ty::Fun(a2, r2) = &**r {
                let mut bctx2 = bctx.clone();
                bctx2.push((**a2).clone());
                let p1 = vname(here.len() + 1);
                self.children(&[(bctx2.clone(), (**r2).clone())], budget, &mut |c| {
                    emit(Term::Lam(vec![p0.clone(), p1.clone()], b(c[0].clone())))
                });
            }
        }
        // application (one and two arguments at once)
        for u in cfg.universe.iter() {
            let fty = Ty::fun(u.clone(), ty.clone());
            self.children(
                &[(here.clone(), fty.clone()), (here.clone(), u.clone())],
                budget,
                &mut |c| emit(app(c[0].clone(), vec![c[1].clone()])),
            );
        }
        {
            // two arguments in one application node: only Int arguments to bound the space
            let fty = Ty::fun(Ty::Int, Ty::fun(Ty::Int, ty.clone()));
            self.children(
                &[
                    (here.clone(), fty),
                    (here.clone(), Ty::Int),
                    (here.clone(), Ty::Int),
                ],
                budget,
                &mut |c| emit(app(c[0].clone(), vec![c[1].clone(), c[2].clone()])),
            );
        }
        // records / tuples / constructors / arrays
        match ty {
            Ty::Rec(fs) if !fs.is_empty() => {
                let specs: Vec<(Vec<Ty>, Ty)> =
                    fs.iter().map(|(_, t)| (here.clone(), t.clone())).collect();
                let names: Vec<String> = fs.iter().map(|(n, _)| n.clone()).collect();
                self.children(&specs, budget, &mut |c| {
                    emit(Term::Record(
                        names.iter().cloned().zip(c.iter().cloned()).collect(),
                    ))
                });
            }
            Ty::Tup(ts) => {
                let specs: Vec<(Vec<Ty>, Ty)> =
                    ts.iter().map(|t| (here.clone(), t.clone())).collect();
                self.children(&specs, budget, &mut |c| emit(Term::Tuple(c.to_vec())));
            }
            Ty::O => {
                self.children(&[(here.clone(), Ty::Int)], budget, &mut |c| {
                    emit(Term::Ctor("S".into(), c.to_vec()))
                });
            }
            Ty::V => {
                self.children(&[(here.clone(), Ty::Int)], budget, &mut |c| {
                    emit(Term::Ctor("B".into(), c.to_vec()))
                });
                self.children(
                    &[(here.clone(), Ty::Int), (here.clone(), Ty::V)],
                    budget,
                    &mut |c| emit(Term::Ctor("C".into(), c.to_vec())),
                );
            }
            Ty::Arr(t) if cfg.with_arrays => {
                for k in 1..=budget.min(3) {
                    let specs: Vec<(Vec<Ty>, Ty)> =
                        (0..k).map(|_| (here.clone(), (**t).clone())).collect();
                    self.children(&specs, budget, &mut |c| emit(Term::Array(c.to_vec())));
                }
            }
            _ => {}
        }
        // projection
        for u in cfg.universe.iter() {
            match u {
                Ty::Rec(fs) => {
                    for (f, t) in fs {
                        if t == ty {
                            let f = f.clone();
                            self.children(&[(here.clone(), u.clone())], budget, &mut |c| {
                                emit(Term::Proj(b(c[0].clone()), f.clone()))
                            });
                        }
                    }
                }
                Ty::Tup(ts) => {
                    for (i, t) in ts.iter().enumerate() {
                        if t == ty {
                            let f = format!("_{}", i);
                            self.children(&[(here.clone(), u.clone())], budget, &mut |c| {
                                emit(Term::Proj(b(c[0].clone()), f.clone()))
                            });
                        }
                    }
                }
                Ty::Arr(t) if cfg.with_arrays && **t == *ty => {
                    self.children(
                        &[(here.clone(), u.clone()), (here.clone(), Ty::Int)],
                        budget,
                        &mut |c| emit(Term::Index(b(c[0].clone()), b(c[1].clone()))),
                    );
                }
                _ => {}
            }
        }
        // match
        if cfg.with_match {
            let l = here.len();
            let x = vname(l);
            let y = vname(l + 1);
            let pv = |s: &String| Pat::Var(s.clone());
            let ctor = |c: &str, ps: Vec<Pat>| Pat::Ctor(c.to_string(), ps);
            let with = |extra: &[Ty]| {
                let mut c = here.clone();
                c.extend(extra.iter().cloned());
                c
            };
            // (scrutinee type, list of arm menus; each arm = (pattern, bound types))
            let menus: Vec<(Ty, Vec<Vec<(Pat, Vec<Ty>)>>)> = vec![
                (
                    Ty::O,
                    vec![
                        vec![(ctor("N", vec![]), vec![]), (ctor("S", vec![pv(&x)]), vec![Ty::Int])],
                        vec![(ctor("S", vec![pv(&x)]), vec![Ty::Int]), (Pat::Wild, vec![])],
                        vec![(ctor("S", vec![pv(&x)]), vec![Ty::Int])],
                        vec![(ctor("S", vec![Pat::Int(0)]), vec![]), (pv(&x), vec![Ty::O])],
                    ],
                ),
                (
                    Ty::V,
                    vec![
                        vec![
                            (ctor("A", vec![]), vec![]),
                            (ctor("B", vec![pv(&x)]), vec![Ty::Int]),
                            (ctor("C", vec![pv(&x), pv(&y)]), vec![Ty::Int, Ty::V]),
                        ],
                        vec![
                            (
                                ctor("C", vec![pv(&x), ctor("B", vec![pv(&y)])]),
                                vec![Ty::Int, Ty::Int],
                            ),
                            (Pat::Wild, vec![]),
                        ],
                        vec![
                            (ctor("C", vec![Pat::Wild, Pat::As(x.clone(), Box::new(ctor("B", vec![Pat::Wild])))]), vec![Ty::V]),
                            (pv(&x), vec![Ty::V]),
                        ],
                    ],
                ),
                (
                    Ty::Int,
                    vec![vec![(Pat::Int(0), vec![]), (pv(&x), vec![Ty::Int])]],
                ),
                (
                    t2(),
                    vec![
                        vec![(Pat::Tuple(vec![pv(&x), pv(&y)]), vec![Ty::Int, Ty::Int])],
                        vec![
                            (Pat::Tuple(vec![Pat::Int(0), pv(&x)]), vec![Ty::Int]),
                            (Pat::Tuple(vec![pv(&x), Pat::Wild]), vec![Ty::Int]),
                        ],
                    ],
                ),
                (
                    r2(),
                    vec![vec![
                        (
                            Pat::Record(vec![("b".into(), Some(Pat::Int(1))), ("a".into(), Some(pv(&x)))]),
                            vec![Ty::Int],
                        ),
                        (Pat::Record(vec![("b".into(), Some(pv(&x)))]), vec![Ty::Int]),
                    ]],
                ),
            ];
            for (sty, arm_menus) in menus {
                if !cfg.universe.contains(&sty) {
                    continue;
                }
                for arms in arm_menus {
                    let mut specs = vec![(here.clone(), sty.clone())];
                    for (_, bound) in &arms {
                        specs.push((with(bound), ty.clone()));
                    }
                    let pats: Vec<Pat> = arms.iter().map(|(p, _)| p.clone()).collect();
                    self.children(&specs, budget, &mut |c| {
                        emit(Term::Match(
                            b(c[0].clone()),
                            pats.iter().cloned().zip(c[1..].iter().cloned()).collect(),
                        ))
                    });
                }
            }
        }
    }
}

/// Top-level result types of enumerated programs (first-order)
pub fn top_types() -> Vec<Ty> {
    vec![
        Ty::Int,
        Ty::Bool,
        r2(),
        t2(),
        Ty::O,
        Ty::V,
        Ty::Arr(Box::new(Ty::Int)),
    ]
}
