//! GL-core: a harness-side typed term language printed to Gluon source (explicit style, no
//! implicit prelude). Oracle semantics live in `refsem`.

use std::fmt::Write;

#[derive(Clone, Debug, PartialEq, Eq, Hash, PartialOrd, Ord)]
pub enum Ty {
    Int,
    Bool,
    Unit,
    Str,
    Fun(Box<Ty>, Box<Ty>),
    Rec(Vec<(String, Ty)>),
    Tup(Vec<Ty>),
    /// type V = | A | B Int | C Int V
    V,
    /// type O = | N | S Int
    O,
    Arr(Box<Ty>),
}

impl Ty {
    pub fn fun(a: Ty, b: Ty) -> Ty {
        Ty::Fun(Box::new(a), Box::new(b))
    }
    pub fn rec(fs: &[(&str, Ty)]) -> Ty {
        Ty::Rec(fs.iter().map(|(n, t)| (n.to_string(), t.clone())).collect())
    }
    pub fn is_first_order(&self) -> bool {
        match self {
            Ty::Fun(..) => false,
            Ty::Rec(fs) => fs.iter().all(|(_, t)| t.is_first_order()),
            Ty::Tup(ts) => ts.iter().all(|t| t.is_first_order()),
            Ty::Arr(t) => t.is_first_order(),
            _ => true,
        }
    }
    pub fn show(&self) -> String {
        match self {
            Ty::Int => "Int".into(),
            Ty::Bool => "Bool".into(),
            Ty::Unit => "()".into(),
            Ty::Str => "String".into(),
            Ty::Fun(a, b) => match **a {
                Ty::Fun(..) => format!("({}) -> {}", a.show(), b.show()),
                _ => format!("{} -> {}", a.show(), b.show()),
            },
            Ty::Rec(fs) => {
                if fs.is_empty() {
                    "{}".into()
                } else {
                    let v: Vec<String> =
                        fs.iter().map(|(n, t)| format!("{} : {}", n, t.show())).collect();
                    format!("{{ {} }}", v.join(", "))
                }
            }
            Ty::Tup(ts) => {
                let v: Vec<String> = ts.iter().map(|t| t.show()).collect();
                format!("({})", v.join(", "))
            }
            Ty::V => "V".into(),
            Ty::O => "O".into(),
            Ty::Arr(t) => match **t {
                Ty::Int | Ty::Bool | Ty::Str | Ty::V | Ty::O | Ty::Unit | Ty::Rec(_) | Ty::Tup(_) => {
                    format!("Array {}", t.show())
                }
                _ => format!("Array ({})", t.show()),
            },
        }
    }
}

#[derive(Clone, Copy, Debug, PartialEq, Eq, Hash)]
pub enum Op {
    Add,
    Sub,
    Mul,
    Div,
    Lt,
    Eq,
}

impl Op {
    pub fn sym(self) -> &'static str {
        match self {
            Op::Add => "#Int+",
            Op::Sub => "#Int-",
            Op::Mul => "#Int*",
            Op::Div => "#Int/",
            Op::Lt => "#Int<",
            Op::Eq => "#Int==",
        }
    }
    /// overloaded spelling used with the implicit prelude
    pub fn prelude_sym(self) -> &'static str {
        match self {
            Op::Add => "+",
            Op::Sub => "-",
            Op::Mul => "*",
            Op::Div => "/",
            Op::Lt => "<",
            Op::Eq => "==",
        }
    }
}

#[derive(Clone, Debug, PartialEq, Eq, Hash)]
pub enum Pat {
    Wild,
    Var(String),
    Int(i64),
    Str(String),
    Ctor(String, Vec<Pat>),
    Tuple(Vec<Pat>),
    /// `{ a = p, b }` (None = shorthand binding the field name)
    Record(Vec<(String, Option<Pat>)>),
    As(String, Box<Pat>),
}

#[derive(Clone, Debug, PartialEq, Eq, Hash)]
pub struct FunDef {
    pub name: String,
    pub params: Vec<String>,
    pub body: Term,
}

#[derive(Clone, Debug, PartialEq, Eq, Hash)]
pub enum Term {
    Int(i64),
    Bool(bool),
    Unit,
    Str(String),
    Var(String),
    Bin(Op, Box<Term>, Box<Term>),
    If(Box<Term>, Box<Term>, Box<Term>),
    And(Box<Term>, Box<Term>),
    Or(Box<Term>, Box<Term>),
    /// `let p = e1 in e2` with an irrefutable pattern
    Let(Pat, Box<Term>, Box<Term>),
    /// `let f a b = body in rest` (not recursive)
    LetFun(Box<FunDef>, Box<Term>),
    /// `rec let f a = .. let g b = .. in rest`; a def with no params is a recursive value
    LetRec(Vec<FunDef>, Box<Term>),
    Lam(Vec<String>, Box<Term>),
    App(Box<Term>, Vec<Term>),
    Record(Vec<(String, Term)>),
    Proj(Box<Term>, String),
    /// `{ f = e, .. base }`
    Update(Vec<(String, Term)>, Box<Term>),
    Tuple(Vec<Term>),
    Ctor(String, Vec<Term>),
    Match(Box<Term>, Vec<(Pat, Term)>),
    Array(Vec<Term>),
    Index(Box<Term>, Box<Term>),
    Len(Box<Term>),
    Error(String),
    /// `eff e` : Int -> Int, logs its argument and returns it (host side effect)
    Eff(Box<Term>),
    /// block of two expressions: first evaluated and discarded
    Seq(Box<Term>, Box<Term>),
    /// `do x = e in body` / `seq e in body`: sugar for `flat_map (\x -> body) e` with the
    /// `flat_map` in scope
    Do(Option<String>, Box<Term>, Box<Term>),
}

/// name of the let-bound variable whose definition is compiled as a separate module
pub const VMOD: &str = "vmod";

/// Source of the module `vmod` for a program that binds it (None if the program does not)
pub fn vmod_source(d: Dialect, t: &Term) -> Option<String> {
    let mut found: Option<Term> = None;
    t.visit(&mut |t| {
        if let Term::Let(Pat::Var(m), def, _) = t {
            if m == VMOD && found.is_none() {
                found = Some((**def).clone());
            }
        }
    });
    found.map(|def| program(d, &def))
}

pub fn b(t: Term) -> Box<Term> {
    Box::new(t)
}
pub fn var(s: &str) -> Term {
    Term::Var(s.to_string())
}
pub fn app(f: Term, args: Vec<Term>) -> Term {
    Term::App(b(f), args)
}
pub fn let_(n: &str, e: Term, r: Term) -> Term {
    Term::Let(Pat::Var(n.to_string()), b(e), b(r))
}
pub fn letfun(n: &str, ps: &[&str], body: Term, r: Term) -> Term {
    Term::LetFun(
        Box::new(FunDef {
            name: n.to_string(),
            params: ps.iter().map(|s| s.to_string()).collect(),
            body,
        }),
        b(r),
    )
}
pub fn bin(op: Op, l: Term, r: Term) -> Term {
    Term::Bin(op, b(l), b(r))
}

impl Term {
    pub fn size(&self) -> usize {
        use Term::*;
        match self {
            Int(_) | Bool(_) | Unit | Str(_) | Var(_) | Error(_) => 1,
            Bin(_, a, c) | And(a, c) | Or(a, c) | Index(a, c) | Seq(a, c) => 1 + a.size() + c.size(),
            If(a, c, d) => 1 + a.size() + c.size() + d.size(),
            Let(_, a, c) | Do(_, a, c) => 1 + a.size() + c.size(),
            LetFun(d, r) => 1 + d.body.size() + r.size(),
            LetRec(ds, r) => 1 + ds.iter().map(|d| d.body.size()).sum::<usize>() + r.size(),
            Lam(_, body) => 1 + body.size(),
            App(f, args) => 1 + f.size() + args.iter().map(|a| a.size()).sum::<usize>(),
            Record(fs) => 1 + fs.iter().map(|(_, t)| t.size()).sum::<usize>(),
            Update(fs, base) => 1 + base.size() + fs.iter().map(|(_, t)| t.size()).sum::<usize>(),
            Proj(e, _) | Len(e) | Eff(e) => 1 + e.size(),
            Tuple(ts) | Array(ts) | Ctor(_, ts) => 1 + ts.iter().map(|t| t.size()).sum::<usize>(),
            Match(s, arms) => 1 + s.size() + arms.iter().map(|(_, t)| t.size()).sum::<usize>(),
        }
    }

    /// number of nodes that exercise calls / pattern tests (used for the non-triviality rule)
    pub fn interesting(&self) -> bool {
        let mut found = false;
        self.visit(&mut |t| {
            if matches!(
                t,
                Term::App(..) | Term::Match(..) | Term::Proj(..) | Term::Update(..) | Term::LetRec(..) | Term::Do(..)
                    | Term::Index(..) | Term::If(..) | Term::And(..) | Term::Or(..)
            ) {
                found = true;
            }
        });
        found
    }

    pub fn visit(&self, f: &mut dyn FnMut(&Term)) {
        use Term::*;
        f(self);
        match self {
            Int(_) | Bool(_) | Unit | Str(_) | Var(_) | Error(_) => {}
            Bin(_, a, c) | And(a, c) | Or(a, c) | Index(a, c) | Seq(a, c) | Let(_, a, c)
            | Do(_, a, c) => {
                a.visit(f);
                c.visit(f)
            }
            If(a, c, d) => {
                a.visit(f);
                c.visit(f);
                d.visit(f)
            }
            LetFun(d, r) => {
                d.body.visit(f);
                r.visit(f)
            }
            LetRec(ds, r) => {
                for d in ds {
                    d.body.visit(f)
                }
                r.visit(f)
            }
            Lam(_, body) => body.visit(f),
            App(g, args) => {
                g.visit(f);
                for a in args {
                    a.visit(f)
                }
            }
            Record(fs) => {
                for (_, t) in fs {
                    t.visit(f)
                }
            }
            Update(fs, base) => {
                for (_, t) in fs {
                    t.visit(f)
                }
                base.visit(f)
            }
            Proj(e, _) | Len(e) | Eff(e) => e.visit(f),
            Tuple(ts) | Array(ts) | Ctor(_, ts) => {
                for t in ts {
                    t.visit(f)
                }
            }
            Match(s, arms) => {
                s.visit(f);
                for (_, t) in arms {
                    t.visit(f)
                }
            }
        }
    }

    pub fn uses(&self, pred: &dyn Fn(&Term) -> bool) -> bool {
        let mut found = false;
        self.visit(&mut |t| {
            if pred(t) {
                found = true
            }
        });
        found
    }
}

// ---------------------------------------------------------------------------------------------
// Printing

#[derive(Clone, Copy, PartialEq, Eq, Debug)]
pub enum Dialect {
    /// no implicit prelude: `#Int+`, names bound by the header
    Bare,
    /// implicit prelude: overloaded `+ - * / < ==` (implicit Num/Eq/Ord Int dispatch)
    Prelude,
}

pub fn header(d: Dialect, t: &Term) -> String {
    let mut h = String::new();
    let uses_eff = t.uses(&|t| matches!(t, Term::Eff(_)));
    let uses_arr = t.uses(&|t| matches!(t, Term::Index(..) | Term::Len(..)));
    let uses_err = t.uses(&|t| matches!(t, Term::Error(_)));
    let uses_bool = true;
    if d == Dialect::Bare {
        if uses_bool {
            h.push_str("let { Bool } = import! std.types\n");
        }
        if uses_err {
            h.push_str("let { error } = import! std.prim\n");
        }
    }
    if uses_arr {
        h.push_str("let array_prim = import! std.array.prim\n");
    }
    if uses_eff {
        h.push_str("let { eff } = import! verif.prim\n");
    }
    h.push_str("type V = | A | B Int | C Int V\n");
    h.push_str("type O = | N | S Int\n");
    h
}

pub fn program(d: Dialect, t: &Term) -> String {
    let mut s = header(d, t);
    print(d, t, &mut s);
    s.push('\n');
    s
}

fn atomic(t: &Term) -> bool {
    use Term::*;
    match t {
        Int(i) => *i >= 0,
        Bool(_) | Unit | Str(_) | Var(_) | Record(_) | Update(..) | Tuple(_) | Array(_) => true,
        Ctor(_, args) => args.is_empty(),
        Proj(..) | Match(..) | LetRec(..) => true,
        _ => false,
    }
}

fn print_atom(d: Dialect, t: &Term, s: &mut String) {
    if atomic(t) {
        print(d, t, s)
    } else {
        s.push('(');
        print(d, t, s);
        s.push(')');
    }
}

pub fn print_pat(p: &Pat, s: &mut String, atom: bool) {
    match p {
        Pat::Wild => s.push('_'),
        Pat::Var(v) => s.push_str(v),
        Pat::Int(i) => write!(s, "{}", i).unwrap(),
        Pat::Str(x) => write!(s, "{:?}", x).unwrap(),
        Pat::Ctor(c, ps) => {
            if ps.is_empty() {
                s.push_str(c)
            } else {
                if atom {
                    s.push('(')
                }
                s.push_str(c);
                for p in ps {
                    s.push(' ');
                    print_pat(p, s, true);
                }
                if atom {
                    s.push(')')
                }
            }
        }
        Pat::Tuple(ps) => {
            s.push('(');
            for (i, p) in ps.iter().enumerate() {
                if i > 0 {
                    s.push_str(", ")
                }
                print_pat(p, s, false);
            }
            s.push(')');
        }
        Pat::Record(fs) => {
            s.push_str("{ ");
            for (i, (n, p)) in fs.iter().enumerate() {
                if i > 0 {
                    s.push_str(", ")
                }
                s.push_str(n);
                if let Some(p) = p {
                    s.push_str(" = ");
                    print_pat(p, s, false);
                }
            }
            s.push_str(" }");
        }
        Pat::As(n, p) => {
            if atom {
                s.push('(')
            }
            s.push_str(n);
            s.push('@');
            print_pat(p, s, true);
            if atom {
                s.push(')')
            }
        }
    }
}

/// current output column (programs are ASCII)
fn column(s: &str) -> usize {
    match s.rfind('\n') {
        Some(i) => s.len() - i - 1,
        None => s.len(),
    }
}

fn newline_indent(s: &mut String, col: usize) {
    s.push('\n');
    for _ in 0..col {
        s.push(' ');
    }
}

fn print_def(d: Dialect, f: &FunDef, s: &mut String) {
    s.push_str("let ");
    s.push_str(&f.name);
    for p in &f.params {
        s.push(' ');
        s.push_str(p);
    }
    s.push_str(" = ");
    print(d, &f.body, s);
}

pub fn print(d: Dialect, t: &Term, s: &mut String) {
    use Term::*;
    match t {
        Int(i) => write!(s, "{}", i).unwrap(),
        Bool(true) => s.push_str("True"),
        Bool(false) => s.push_str("False"),
        Unit => s.push_str("()"),
        Str(x) => write!(s, "{:?}", x).unwrap(),
        Var(v) => s.push_str(v),
        Bin(op, l, r) => {
            print_atom(d, l, s);
            s.push(' ');
            s.push_str(if d == Dialect::Bare { op.sym() } else { op.prelude_sym() });
            s.push(' ');
            print_atom(d, r, s);
        }
        If(c, a, e) => {
            s.push_str("if ");
            print_atom(d, c, s);
            s.push_str(" then ");
            print(d, a, s);
            s.push_str(" else ");
            print(d, e, s);
        }
        And(l, r) => {
            print_atom(d, l, s);
            s.push_str(" && ");
            print_atom(d, r, s);
        }
        Or(l, r) => {
            print_atom(d, l, s);
            s.push_str(" || ");
            print_atom(d, r, s);
        }
        Let(Pat::Var(m), _, r) if m == VMOD => {
            // the definition lives in the separately loaded module `vmod` (see `vmod_source`)
            s.push_str("let vmod = import! vmod in ");
            print(d, r, s);
        }
        Let(p, e, r) => {
            s.push_str("let ");
            print_pat(p, s, false);
            s.push_str(" = ");
            print(d, e, s);
            s.push_str(" in ");
            print(d, r, s);
        }
        LetFun(f, r) => {
            print_def(d, f, s);
            s.push_str(" in ");
            print(d, r, s);
        }
        LetRec(fs, r) => {
            // every binding of a `rec` group must start on its own line
            // and be aligned; aligning them one column right of the opening parenthesis keeps them
            // right of every enclosing layout context opened on this line
            let col = column(s) + 1;
            s.push_str("(rec");
            for f in fs {
                newline_indent(s, col);
                print_def(d, f, s);
            }
            newline_indent(s, col);
            s.push_str("in ");
            print(d, r, s);
            s.push(')');
        }
        Lam(ps, body) => {
            s.push('\\');
            s.push_str(&ps.join(" "));
            s.push_str(" -> ");
            print(d, body, s);
        }
        App(f, args) => {
            print_atom(d, f, s);
            for a in args {
                s.push(' ');
                print_atom(d, a, s);
            }
        }
        Record(fs) => {
            if fs.is_empty() {
                s.push_str("{}");
            } else {
                s.push_str("{ ");
                for (i, (n, e)) in fs.iter().enumerate() {
                    if i > 0 {
                        s.push_str(", ")
                    }
                    match e {
                        Var(v) if v == n => s.push_str(n),
                        _ => {
                            s.push_str(n);
                            s.push_str(" = ");
                            print(d, e, s);
                        }
                    }
                }
                s.push_str(" }");
            }
        }
        Update(fs, base) => {
            s.push_str("{ ");
            for (n, e) in fs.iter() {
                s.push_str(n);
                s.push_str(" = ");
                print(d, e, s);
                s.push_str(", ");
            }
            s.push_str(".. ");
            print_atom(d, base, s);
            s.push_str(" }");
        }
        Proj(e, f) => {
            print_atom(d, e, s);
            s.push('.');
            s.push_str(f);
        }
        Tuple(ts) => {
            s.push('(');
            for (i, e) in ts.iter().enumerate() {
                if i > 0 {
                    s.push_str(", ")
                }
                print(d, e, s);
            }
            s.push(')');
        }
        Ctor(c, args) => {
            s.push_str(c);
            for a in args {
                s.push(' ');
                print_atom(d, a, s);
            }
        }
        Match(e, arms) => {
            // gluon's layout needs every alternative on its own line; a parenthesised match with
            // its `|` at column 0 is accepted in every expression context
            let col = column(s) + 1;
            s.push_str("(match ");
            print_atom(d, e, s);
            s.push_str(" with");
            for (p, body) in arms {
                newline_indent(s, col);
                s.push_str("| ");
                print_pat(p, s, false);
                s.push_str(" -> ");
                match body {
                    Lam(..) | Let(..) | LetFun(..) | LetRec(..) | If(..) | Seq(..) | Do(..) => {
                        s.push('(');
                        print(d, body, s);
                        s.push(')');
                    }
                    _ => print(d, body, s),
                }
            }
            s.push(')');
        }
        Array(ts) => {
            s.push('[');
            for (i, e) in ts.iter().enumerate() {
                if i > 0 {
                    s.push_str(", ")
                }
                print(d, e, s);
            }
            s.push(']');
        }
        Index(a, i) => {
            s.push_str("array_prim.index ");
            print_atom(d, a, s);
            s.push(' ');
            print_atom(d, i, s);
        }
        Len(a) => {
            s.push_str("array_prim.len ");
            print_atom(d, a, s);
        }
        Error(m) => {
            write!(s, "error {:?}", m).unwrap();
        }
        Eff(e) => {
            s.push_str("eff ");
            print_atom(d, e, s);
        }
        Do(x, e, r) => {
            match x {
                Some(x) => {
                    s.push_str("do ");
                    s.push_str(x);
                    s.push_str(" = ");
                }
                None => s.push_str("seq "),
            }
            print(d, e, s);
            s.push_str(" in ");
            print(d, r, s);
        }
        Seq(a, r) => {
            // `let _ = a in r` is the explicit spelling of a two-expression block
            s.push_str("let _ = ");
            print(d, a, s);
            s.push_str(" in ");
            print(d, r, s);
        }
    }
}
