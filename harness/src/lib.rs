pub mod engines;
pub mod lang;
pub mod par;
pub mod report;
pub mod vmkit;
