pub mod engines;
pub mod isolate;
pub mod lang;
pub mod par;
pub mod report;
pub mod syntax;
pub mod vmkit;
