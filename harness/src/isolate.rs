//! Worker-subprocess runner for subjects that may abort the process (panic inside an
//! `extern "C"` wrapper, native stack overflow, memory corruption) or hang.
//!
//! The parent re-executes its own binary as `gv worker <name>`; each case is one line on the
//! child's stdin (`<idx>\t<payload>`, payload single-line); the child answers `B <idx>` before
//! running a case and `E <idx>\t<result>` after it. A child that dies or exceeds the per-case
//! time limit is attributed to the in-flight case and replaced.

use std::io::{BufRead, BufReader, Write};
use std::process::{Child, Command, Stdio};
use std::sync::atomic::{AtomicBool, AtomicUsize, Ordering};
use std::sync::mpsc::{channel, RecvTimeoutError};
use std::sync::Mutex;
use std::time::{Duration, Instant};

#[derive(Clone, Debug, PartialEq)]
pub enum CaseOutcome {
    Done(String),
    /// process died while running the case: description of the exit status + tail of stderr
    Crashed(String),
    /// no answer within the time limit
    Hung,
}

fn spawn(worker: &str) -> Child {
    let exe = std::env::current_exe().expect("current_exe");
    Command::new(exe)
        .arg("worker")
        .arg(worker)
        .stdin(Stdio::piped())
        .stdout(Stdio::piped())
        .stderr(Stdio::piped())
        .spawn()
        .expect("spawn worker")
}

fn describe_status(child: &mut Child) -> String {
    use std::os::unix::process::ExitStatusExt;
    let status = match child.wait() {
        Ok(s) => s,
        Err(e) => return format!("wait failed: {}", e),
    };
    let mut err = String::new();
    if let Some(mut e) = child.stderr.take() {
        use std::io::Read;
        let mut buf = Vec::new();
        let _ = e.read_to_end(&mut buf);
        let text = String::from_utf8_lossy(&buf);
        let lines: Vec<&str> = text.lines().filter(|l| !l.trim().is_empty()).collect();
        let tail: Vec<&str> = lines.iter().rev().take(6).rev().cloned().collect();
        err = tail.join(" | ");
    }
    match (status.code(), status.signal()) {
        (_, Some(sig)) => format!("killed by signal {} :: {}", sig, err),
        (Some(c), _) => format!("exit code {} :: {}", c, err),
        _ => format!("unknown status :: {}", err),
    }
}

pub struct Isolated {
    pub outcomes: Vec<Option<CaseOutcome>>,
    pub capped: bool,
    pub restarts: usize,
}

/// Runs all `cases` through `workers` child processes.
pub fn run_isolated(
    worker: &str,
    cases: &[String],
    workers: usize,
    timeout: Duration,
    deadline: Option<Instant>,
) -> Isolated {
    let next = AtomicUsize::new(0);
    let capped = AtomicBool::new(false);
    let restarts = AtomicUsize::new(0);
    let outcomes: Mutex<Vec<Option<CaseOutcome>>> = Mutex::new(vec![None; cases.len()]);
    std::thread::scope(|scope| {
        for _ in 0..workers.min(cases.len().max(1)) {
            scope.spawn(|| {
                let mut child = spawn(worker);
                let mut stdin = child.stdin.take().unwrap();
                let mut lines = reader_channel(&mut child);
                loop {
                    let idx = next.fetch_add(1, Ordering::Relaxed);
                    if idx >= cases.len() {
                        break;
                    }
                    if let Some(d) = deadline {
                        if Instant::now() >= d {
                            capped.store(true, Ordering::Relaxed);
                            break;
                        }
                    }
                    let line = format!("{}\t{}\n", idx, serde_json::to_string(&cases[idx]).unwrap());
                    let write_ok = stdin.write_all(line.as_bytes()).is_ok() && stdin.flush().is_ok();
                    let mut outcome = None;
                    if write_ok {
                        let start = Instant::now();
                        loop {
                            let left = timeout.checked_sub(start.elapsed()).unwrap_or(Duration::ZERO);
                            match lines.recv_timeout(left) {
                                Ok(Some(l)) => {
                                    if let Some(rest) = l.strip_prefix("E ") {
                                        if let Some((i, res)) = rest.split_once('\t') {
                                            if i.parse::<usize>().ok() == Some(idx) {
                                                let res: String = serde_json::from_str(res).unwrap_or_else(|_| res.to_string());
                                                outcome = Some(CaseOutcome::Done(res));
                                                break;
                                            }
                                        }
                                    }
                                }
                                Ok(None) | Err(RecvTimeoutError::Disconnected) => {
                                    outcome = Some(CaseOutcome::Crashed(describe_status(&mut child)));
                                    break;
                                }
                                Err(RecvTimeoutError::Timeout) => {
                                    let _ = child.kill();
                                    let _ = child.wait();
                                    outcome = Some(CaseOutcome::Hung);
                                    break;
                                }
                            }
                        }
                    } else {
                        outcome = Some(CaseOutcome::Crashed(describe_status(&mut child)));
                    }
                    let dead = !matches!(outcome, Some(CaseOutcome::Done(_)));
                    outcomes.lock().unwrap()[idx] = outcome;
                    if dead {
                        restarts.fetch_add(1, Ordering::Relaxed);
                        child = spawn(worker);
                        stdin = child.stdin.take().unwrap();
                        lines = reader_channel(&mut child);
                    }
                }
                drop(stdin);
                let _ = child.kill();
                let _ = child.wait();
            });
        }
    });
    Isolated {
        outcomes: outcomes.into_inner().unwrap(),
        capped: capped.load(Ordering::Relaxed),
        restarts: restarts.load(Ordering::Relaxed),
    }
}

fn reader_channel(child: &mut Child) -> std::sync::mpsc::Receiver<Option<String>> {
    let out = child.stdout.take().unwrap();
    let (tx, rx) = channel();
    std::thread::spawn(move || {
        let reader = BufReader::new(out);
        for l in reader.lines() {
            match l {
                Ok(l) => {
                    if tx.send(Some(l)).is_err() {
                        return;
                    }
                }
                Err(_) => break,
            }
        }
        let _ = tx.send(None);
    });
    rx
}

/// Child side: reads cases from stdin and answers on stdout. `f(payload) -> result` (single line).
pub fn worker_loop(mut f: impl FnMut(&str) -> String) {
    let stdin = std::io::stdin();
    let stdout = std::io::stdout();
    for line in stdin.lock().lines() {
        let line = match line {
            Ok(l) => l,
            Err(_) => break,
        };
        let (idx, payload) = match line.split_once('\t') {
            Some(x) => x,
            None => continue,
        };
        let payload: String = serde_json::from_str(payload).unwrap_or_else(|_| payload.to_string());
        {
            let mut o = stdout.lock();
            let _ = writeln!(o, "B {}", idx);
            let _ = o.flush();
        }
        let res = f(&payload);
        let mut o = stdout.lock();
        let _ = writeln!(o, "E {}\t{}", idx, serde_json::to_string(&res).unwrap());
        let _ = o.flush();
    }
}
