use gv::vmkit::*;

fn engine(id: &str, tier: &str, replay: Option<&serde_json::Value>) -> Option<gv::report::Report> {
    use gv::engines::*;
    Some(match (id, replay) {
        ("C01", None) => c01::run(tier),
        ("C01", Some(v)) => c01::replay(v),
        ("C02", None) => c02::run(tier),
        ("C02", Some(v)) => c02::replay(v),
        ("C11", None) => c11::run(tier),
        ("C11", Some(v)) => c11::replay(v),
        ("C12", None) => c12::run(tier),
        ("C12", Some(v)) => c12::replay(v),
        ("C16", None) => c16::run(tier),
        ("C16", Some(v)) => c16::replay(v),
        ("C17", None) => c17::run(tier),
        ("C17", Some(v)) => c17::replay(v),
        ("C18", None) => c18::run(tier),
        ("C18", Some(v)) => c18::replay(v),
        ("C19", None) => c19::run(tier),
        ("C19", Some(v)) => c19::replay(v),
        ("C07", None) => c07::run(tier),
        ("C07", Some(v)) => c07::replay(v),
        ("C08", None) => c08::run(tier),
        ("C08", Some(v)) => c08::replay(v),
        ("C09", None) => c09::run(tier),
        ("C09", Some(v)) => c09::replay(v),
        ("C10", None) => c10::run(tier),
        ("C10", Some(v)) => c10::replay(v),
        ("C06", None) => c06::run(tier),
        ("C06", Some(v)) => c06::replay(v),
        ("C03", None) => c03::run(tier),
        ("C03", Some(v)) => c03::replay(v),
        ("C20", None) => c20::run(tier),
        ("C20", Some(v)) => c20::replay(v),
        ("C15", None) => c15::run(tier),
        ("C15", Some(v)) => c15::replay(v),
        ("C14", None) => c14::run(tier),
        ("C14", Some(v)) => c14::replay(v),
        ("C13", None) => c13::run(tier),
        ("C13", Some(v)) => c13::replay(v),
        ("C05", None) => c05::run(tier),
        ("C05", Some(v)) => c05::replay(v),
        ("C04", None) => c04::run(tier),
        ("C04", Some(v)) => c04::replay(v),
        _ => return None,
    })
}

fn main() {
    let args: Vec<String> = std::env::args().collect();
    if let Some(id) = args.get(1) {
        if id.len() == 3 && id.starts_with('C') {
            record_panics();
            let tier = std::env::var("VERIF_TIER").ok().or_else(|| args.get(2).cloned()).unwrap_or_else(|| "quick".into());
            let tier = if tier == "thorough" { "thorough" } else { "quick" };
            let replay = args.iter().position(|a| a == "--replay").and_then(|i| args.get(i + 1)).map(|p| {
                let text = std::fs::read_to_string(p).unwrap_or_else(|e| { eprintln!("cannot read {}: {}", p, e); std::process::exit(2) });
                let v: serde_json::Value = serde_json::from_str(&text).unwrap_or_else(|e| { eprintln!("bad replay file: {}", e); std::process::exit(2) });
                v["replay"].clone()
            });
            match engine(id, tier, replay.as_ref()) {
                Some(report) => {
                    if replay.is_some() {
                        let n = report.violations.len();
                        println!("replay: {}", if n > 0 { "violation reproduced" } else { "not reproduced" });
                        std::process::exit(if n > 0 { 1 } else { 0 });
                    }
                    std::process::exit(gv::report::finish(report))
                }
                None => { eprintln!("no engine for {}", id); std::process::exit(2) }
            }
        }
    }
    if args.get(1).map(|s| s.as_str()) == Some("worker") {
        record_panics();
        match args.get(2).map(|s| s.as_str()) {
            Some("c05") => gv::isolate::worker_loop(gv::engines::c05::worker),
            Some("c13") => gv::isolate::worker_loop(gv::engines::c13::worker),
            Some("c14") => gv::isolate::worker_loop(gv::engines::c14::worker),
            Some("c03") => gv::isolate::worker_loop(gv::engines::c03::worker),
            Some("c06") => gv::engines::c06::worker_main(),
            Some("c10") => gv::isolate::worker_loop(gv::engines::c10::worker),
            Some("c20") => gv::engines::c20::worker_main(),
            Some("c15") => gv::isolate::worker_loop(gv::engines::c15::worker),
            Some("c12") => gv::isolate::worker_loop(gv::engines::c12::worker),
            Some("c16") => gv::isolate::worker_loop(gv::engines::c16::worker),
            Some("c17") => gv::isolate::worker_loop(gv::engines::c17::worker),
            other => {
                eprintln!("unknown worker {:?}", other);
                std::process::exit(2)
            }
        }
        return;
    }
    match args.get(1).map(|s| s.as_str()) {
        Some("c09-worker") => {
            gv::engines::c09::worker_main(args.get(2).map(|s| s.as_str()).unwrap_or("quick"), args.get(3).map(|s| s.as_str()));
        }
        Some("probe") => {
            record_panics();
            let bits: u32 = args.get(3).and_then(|s| s.parse().ok()).unwrap_or(6);
            let src = if args[2] == "-" {
                let mut s = String::new();
                use std::io::Read;
                std::io::stdin().read_to_string(&mut s).unwrap();
                s
            } else {
                args[2].clone()
            };
            let t = std::time::Instant::now();
            let o = run(&make_vm_with_prim(Settings::from_bits(bits)), "main", &src);
            println!("{:?}  ({:?}) {}", o, t.elapsed(), last_panic_loc());
        }
        Some("count") => {
            use gv::lang::{gen::*, term::*, refsem};
            let n: usize = args[2].parse().unwrap();
            let mut g = Gen::new(Cfg::standard());
            let t0 = std::time::Instant::now();
            for size in 1..=n {
                let mut total = 0usize;
                let mut cls = std::collections::BTreeMap::new();
                for ty in top_types() {
                    let mut c = 0usize;
                    g.produce(&vec![], &ty, size, &mut |t| {
                        c += 1;
                        let r = refsem::run(&t);
                        let k = match r.outcome { refsem::RefOutcome::Value(_) => "value".to_string(), refsem::RefOutcome::Fail(f) => format!("{:?}", f) };
                        *cls.entry(k).or_insert(0usize) += 1;
                        if c % 100003 == 1 && size >= 5 { println!("   {}", program(Dialect::Bare, &t).lines().last().unwrap()); }
                    });
                    total += c;
                }
                println!("size {} programs {} ({:?}) {:?}", size, total, t0.elapsed(), cls);
            }
        }
        _ => {
            eprintln!("usage: gv <C01..C20> <quick|thorough> [--replay path] | gv probe <src> [settings-bits]");
            std::process::exit(2);
        }
    }
}
