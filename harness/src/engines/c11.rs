//! C11 — marshalling between Rust and Gluon is lossless and type-faithful.
//!
//! Space: a family of 60 Rust types closed under Option/Result/Vec/tuple/BTreeMap/derived struct
//! and enum nesting. Every type enumerates the FULL cartesian product of small boundary alphabets
//! of its leaves (an index space decoded by mixed radix: `Fam::count` / `Fam::nth`), and every
//! value is sent through the routes
//!   R1   push -> get on the thread's stack (`api::convert`)
//!   R1m  `Pushable::marshal` to a rooted value, read back, root dropped
//!   R2i  a Gluon identity function requested as `fn(T) -> T`
//!   R2r  a Gluon function which takes the value apart constructor by constructor and rebuilds it
//!   R2o  a Gluon function which renders a fingerprint of the value (Gluon `show` of ints/bytes,
//!        string concatenation, float comparisons, matches, array/map folds); compared with the
//!        same fingerprint computed by plain Rust
//!   R3w  `ser::Ser(v)` must push the same Gluon value as `v`'s own `Pushable` (same Gluon type)
//!   R3   `ser::Ser(v)` -> `de::from_value` (the function behind `de::De`), when R3w holds
//!   R3d  the value built by the Gluon rebuild function -> `de::from_value`
//!   R3x  `ser::Ser(v)` -> `de::from_value` whatever `Ser` pushed; only in child processes (it
//!        can overflow the stack): <= 38 values of the scalars and of the first type of every
//!        outermost constructor
//! Oracle: the value comes back equal (floats by bits, any NaN for a NaN).
//! Second part: a matrix {Gluon globals} x {requested Rust types}: `get_global::<T>` and
//! `run_expr::<T>` must succeed (with the right value) iff the Gluon types are equal.
//!
//! Process safety: a few values of every type go through every route in a child process first
//! (the serde bridge can recurse without bound); what kills the child is recorded as a failure
//! and not run in-process. Caught host panics discard the VM (leaked when its locks are poisoned).
//!
//! Reporting: failures are grouped by (route, cause class); serde-route failures of a type are
//! attributed to a failing component type / an earlier type with the same outermost constructor.
//! Each remaining group reports the smallest failing value of its first type, after reproducing
//! it on a fresh VM: key `c11:<route>:<rust type>:<value>`.
//!
//! Debugging aids: VERIF_C11_TYPE=<type name>, VERIF_C11_ROUTES=R1,R3d, VERIF_C11_DEPTH=n,
//! replay record {"part":"sizes","depth":n}.

use crate::par;
use crate::report::Report;
use crate::vmkit::{self, panic_message, walk, Settings, W};
use gluon::vm::api::{self, de, ser::Ser, Getable, Hole, OpaqueValue, OwnedFunction, Pushable, VmType};
use gluon::vm::thread::{RootedThread, Thread};
use gluon::ThreadExt;
use gluon_codegen::{Getable, Pushable, VmType};
use serde::de::DeserializeOwned;
use serde_derive::{Deserialize, Serialize};
use serde_json::{json, Value};
use std::any::Any;
use std::collections::{BTreeMap, HashMap};
use std::fmt;
use std::panic::{catch_unwind, AssertUnwindSafe};

// ---------------------------------------------------------------------------------------------
// Gluon source emission (one helper function per type node; dedup by Rust type name)

#[derive(Clone, Debug)]
pub struct Node {
    /// Gluon type text (atomic or parenthesised where needed by the user)
    pub ty: String,
    /// name of the Gluon function `ty -> ty` rebuilding the value
    pub reb: String,
    /// name of the Gluon function `ty -> String` rendering the fingerprint
    pub obs: String,
}

#[derive(Default)]
pub struct Emit {
    defs: Vec<String>,
    memo: BTreeMap<String, Node>,
}

impl Emit {
    fn get(&self, key: &str) -> Option<Node> {
        self.memo.get(key).cloned()
    }
    /// `reb_body` / `obs_body`: lines of the function body (argument is `x`), already indented
    fn add(&mut self, key: String, ty: String, reb_body: String, obs_body: String) -> Node {
        let n = self.memo.len();
        let node = Node { ty: ty.clone(), reb: format!("reb{}", n), obs: format!("obs{}", n) };
        self.defs.push(format!("let {} x : {} -> {} =\n{}", node.reb, ty, ty, reb_body));
        self.defs.push(format!("let {} x : {} -> String =\n{}", node.obs, ty, obs_body));
        self.memo.insert(key, node.clone());
        node
    }
    fn script(&self, last: &str) -> String {
        let mut s = String::from(SCRIPT_HEAD);
        for d in &self.defs {
            s.push_str(d);
            s.push('\n');
        }
        s.push_str(last);
        s.push('\n');
        s
    }
}

const SCRIPT_HEAD: &str = "let int = import! std.int
let byte = import! std.byte
let char = import! std.char
let string = import! std.string
let array = import! std.array
let map @ { Map } = import! std.map
let { Result } = import! std.types
let { Named, Reord, Gen, Unit3, Mixed, Either, Outer, Zero } = import! c11t
let cat a b : String -> String -> String = string.semigroup.append a b
";

/// Gluon-side definitions of the derived types
const TYPES_SRC: &str = "type Named = { name : String, age : Int, score : Float }
type Reord = { z : Int, a : String, m : Option Byte }
type Gen a = { generic : a, other : Int }
type Unit3 = | UA | UB | UC
type Mixed = | MNil | MOne Int | MPair String Float | MRec { id : Byte, tag : Option String }
type Either l r = | ELeft l | ERight r
type Outer = { inner : Named, list : Array Unit3, e : Mixed }
type Zero = | ZA | ZB | ZC Int
{ Named, Reord, Gen, Unit3, Mixed, Either, Outer, Zero }
";

/// nested `cat` of Gluon string expressions
fn catn(parts: &[String]) -> String {
    match parts.len() {
        0 => "\"\"".to_string(),
        1 => parts[0].clone(),
        _ => format!("cat ({}) ({})", parts[0], catn(&parts[1..])),
    }
}
fn lit(s: &str) -> String {
    format!("\"{}\"", s)
}

// ---------------------------------------------------------------------------------------------
// The family

pub trait Fam: Sized + Clone + fmt::Debug + 'static {
    fn tname() -> String;
    fn count(d: u32) -> usize;
    fn nth(d: u32, i: usize) -> Self;
    /// oracle equality
    fn same(&self, o: &Self) -> bool;
    /// false iff the value contains a u64/usize above i64::MAX (only the round trip is checked)
    fn observable(&self) -> bool;
    /// contains a boundary feature (extreme number, special float, empty/non-ASCII string, empty
    /// container, None/Err, unit variant)
    fn edgy(&self) -> bool;
    /// reference fingerprint (what `obs` must compute on the Gluon side)
    fn fp(&self, out: &mut String);
    fn gl(e: &mut Emit) -> Node;
    /// names of all component types (transitively), used to attribute serde-bridge failures to
    /// the smallest type showing them
    fn components(_out: &mut Vec<String>) {}
}

fn comp<T: Fam>(out: &mut Vec<String>) {
    out.push(T::tname());
    T::components(out);
}

fn pick<T: Clone>(full: &[T], small: &[T], d: u32, i: usize) -> T {
    if d >= 1 {
        full[i].clone()
    } else {
        small[i].clone()
    }
}

macro_rules! int_fam {
    ($t:ty, $full:expr, $small:expr) => {
        impl Fam for $t {
            fn tname() -> String {
                stringify!($t).to_string()
            }
            fn count(d: u32) -> usize {
                if d >= 1 { $full.len() } else { $small.len() }
            }
            fn nth(d: u32, i: usize) -> Self {
                pick(&$full, &$small, d, i)
            }
            fn same(&self, o: &Self) -> bool {
                self == o
            }
            fn observable(&self) -> bool {
                (*self as i128) <= i64::MAX as i128
            }
            fn edgy(&self) -> bool {
                *self == <$t>::MIN || *self == <$t>::MAX
            }
            fn fp(&self, out: &mut String) {
                out.push_str(&(*self as i128).to_string());
            }
            fn gl(e: &mut Emit) -> Node {
                if let Some(n) = e.get("Int") {
                    return n;
                }
                e.add(
                    "Int".into(),
                    "Int".into(),
                    "    x #Int* 1".into(),
                    "    int.show.show x".into(),
                )
            }
        }
    };
}

int_fam!(i16, [i16::MIN, -1, 0, 1, i16::MAX], [i16::MIN, 0, i16::MAX]);
int_fam!(i32, [i32::MIN, -1, 0, 1, i32::MAX], [i32::MIN, 0, i32::MAX]);
int_fam!(i64, [i64::MIN, -1, 0, 1, i64::MAX], [i64::MIN, 0, i64::MAX]);
int_fam!(isize, [isize::MIN, -1, 0, 1, isize::MAX], [isize::MIN, 0, isize::MAX]);
int_fam!(u16, [0u16, 1, 255, 256, u16::MAX], [0u16, 1, u16::MAX]);
int_fam!(u32, [0u32, 1, i32::MAX as u32, i32::MAX as u32 + 1, u32::MAX], [0u32, 1, u32::MAX]);
int_fam!(
    u64,
    [0u64, 1, i64::MAX as u64, i64::MAX as u64 + 1, u64::MAX],
    [0u64, i64::MAX as u64, u64::MAX]
);
int_fam!(
    usize,
    [0usize, 1, isize::MAX as usize, isize::MAX as usize + 1, usize::MAX],
    [0usize, isize::MAX as usize, usize::MAX]
);

const U8_FULL: [u8; 5] = [0, 1, 127, 128, 255];
const U8_SMALL: [u8; 2] = [0, 255];

impl Fam for u8 {
    fn tname() -> String {
        "u8".into()
    }
    fn count(d: u32) -> usize {
        if d >= 1 { U8_FULL.len() } else { U8_SMALL.len() }
    }
    fn nth(d: u32, i: usize) -> Self {
        pick(&U8_FULL, &U8_SMALL, d, i)
    }
    fn same(&self, o: &Self) -> bool {
        self == o
    }
    fn observable(&self) -> bool {
        true
    }
    fn edgy(&self) -> bool {
        *self == 0 || *self >= 128
    }
    fn fp(&self, out: &mut String) {
        out.push_str(&self.to_string());
        out.push('b');
    }
    fn gl(e: &mut Emit) -> Node {
        if let Some(n) = e.get("u8") {
            return n;
        }
        e.add(
            "u8".into(),
            "Byte".into(),
            "    x #Byte* 1b".into(),
            "    cat (byte.show.show x) \"b\"".into(),
        )
    }
}

fn f64_full() -> Vec<f64> {
    vec![
        0.0,
        -0.0,
        1.5,
        -1.5,
        f64::NAN,
        f64::from_bits(0x7ff8_0000_dead_beef),
        f64::from_bits(0xfff8_0000_0000_0000),
        f64::from_bits(0x7ff0_0000_0000_0001),
        f64::INFINITY,
        f64::NEG_INFINITY,
        f64::MAX,
        f64::MIN_POSITIVE,
        f64::from_bits(1),
    ]
}
fn f64_small() -> Vec<f64> {
    vec![-0.0, 1.5, f64::NAN]
}
fn f32_full() -> Vec<f32> {
    vec![
        0.0,
        -0.0,
        1.5,
        -1.5,
        f32::NAN,
        f32::from_bits(0x7fc0_beef),
        f32::from_bits(0xffc0_0000),
        f32::from_bits(0x7f80_0001),
        f32::INFINITY,
        f32::NEG_INFINITY,
        f32::MAX,
        f32::MIN_POSITIVE,
        f32::from_bits(1),
    ]
}
fn f32_small() -> Vec<f32> {
    vec![-0.0, 1.5, f32::NAN]
}

macro_rules! float_fam {
    ($t:ty, $full:ident, $small:ident) => {
        impl Fam for $t {
            fn tname() -> String {
                stringify!($t).to_string()
            }
            fn count(d: u32) -> usize {
                if d >= 1 { $full().len() } else { $small().len() }
            }
            fn nth(d: u32, i: usize) -> Self {
                if d >= 1 { $full()[i] } else { $small()[i] }
            }
            fn same(&self, o: &Self) -> bool {
                self.to_bits() == o.to_bits() || (self.is_nan() && o.is_nan())
            }
            fn observable(&self) -> bool {
                true
            }
            fn edgy(&self) -> bool {
                !self.is_normal() || *self == <$t>::MAX || *self == <$t>::MIN_POSITIVE
            }
            fn fp(&self, out: &mut String) {
                out.push_str(if self.is_nan() {
                    "nan"
                } else if *self < 0.0 {
                    "n"
                } else if *self == 0.0 {
                    "z"
                } else {
                    "p"
                });
            }
            fn gl(e: &mut Emit) -> Node {
                if let Some(n) = e.get("Float") {
                    return n;
                }
                e.add(
                    "Float".into(),
                    "Float".into(),
                    "    x".into(),
                    "    if x #Float== x then (if x #Float< 0.0 then \"n\" else (if x #Float== 0.0 then \"z\" else \"p\")) else \"nan\"".into(),
                )
            }
        }
    };
}
float_fam!(f64, f64_full, f64_small);
float_fam!(f32, f32_full, f32_small);

impl Fam for bool {
    fn tname() -> String {
        "bool".into()
    }
    fn count(_: u32) -> usize {
        2
    }
    fn nth(_: u32, i: usize) -> Self {
        i == 1
    }
    fn same(&self, o: &Self) -> bool {
        self == o
    }
    fn observable(&self) -> bool {
        true
    }
    fn edgy(&self) -> bool {
        false
    }
    fn fp(&self, out: &mut String) {
        out.push(if *self { 'T' } else { 'F' });
    }
    fn gl(e: &mut Emit) -> Node {
        if let Some(n) = e.get("bool") {
            return n;
        }
        e.add(
            "bool".into(),
            "Bool".into(),
            "    if x then True else False".into(),
            "    if x then \"T\" else \"F\"".into(),
        )
    }
}

const CHAR_FULL: [char; 7] = ['a', '\0', 'é', '€', '\u{10FFFF}', '\u{D7FF}', '\u{E000}'];
const CHAR_SMALL: [char; 2] = ['a', '\u{10FFFF}'];

impl Fam for char {
    fn tname() -> String {
        "char".into()
    }
    fn count(d: u32) -> usize {
        if d >= 1 { CHAR_FULL.len() } else { CHAR_SMALL.len() }
    }
    fn nth(d: u32, i: usize) -> Self {
        pick(&CHAR_FULL, &CHAR_SMALL, d, i)
    }
    fn same(&self, o: &Self) -> bool {
        self == o
    }
    fn observable(&self) -> bool {
        true
    }
    fn edgy(&self) -> bool {
        !self.is_ascii() || *self == '\0'
    }
    fn fp(&self, out: &mut String) {
        out.push('c');
        out.push_str(&(*self as u32).to_string());
    }
    fn gl(e: &mut Emit) -> Node {
        if let Some(n) = e.get("char") {
            return n;
        }
        e.add(
            "char".into(),
            "Char".into(),
            "    x".into(),
            "    cat \"c\" (int.show.show (char.to_int x))".into(),
        )
    }
}

const STR_FULL: [&str; 6] = ["", "a", "é", "a€b\u{10FFFF}", "\0x", "q\"\\\n"];
const STR_SMALL: [&str; 3] = ["", "é", "a€b\u{10FFFF}"];

impl Fam for String {
    fn tname() -> String {
        "String".into()
    }
    fn count(d: u32) -> usize {
        if d >= 1 { STR_FULL.len() } else { STR_SMALL.len() }
    }
    fn nth(d: u32, i: usize) -> Self {
        pick(&STR_FULL, &STR_SMALL, d, i).to_string()
    }
    fn same(&self, o: &Self) -> bool {
        self == o
    }
    fn observable(&self) -> bool {
        true
    }
    fn edgy(&self) -> bool {
        self.is_empty() || !self.is_ascii() || self.contains('\0')
    }
    fn fp(&self, out: &mut String) {
        out.push('<');
        out.push_str(self);
        out.push('>');
    }
    fn gl(e: &mut Emit) -> Node {
        if let Some(n) = e.get("String") {
            return n;
        }
        e.add(
            "String".into(),
            "String".into(),
            "    cat x \"\"".into(),
            "    cat \"<\" (cat x \">\")".into(),
        )
    }
}

impl Fam for () {
    fn tname() -> String {
        "()".into()
    }
    fn count(_: u32) -> usize {
        1
    }
    fn nth(_: u32, _: usize) -> Self {}
    fn same(&self, _: &Self) -> bool {
        true
    }
    fn observable(&self) -> bool {
        true
    }
    fn edgy(&self) -> bool {
        false
    }
    fn fp(&self, out: &mut String) {
        out.push('u');
    }
    fn gl(e: &mut Emit) -> Node {
        if let Some(n) = e.get("()") {
            return n;
        }
        e.add("()".into(), "()".into(), "    ()".into(), "    \"u\"".into())
    }
}

impl<T: Fam> Fam for Option<T> {
    fn components(out: &mut Vec<String>) {
        comp::<T>(out);
    }
    fn tname() -> String {
        format!("Option<{}>", T::tname())
    }
    fn count(d: u32) -> usize {
        1 + T::count(d)
    }
    fn nth(d: u32, i: usize) -> Self {
        if i == 0 { None } else { Some(T::nth(d, i - 1)) }
    }
    fn same(&self, o: &Self) -> bool {
        match (self, o) {
            (None, None) => true,
            (Some(a), Some(b)) => a.same(b),
            _ => false,
        }
    }
    fn observable(&self) -> bool {
        self.as_ref().map_or(true, |x| x.observable())
    }
    fn edgy(&self) -> bool {
        self.as_ref().map_or(true, |x| x.edgy())
    }
    fn fp(&self, out: &mut String) {
        match self {
            None => out.push('N'),
            Some(x) => {
                out.push_str("S(");
                x.fp(out);
                out.push(')');
            }
        }
    }
    fn gl(e: &mut Emit) -> Node {
        let key = Self::tname();
        if let Some(n) = e.get(&key) {
            return n;
        }
        let c = T::gl(e);
        e.add(
            key,
            format!("(Option {})", c.ty),
            format!("    match x with\n    | Some y -> Some ({} y)\n    | None -> None", c.reb),
            format!(
                "    match x with\n    | Some y -> cat \"S(\" (cat ({} y) \")\")\n    | None -> \"N\"",
                c.obs
            ),
        )
    }
}

impl<T: Fam, E: Fam> Fam for Result<T, E> {
    fn components(out: &mut Vec<String>) {
        comp::<T>(out);
        comp::<E>(out);
    }
    fn tname() -> String {
        format!("Result<{},{}>", T::tname(), E::tname())
    }
    fn count(d: u32) -> usize {
        T::count(d) + E::count(d)
    }
    fn nth(d: u32, i: usize) -> Self {
        let n = T::count(d);
        if i < n { Ok(T::nth(d, i)) } else { Err(E::nth(d, i - n)) }
    }
    fn same(&self, o: &Self) -> bool {
        match (self, o) {
            (Ok(a), Ok(b)) => a.same(b),
            (Err(a), Err(b)) => a.same(b),
            _ => false,
        }
    }
    fn observable(&self) -> bool {
        match self {
            Ok(a) => a.observable(),
            Err(b) => b.observable(),
        }
    }
    fn edgy(&self) -> bool {
        match self {
            Ok(a) => a.edgy(),
            Err(_) => true,
        }
    }
    fn fp(&self, out: &mut String) {
        match self {
            Ok(a) => {
                out.push_str("O(");
                a.fp(out);
            }
            Err(b) => {
                out.push_str("E(");
                b.fp(out);
            }
        }
        out.push(')');
    }
    fn gl(e: &mut Emit) -> Node {
        let key = Self::tname();
        if let Some(n) = e.get(&key) {
            return n;
        }
        let t = T::gl(e);
        let er = E::gl(e);
        e.add(
            key,
            format!("(Result {} {})", er.ty, t.ty),
            format!(
                "    match x with\n    | Ok y -> Ok ({} y)\n    | Err y -> Err ({} y)",
                t.reb, er.reb
            ),
            format!(
                "    match x with\n    | Ok y -> cat \"O(\" (cat ({} y) \")\")\n    | Err y -> cat \"E(\" (cat ({} y) \")\")",
                t.obs, er.obs
            ),
        )
    }
}

/// Depth of the element alphabet used for 3-element vectors / maps: the largest depth below `d`
/// whose alphabet has at most 32 (depth <= 2) or 128 (deeper) elements, else depth 0.
fn triple_depth<T: Fam>(d: u32) -> u32 {
    let limit = if d <= 2 { 32 } else { 128 };
    let mut dd = d.saturating_sub(1);
    while dd > 0 && T::count(dd) > limit {
        dd -= 1;
    }
    dd
}
fn triple_base<T: Fam>(d: u32) -> usize {
    let n = T::count(triple_depth::<T>(d));
    if d == 0 { n.min(2) } else { n }
}

impl<T: Fam> Fam for Vec<T> {
    fn components(out: &mut Vec<String>) {
        comp::<T>(out);
    }
    fn tname() -> String {
        format!("Vec<{}>", T::tname())
    }
    fn count(d: u32) -> usize {
        let n3 = triple_base::<T>(d);
        1 + T::count(d) + n3 * n3 * n3
    }
    fn nth(d: u32, i: usize) -> Self {
        if i == 0 {
            return vec![];
        }
        let n1 = T::count(d);
        if i <= n1 {
            return vec![T::nth(d, i - 1)];
        }
        let n3 = triple_base::<T>(d);
        let j = i - 1 - n1;
        let dd = triple_depth::<T>(d);
        vec![T::nth(dd, j % n3), T::nth(dd, (j / n3) % n3), T::nth(dd, j / (n3 * n3))]
    }
    fn same(&self, o: &Self) -> bool {
        self.len() == o.len() && self.iter().zip(o).all(|(a, b)| a.same(b))
    }
    fn observable(&self) -> bool {
        self.iter().all(|x| x.observable())
    }
    fn edgy(&self) -> bool {
        self.is_empty() || self.iter().any(|x| x.edgy())
    }
    fn fp(&self, out: &mut String) {
        out.push('[');
        for x in self {
            x.fp(out);
            out.push(',');
        }
    }
    fn gl(e: &mut Emit) -> Node {
        let key = Self::tname();
        if let Some(n) = e.get(&key) {
            return n;
        }
        let c = T::gl(e);
        e.add(
            key,
            format!("(Array {})", c.ty),
            format!("    array.functor.map {} x", c.reb),
            format!(
                "    array.foldable.foldl (\\acc y -> cat acc (cat ({} y) \",\")) \"[\" x",
                c.obs
            ),
        )
    }
}

const MAP_KEYS1: [&str; 4] = ["k", "", "é", "a€b\u{10FFFF}"];
const MAP_KEYS3: [&str; 3] = ["m", "", "é€"];

impl<T: Fam> Fam for BTreeMap<String, T> {
    fn components(out: &mut Vec<String>) {
        comp::<String>(out);
        comp::<T>(out);
    }
    fn tname() -> String {
        format!("BTreeMap<String,{}>", T::tname())
    }
    fn count(d: u32) -> usize {
        let n3 = triple_base::<T>(d);
        1 + T::count(d) + n3 * n3 * n3
    }
    fn nth(d: u32, i: usize) -> Self {
        let mut m = BTreeMap::new();
        if i == 0 {
            return m;
        }
        let n1 = T::count(d);
        if i <= n1 {
            m.insert(MAP_KEYS1[(i - 1) % 4].to_string(), T::nth(d, i - 1));
            return m;
        }
        let n3 = triple_base::<T>(d);
        let j = i - 1 - n1;
        let dd = triple_depth::<T>(d);
        m.insert(MAP_KEYS3[0].to_string(), T::nth(dd, j % n3));
        m.insert(MAP_KEYS3[1].to_string(), T::nth(dd, (j / n3) % n3));
        m.insert(MAP_KEYS3[2].to_string(), T::nth(dd, j / (n3 * n3)));
        m
    }
    fn same(&self, o: &Self) -> bool {
        self.len() == o.len()
            && self.iter().zip(o).all(|((ka, a), (kb, b))| ka == kb && a.same(b))
    }
    fn observable(&self) -> bool {
        self.values().all(|x| x.observable())
    }
    fn edgy(&self) -> bool {
        self.is_empty() || self.iter().any(|(k, x)| k.edgy() || x.edgy())
    }
    fn fp(&self, out: &mut String) {
        out.push('{');
        for (k, x) in self {
            out.push_str(k);
            out.push('=');
            x.fp(out);
            out.push(';');
        }
    }
    fn gl(e: &mut Emit) -> Node {
        let key = Self::tname();
        if let Some(n) = e.get(&key) {
            return n;
        }
        let c = T::gl(e);
        e.add(
            key,
            format!("(Map String {})", c.ty),
            format!(
                "    map.foldl_with_key ?string.ord (\\acc k v -> map.insert ?string.ord k ({} v) acc) map.empty x",
                c.reb
            ),
            format!(
                "    map.foldl_with_key ?string.ord (\\acc k v -> cat acc (cat k (cat \"=\" (cat ({} v) \";\")))) \"{{\" x",
                c.obs
            ),
        )
    }
}

macro_rules! tuple_fam {
    ($( $T:ident $i:tt ),+) => {
        impl<$($T: Fam),+> Fam for ($($T,)+) {
            fn components(out: &mut Vec<String>) {
                $( comp::<$T>(out); )+
            }
            fn tname() -> String {
                let parts: Vec<String> = vec![$($T::tname()),+];
                format!("({})", parts.join(","))
            }
            fn count(d: u32) -> usize {
                1 $( * $T::count(d) )+
            }
            #[allow(unused_assignments)]
            fn nth(d: u32, i: usize) -> Self {
                let mut r = i;
                ( $( { let n = $T::count(d); let k = r % n; r /= n; $T::nth(d, k) }, )+ )
            }
            fn same(&self, o: &Self) -> bool {
                true $( && self.$i.same(&o.$i) )+
            }
            fn observable(&self) -> bool {
                true $( && self.$i.observable() )+
            }
            fn edgy(&self) -> bool {
                false $( || self.$i.edgy() )+
            }
            fn fp(&self, out: &mut String) {
                out.push('(');
                $( self.$i.fp(out); out.push(','); )+
                out.push(')');
            }
            fn gl(e: &mut Emit) -> Node {
                let key = Self::tname();
                if let Some(n) = e.get(&key) {
                    return n;
                }
                let cs: Vec<Node> = vec![$($T::gl(e)),+];
                let ty = format!("({})", cs.iter().map(|c| c.ty.clone()).collect::<Vec<_>>().join(", "));
                let reb = format!(
                    "    ({})",
                    cs.iter().enumerate().map(|(k, c)| format!("{} x._{}", c.reb, k)).collect::<Vec<_>>().join(", ")
                );
                let mut parts = vec![lit("(")];
                for (k, c) in cs.iter().enumerate() {
                    parts.push(format!("{} x._{}", c.obs, k));
                    parts.push(lit(","));
                }
                parts.push(lit(")"));
                e.add(key, ty, reb, format!("    {}", catn(&parts)))
            }
        }
    };
}
tuple_fam!(A 0, B 1);
tuple_fam!(A 0, B 1, C 2);

// ---------------------------------------------------------------------------------------------
// Derived structs and enums

/// product decoding helper
struct Radix(usize);
impl Radix {
    fn take<T: Fam>(&mut self, d: u32) -> T {
        let n = T::count(d);
        let k = self.0 % n;
        self.0 /= n;
        T::nth(d, k)
    }
}

/// named fields, Gluon type given by name (`vm_type`)
#[derive(Clone, Debug, Getable, Pushable, VmType, Serialize, Deserialize)]
#[gluon(vm_type = "c11t.Named")]
pub struct Named {
    name: String,
    age: u32,
    score: f64,
}

impl Fam for Named {
    fn components(out: &mut Vec<String>) {
        comp::<String>(out);
        comp::<u32>(out);
        comp::<f64>(out);
    }
    fn tname() -> String {
        "Named".into()
    }
    fn count(d: u32) -> usize {
        String::count(d) * u32::count(d) * f64::count(d)
    }
    fn nth(d: u32, i: usize) -> Self {
        let mut r = Radix(i);
        Named { name: r.take(d), age: r.take(d), score: r.take(d) }
    }
    fn same(&self, o: &Self) -> bool {
        self.name.same(&o.name) && self.age.same(&o.age) && self.score.same(&o.score)
    }
    fn observable(&self) -> bool {
        true
    }
    fn edgy(&self) -> bool {
        self.name.edgy() || self.age.edgy() || self.score.edgy()
    }
    fn fp(&self, out: &mut String) {
        out.push('{');
        self.name.fp(out);
        out.push(';');
        self.age.fp(out);
        out.push(';');
        self.score.fp(out);
        out.push('}');
    }
    fn gl(e: &mut Emit) -> Node {
        if let Some(n) = e.get("Named") {
            return n;
        }
        let s = String::gl(e);
        let i = u32::gl(e);
        let f = f64::gl(e);
        e.add(
            "Named".into(),
            "Named".into(),
            format!("    {{ name = {} x.name, age = {} x.age, score = {} x.score }}", s.reb, i.reb, f.reb),
            format!(
                "    {}",
                catn(&[
                    lit("{"),
                    format!("{} x.name", s.obs),
                    lit(";"),
                    format!("{} x.age", i.obs),
                    lit(";"),
                    format!("{} x.score", f.obs),
                    lit("}")
                ])
            ),
        )
    }
}

/// structural `VmType` (no `vm_type`), fields not in alphabetical order; the Gluon side rebuilds
/// the record with the fields in the declared order
#[derive(Clone, Debug, Getable, Pushable, VmType, Serialize, Deserialize)]
pub struct Reord {
    z: i64,
    a: String,
    m: Option<u8>,
}

impl Fam for Reord {
    fn components(out: &mut Vec<String>) {
        comp::<i64>(out);
        comp::<String>(out);
        comp::<Option<u8>>(out);
    }
    fn tname() -> String {
        "Reord".into()
    }
    fn count(d: u32) -> usize {
        i64::count(d) * String::count(d) * <Option<u8>>::count(d)
    }
    fn nth(d: u32, i: usize) -> Self {
        let mut r = Radix(i);
        Reord { z: r.take(d), a: r.take(d), m: r.take(d) }
    }
    fn same(&self, o: &Self) -> bool {
        self.z == o.z && self.a == o.a && self.m == o.m
    }
    fn observable(&self) -> bool {
        true
    }
    fn edgy(&self) -> bool {
        self.z.edgy() || self.a.edgy() || self.m.edgy()
    }
    fn fp(&self, out: &mut String) {
        // rendered in alphabetical field order (the Gluon side does the same)
        out.push('{');
        self.a.fp(out);
        out.push(';');
        self.m.fp(out);
        out.push(';');
        self.z.fp(out);
        out.push('}');
    }
    fn gl(e: &mut Emit) -> Node {
        if let Some(n) = e.get("Reord") {
            return n;
        }
        let z = i64::gl(e);
        let a = String::gl(e);
        let m = <Option<u8>>::gl(e);
        e.add(
            "Reord".into(),
            "Reord".into(),
            format!("    {{ z = {} x.z, a = {} x.a, m = {} x.m }}", z.reb, a.reb, m.reb),
            format!(
                "    {}",
                catn(&[
                    lit("{"),
                    format!("{} x.a", a.obs),
                    lit(";"),
                    format!("{} x.m", m.obs),
                    lit(";"),
                    format!("{} x.z", z.obs),
                    lit("}")
                ])
            ),
        )
    }
}

/// generic struct, Gluon type constructor given by name and applied to the parameter
#[derive(Clone, Debug, Getable, Pushable, VmType, Serialize, Deserialize)]
#[gluon(vm_type = "c11t.Gen")]
pub struct Gen<T> {
    generic: T,
    other: u32,
}

impl<T: Fam> Fam for Gen<T> {
    fn components(out: &mut Vec<String>) {
        comp::<T>(out);
        comp::<u32>(out);
    }
    fn tname() -> String {
        format!("Gen<{}>", T::tname())
    }
    fn count(d: u32) -> usize {
        T::count(d) * u32::count(d)
    }
    fn nth(d: u32, i: usize) -> Self {
        let mut r = Radix(i);
        Gen { generic: r.take(d), other: r.take(d) }
    }
    fn same(&self, o: &Self) -> bool {
        self.generic.same(&o.generic) && self.other == o.other
    }
    fn observable(&self) -> bool {
        self.generic.observable()
    }
    fn edgy(&self) -> bool {
        self.generic.edgy() || self.other.edgy()
    }
    fn fp(&self, out: &mut String) {
        out.push('{');
        self.generic.fp(out);
        out.push(';');
        self.other.fp(out);
        out.push('}');
    }
    fn gl(e: &mut Emit) -> Node {
        let key = Self::tname();
        if let Some(n) = e.get(&key) {
            return n;
        }
        let t = T::gl(e);
        let i = u32::gl(e);
        e.add(
            key,
            format!("(Gen {})", t.ty),
            format!("    {{ generic = {} x.generic, other = {} x.other }}", t.reb, i.reb),
            format!(
                "    {}",
                catn(&[lit("{"), format!("{} x.generic", t.obs), lit(";"), format!("{} x.other", i.obs), lit("}")])
            ),
        )
    }
}

/// unit variants only, structural `VmType`
#[derive(Clone, Copy, Debug, PartialEq, Getable, Pushable, VmType, Serialize, Deserialize)]
pub enum Unit3 {
    UA,
    UB,
    UC,
}

impl Fam for Unit3 {
    fn tname() -> String {
        "Unit3".into()
    }
    fn count(_: u32) -> usize {
        3
    }
    fn nth(_: u32, i: usize) -> Self {
        [Unit3::UA, Unit3::UB, Unit3::UC][i]
    }
    fn same(&self, o: &Self) -> bool {
        self == o
    }
    fn observable(&self) -> bool {
        true
    }
    fn edgy(&self) -> bool {
        true
    }
    fn fp(&self, out: &mut String) {
        out.push_str(match self {
            Unit3::UA => "UA",
            Unit3::UB => "UB",
            Unit3::UC => "UC",
        });
    }
    fn gl(e: &mut Emit) -> Node {
        if let Some(n) = e.get("Unit3") {
            return n;
        }
        e.add(
            "Unit3".into(),
            "Unit3".into(),
            "    match x with\n    | UA -> UA\n    | UB -> UB\n    | UC -> UC".into(),
            "    match x with\n    | UA -> \"UA\"\n    | UB -> \"UB\"\n    | UC -> \"UC\"".into(),
        )
    }
}

/// unit, tuple and struct variants
#[derive(Clone, Debug, Getable, Pushable, VmType, Serialize, Deserialize)]
#[gluon(vm_type = "c11t.Mixed")]
pub enum Mixed {
    MNil,
    MOne(i64),
    MPair(String, f64),
    MRec { id: u8, tag: Option<String> },
}

impl Fam for Mixed {
    fn components(out: &mut Vec<String>) {
        comp::<i64>(out);
        comp::<String>(out);
        comp::<f64>(out);
        comp::<u8>(out);
        comp::<Option<String>>(out);
    }
    fn tname() -> String {
        "Mixed".into()
    }
    fn count(d: u32) -> usize {
        1 + i64::count(d) + String::count(d) * f64::count(d) + u8::count(d) * <Option<String>>::count(d)
    }
    fn nth(d: u32, i: usize) -> Self {
        if i == 0 {
            return Mixed::MNil;
        }
        let mut i = i - 1;
        if i < i64::count(d) {
            return Mixed::MOne(i64::nth(d, i));
        }
        i -= i64::count(d);
        let np = String::count(d) * f64::count(d);
        if i < np {
            let mut r = Radix(i);
            return Mixed::MPair(r.take(d), r.take(d));
        }
        let mut r = Radix(i - np);
        Mixed::MRec { id: r.take(d), tag: r.take(d) }
    }
    fn same(&self, o: &Self) -> bool {
        match (self, o) {
            (Mixed::MNil, Mixed::MNil) => true,
            (Mixed::MOne(a), Mixed::MOne(b)) => a == b,
            (Mixed::MPair(a, b), Mixed::MPair(c, d)) => a == c && b.same(d),
            (Mixed::MRec { id, tag }, Mixed::MRec { id: i2, tag: t2 }) => id == i2 && tag == t2,
            _ => false,
        }
    }
    fn observable(&self) -> bool {
        true
    }
    fn edgy(&self) -> bool {
        match self {
            Mixed::MNil => true,
            Mixed::MOne(a) => a.edgy(),
            Mixed::MPair(a, b) => a.edgy() || b.edgy(),
            Mixed::MRec { id, tag } => id.edgy() || tag.edgy(),
        }
    }
    fn fp(&self, out: &mut String) {
        match self {
            Mixed::MNil => out.push_str("MNil"),
            Mixed::MOne(a) => {
                out.push_str("MOne(");
                a.fp(out);
                out.push(')');
            }
            Mixed::MPair(a, b) => {
                out.push_str("MPair(");
                a.fp(out);
                out.push(',');
                b.fp(out);
                out.push(')');
            }
            Mixed::MRec { id, tag } => {
                out.push_str("MRec(");
                id.fp(out);
                out.push(',');
                tag.fp(out);
                out.push(')');
            }
        }
    }
    fn gl(e: &mut Emit) -> Node {
        if let Some(n) = e.get("Mixed") {
            return n;
        }
        let i = i64::gl(e);
        let s = String::gl(e);
        let f = f64::gl(e);
        let b = u8::gl(e);
        let os = <Option<String>>::gl(e);
        e.add(
            "Mixed".into(),
            "Mixed".into(),
            format!(
                "    match x with\n    | MNil -> MNil\n    | MOne a -> MOne ({} a)\n    | MPair a b -> MPair ({} a) ({} b)\n    | MRec r -> MRec {{ id = {} r.id, tag = {} r.tag }}",
                i.reb, s.reb, f.reb, b.reb, os.reb
            ),
            format!(
                "    match x with\n    | MNil -> \"MNil\"\n    | MOne a -> {}\n    | MPair a b -> {}\n    | MRec r -> {}",
                catn(&[lit("MOne("), format!("{} a", i.obs), lit(")")]),
                catn(&[lit("MPair("), format!("{} a", s.obs), lit(","), format!("{} b", f.obs), lit(")")]),
                catn(&[lit("MRec("), format!("{} r.id", b.obs), lit(","), format!("{} r.tag", os.obs), lit(")")]),
            ),
        )
    }
}

/// generic enum, structural `VmType`
#[derive(Clone, Debug, Getable, Pushable, VmType, Serialize, Deserialize)]
pub enum Either<L, R> {
    ELeft(L),
    ERight(R),
}

impl<L: Fam, R: Fam> Fam for Either<L, R> {
    fn components(out: &mut Vec<String>) {
        comp::<L>(out);
        comp::<R>(out);
    }
    fn tname() -> String {
        format!("Either<{},{}>", L::tname(), R::tname())
    }
    fn count(d: u32) -> usize {
        L::count(d) + R::count(d)
    }
    fn nth(d: u32, i: usize) -> Self {
        let n = L::count(d);
        if i < n { Either::ELeft(L::nth(d, i)) } else { Either::ERight(R::nth(d, i - n)) }
    }
    fn same(&self, o: &Self) -> bool {
        match (self, o) {
            (Either::ELeft(a), Either::ELeft(b)) => a.same(b),
            (Either::ERight(a), Either::ERight(b)) => a.same(b),
            _ => false,
        }
    }
    fn observable(&self) -> bool {
        match self {
            Either::ELeft(a) => a.observable(),
            Either::ERight(a) => a.observable(),
        }
    }
    fn edgy(&self) -> bool {
        match self {
            Either::ELeft(a) => a.edgy(),
            Either::ERight(a) => a.edgy(),
        }
    }
    fn fp(&self, out: &mut String) {
        match self {
            Either::ELeft(a) => {
                out.push_str("L(");
                a.fp(out);
            }
            Either::ERight(a) => {
                out.push_str("R(");
                a.fp(out);
            }
        }
        out.push(')');
    }
    fn gl(e: &mut Emit) -> Node {
        let key = Self::tname();
        if let Some(n) = e.get(&key) {
            return n;
        }
        let l = L::gl(e);
        let r = R::gl(e);
        e.add(
            key,
            format!("(Either {} {})", l.ty, r.ty),
            format!(
                "    match x with\n    | ELeft y -> ELeft ({} y)\n    | ERight y -> ERight ({} y)",
                l.reb, r.reb
            ),
            format!(
                "    match x with\n    | ELeft y -> cat \"L(\" (cat ({} y) \")\")\n    | ERight y -> cat \"R(\" (cat ({} y) \")\")",
                l.obs, r.obs
            ),
        )
    }
}

/// zero-field variants in both spellings next to a one-field variant, structural `VmType`
#[derive(Clone, Debug, PartialEq, Getable, Pushable, VmType, Serialize, Deserialize)]
pub enum Zero {
    ZA,
    ZB(),
    ZC(i64),
}

impl Fam for Zero {
    fn components(out: &mut Vec<String>) {
        comp::<i64>(out);
    }
    fn tname() -> String {
        "Zero".into()
    }
    fn count(d: u32) -> usize {
        2 + i64::count(d)
    }
    fn nth(d: u32, i: usize) -> Self {
        match i {
            0 => Zero::ZA,
            1 => Zero::ZB(),
            _ => Zero::ZC(i64::nth(d, i - 2)),
        }
    }
    fn same(&self, o: &Self) -> bool {
        self == o
    }
    fn observable(&self) -> bool {
        true
    }
    fn edgy(&self) -> bool {
        true
    }
    fn fp(&self, out: &mut String) {
        match self {
            Zero::ZA => out.push_str("ZA"),
            Zero::ZB() => out.push_str("ZB"),
            Zero::ZC(a) => {
                out.push_str("ZC(");
                a.fp(out);
                out.push(')');
            }
        }
    }
    fn gl(e: &mut Emit) -> Node {
        if let Some(n) = e.get("Zero") {
            return n;
        }
        let i = i64::gl(e);
        e.add(
            "Zero".into(),
            "Zero".into(),
            format!("    match x with\n    | ZA -> ZA\n    | ZB -> ZB\n    | ZC a -> ZC ({} a)", i.reb),
            format!(
                "    match x with\n    | ZA -> \"ZA\"\n    | ZB -> \"ZB\"\n    | ZC a -> cat \"ZC(\" (cat ({} a) \")\")",
                i.obs
            ),
        )
    }
}

/// struct of derived things, structural `VmType` whose fields are named types
#[derive(Clone, Debug, Getable, Pushable, VmType, Serialize, Deserialize)]
pub struct Outer {
    inner: Named,
    list: Vec<Unit3>,
    e: Mixed,
}

impl Fam for Outer {
    fn components(out: &mut Vec<String>) {
        comp::<Named>(out);
        comp::<Vec<Unit3>>(out);
        comp::<Mixed>(out);
    }
    fn tname() -> String {
        "Outer".into()
    }
    fn count(d: u32) -> usize {
        let dd = d.saturating_sub(2);
        Named::count(dd) * <Vec<Unit3>>::count(dd) * Mixed::count(dd)
    }
    fn nth(d: u32, i: usize) -> Self {
        let dd = d.saturating_sub(2);
        let mut r = Radix(i);
        Outer { inner: r.take(dd), list: r.take(dd), e: r.take(dd) }
    }
    fn same(&self, o: &Self) -> bool {
        self.inner.same(&o.inner) && self.list == o.list && self.e.same(&o.e)
    }
    fn observable(&self) -> bool {
        true
    }
    fn edgy(&self) -> bool {
        self.inner.edgy() || self.list.edgy() || self.e.edgy()
    }
    fn fp(&self, out: &mut String) {
        out.push('{');
        self.inner.fp(out);
        out.push(';');
        self.list.fp(out);
        out.push(';');
        self.e.fp(out);
        out.push('}');
    }
    fn gl(e: &mut Emit) -> Node {
        if let Some(n) = e.get("Outer") {
            return n;
        }
        let a = Named::gl(e);
        let b = <Vec<Unit3>>::gl(e);
        let c = Mixed::gl(e);
        e.add(
            "Outer".into(),
            "Outer".into(),
            format!("    {{ inner = {} x.inner, list = {} x.list, e = {} x.e }}", a.reb, b.reb, c.reb),
            format!(
                "    {}",
                catn(&[
                    lit("{"),
                    format!("{} x.inner", a.obs),
                    lit(";"),
                    format!("{} x.list", b.obs),
                    lit(";"),
                    format!("{} x.e", c.obs),
                    lit("}")
                ])
            ),
        )
    }
}

// ---------------------------------------------------------------------------------------------
// Driving the implementation

pub trait Subject:
    Fam
    + VmType
    + for<'vm> Pushable<'vm>
    + for<'vm, 'value> Getable<'vm, 'value>
    + serde::Serialize
    + DeserializeOwned
    + Send
    + Sync
{
}
impl<T> Subject for T where
    T: Fam
        + VmType
        + for<'vm> Pushable<'vm>
        + for<'vm, 'value> Getable<'vm, 'value>
        + serde::Serialize
        + DeserializeOwned
        + Send
        + Sync
{
}

pub const ROUTES: [&str; 8] = ["R1", "R1m", "R2i", "R2r", "R2o", "R3w", "R3", "R3d"];

fn settings() -> Settings {
    Settings { implicit_prelude: true, ..Settings::bare() }
}

pub fn fresh_vm() -> Result<RootedThread, String> {
    let vm = vmkit::make_vm(settings());
    vm.run_expr::<OpaqueValue<&Thread, Hole>>(
        "c11_init",
        "let _ = import! std.map\nlet _ = import! std.array\nlet _ = import! std.string\nlet _ = import! std.int\nlet _ = import! std.byte\nlet _ = import! std.char\n()",
    )
    .map_err(|e| format!("init: {}", e))?;
    vm.load_script("c11t", TYPES_SRC).map_err(|e| format!("c11t: {}", e))?;
    Ok(vm)
}

struct Fns<T: Subject>
where
    T::Type: Sized,
{
    id: OwnedFunction<fn(T) -> T>,
    reb: OwnedFunction<fn(T) -> T>,
    /// the same function, result left as a Gluon value
    reb_raw: OwnedFunction<fn(T) -> OpaqueValue<RootedThread, T>>,
    obs: OwnedFunction<fn(T) -> String>,
}

fn compile<T: Subject>(vm: &RootedThread) -> Result<Fns<T>, String>
where
    T::Type: Sized,
{
    let mut e = Emit::default();
    let node = T::gl(&mut e);
    let r = catch_unwind(AssertUnwindSafe(|| -> Result<Fns<T>, String> {
        let (id, _) = vm
            .run_expr::<OwnedFunction<fn(T) -> T>>("c11_id", "\\x -> x")
            .map_err(|err| format!("identity function at {}: {}", T::tname(), err))?;
        let src = e.script(&node.reb);
        let (reb, _) = vm
            .run_expr::<OwnedFunction<fn(T) -> T>>("c11_reb", &src)
            .map_err(|err| format!("rebuild function at {}: {}\n{}", T::tname(), err, src))?;
        let (reb_raw, _) = vm
            .run_expr::<OwnedFunction<fn(T) -> OpaqueValue<RootedThread, T>>>("c11_reb", &src)
            .map_err(|err| format!("rebuild function at {}: {}", T::tname(), err))?;
        let src = e.script(&node.obs);
        let (obs, _) = vm
            .run_expr::<OwnedFunction<fn(T) -> String>>("c11_obs", &src)
            .map_err(|err| format!("observer function at {}: {}\n{}", T::tname(), err, src))?;
        Ok(Fns { id, reb, reb_raw, obs })
    }));
    match r {
        Ok(x) => x,
        Err(p) => Err(format!("host panic compiling functions for {}: {}", T::tname(), panic_message(&p))),
    }
}

/// `Int 0` and the nullary tag 0 are both used for `()`: never told apart by Gluon code
fn img_eq(a: &W, b: &W) -> bool {
    match (a, b) {
        (W::Int(0), W::Data(0, fs)) | (W::Data(0, fs), W::Int(0)) if fs.is_empty() => true,
        (W::Float(x), W::Float(y)) => {
            x == y || (f64::from_bits(*x).is_nan() && f64::from_bits(*y).is_nan())
        }
        (W::Data(t, xs), W::Data(u, ys)) => {
            t == u && xs.len() == ys.len() && xs.iter().zip(ys).all(|(x, y)| img_eq(x, y))
        }
        (W::Array(xs), W::Array(ys)) => xs.len() == ys.len() && xs.iter().zip(ys).all(|(x, y)| img_eq(x, y)),
        _ => a == b,
    }
}

fn kind(w: &W) -> &'static str {
    match w {
        W::Int(_) => "Int",
        W::Byte(_) => "Byte",
        W::Float(_) => "Float",
        W::Str(_) => "String",
        W::Data(..) => "data",
        W::Array(_) => "array",
        _ => "other",
    }
}

/// Cause class of the first difference between the native image and the image `Ser` pushed
fn diff_sig(native: &W, ser: &W) -> String {
    match (native, ser) {
        (W::Data(t, xs), W::Data(u, ys)) if xs.len() == ys.len() => {
            match xs.iter().zip(ys).find(|(x, y)| !img_eq(x, y)) {
                Some((x, y)) => diff_sig(x, y),
                None if t != u => "constructor pushed with another constructor's tag".to_string(),
                None => "equal".into(),
            }
        }
        (W::Array(xs), W::Array(ys)) if xs.len() == ys.len() => {
            match xs.iter().zip(ys).find(|(x, y)| !img_eq(x, y)) {
                Some((x, y)) => diff_sig(x, y),
                None => "equal".into(),
            }
        }
        (W::Data(t, xs), y) if xs.len() == 1 && img_eq(&xs[0], y) => {
            format!("one-field constructor (tag {}) pushed as its bare payload", t)
        }
        (W::Data(..), W::Data(..)) => "data pushed as data of another shape".into(),
        (x, y) => format!("{} pushed as {}", kind(x), kind(y)),
    }
}

/// Cause class of a failure (groups the failing types of one route)
fn signature(detail: &str) -> String {
    if detail.starts_with('[') {
        if let Some(end) = detail.find(']') {
            return detail[1..end].to_string();
        }
    }
    if detail.starts_with("came back as") {
        return "value changed".into();
    }
    if detail.starts_with("Gluon observed") {
        return "observed differently".into();
    }
    if detail.starts_with("host panic") {
        return detail.to_string();
    }
    // drop quoted / backticked payloads and digits: they vary with the value
    let mut out = String::new();
    let mut quote: Option<char> = None;
    let mut escaped = false;
    for c in detail.chars() {
        match quote {
            Some(q) => {
                if escaped {
                    escaped = false;
                } else if c == '\\' {
                    escaped = true;
                } else if c == q {
                    quote = None;
                    out.push(c);
                }
            }
            None => {
                if c == '`' || c == '"' {
                    quote = Some(c);
                    out.push(c);
                } else if c.is_ascii_digit() {
                    if !out.ends_with('#') {
                        out.push('#');
                    }
                } else {
                    out.push(c);
                }
            }
        }
    }
    out.chars().take(90).collect()
}

/// structural image of the Gluon value a `Pushable` pushes (taken from the stack, nothing is rooted)
fn image<'vm, P: Pushable<'vm>>(vm: &'vm Thread, p: P) -> Result<W, String> {
    let mut ctx = vm.current_context();
    p.vm_push(&mut ctx).map_err(|e| e.to_string())?;
    let value = ctx.pop();
    Ok(walk(value.as_ref(), 60))
}

/// can values still be rooted and unrooted on this VM (a panic while the root list is locked poisons it)?
fn healthy(vm: &RootedThread) -> bool {
    catch_unwind(AssertUnwindSafe(|| {
        let r = 1i64.marshal::<&Thread>(vm);
        let ok = r.is_ok();
        drop(r);
        ok
    }))
    .unwrap_or(false)
}

fn short(s: &str, n: usize) -> String {
    if s.chars().count() <= n {
        s.to_string()
    } else {
        let t: String = s.chars().take(n).collect();
        format!("{}…", t)
    }
}

/// Runs one route on one value; `None` = property holds, `Some(detail)` = it does not.
/// The bool is true when a host panic was caught (the VM must then be discarded).
fn run_route<T: Subject>(vm: &RootedThread, fns: &mut Fns<T>, route: &str, v: &T) -> (Option<String>, bool)
where
    T::Type: Sized,
{
    let r = catch_unwind(AssertUnwindSafe(|| -> Option<String> {
        let back = |r: Result<T, String>| -> Option<String> {
            match r {
                Ok(b) => {
                    if v.same(&b) {
                        None
                    } else {
                        Some(format!("came back as {}", short(&format!("{:?}", b), 160)))
                    }
                }
                Err(e) => Some(format!("failed: {}", short(&e, 200))),
            }
        };
        match route {
            "R1" => back(api::convert::<T, T>(vm, v.clone()).map_err(|e| e.to_string())),
            "R2i" => back(fns.id.call(v.clone()).map_err(|e| e.to_string())),
            "R2r" => back(fns.reb.call(v.clone()).map_err(|e| e.to_string())),
            "R2o" => {
                if !v.observable() {
                    return None;
                }
                let mut want = String::new();
                v.fp(&mut want);
                match fns.obs.call(v.clone()) {
                    Ok(got) => {
                        if got == want {
                            None
                        } else {
                            Some(format!("Gluon observed {:?}, expected {:?}", short(&got, 120), short(&want, 120)))
                        }
                    }
                    Err(e) => Some(format!("failed: {}", short(&e.to_string(), 200))),
                }
            }
            "R1m" => {
                // `Pushable::marshal` roots the value; reading it back and dropping the root
                let rooted = match v.clone().marshal::<&Thread>(vm) {
                    Ok(x) => x,
                    Err(e) => return Some(format!("marshal failed: {}", e)),
                };
                let b = T::from_value(vm, rooted.get_variant());
                drop(rooted);
                back(Ok(b))
            }
            "R3w" | "R3" => {
                let wn = match image(vm, v.clone()) {
                    Ok(x) => x,
                    Err(e) => return Some(format!("native push failed: {}", e)),
                };
                let typ = T::make_type(vm);
                let mut ctx = vm.current_context();
                if let Err(e) = Ser(v.clone()).vm_push(&mut ctx) {
                    return Some(format!("Ser push failed: {}", short(&e.to_string(), 200)));
                }
                let value = ctx.pop();
                let ws = walk(value.as_ref(), 60);
                if !img_eq(&wn, &ws) {
                    if route == "R3w" {
                        return Some(format!(
                            "[{}] Ser pushed {} but the Gluon value of this type is {}",
                            diff_sig(&wn, &ws),
                            short(&ws.to_string(), 120),
                            short(&wn.to_string(), 120)
                        ));
                    }
                    // deserialising an ill-typed value is outside `de::from_value`'s contract
                    return Some(SKIP.to_string());
                }
                if route == "R3w" {
                    return None;
                }
                back(de::from_value::<T>(vm, (*value).clone(), &typ).map_err(|e| e.to_string()))
            }
            "R3x" => {
                // the literal serde round trip, whatever `Ser` pushed (child processes only)
                let typ = T::make_type(vm);
                let mut ctx = vm.current_context();
                if let Err(e) = Ser(v.clone()).vm_push(&mut ctx) {
                    return Some(format!("Ser push failed: {}", short(&e.to_string(), 200)));
                }
                let value = ctx.pop();
                back(de::from_value::<T>(vm, (*value).clone(), &typ).map_err(|e| e.to_string()))
            }
            "R3d" => {
                // a value built by Gluon code (the rebuild function) read through the serde bridge
                let typ = T::make_type(vm);
                let raw = match fns.reb_raw.call(v.clone()) {
                    Ok(x) => x,
                    Err(e) => return Some(format!("failed: {}", short(&e.to_string(), 200))),
                };
                let r = de::from_value::<T>(vm, raw.get_variant(), &typ).map_err(|e| e.to_string());
                drop(raw);
                back(r)
            }
            _ => Some(format!("unknown route {}", route)),
        }
    }));
    match r {
        Ok(x) => (x, false),
        Err(p) => (
            Some(format!("host panic: {} @ {}", short(&panic_message(&p), 160), vmkit::last_panic_loc())),
            true,
        ),
    }
}

/// marker returned by a route which does not apply to the value
const SKIP: &str = "\u{0}skip";

#[derive(Default, Clone)]
pub struct Failures {
    count: u64,
    /// smallest failing indices with details (at most 3)
    first: Vec<(usize, String)>,
}

#[derive(Default)]
pub struct Acc {
    values: u64,
    checks: u64,
    skipped: u64,
    nontrivial: u64,
    per_type: BTreeMap<String, (u64, u64)>,
    per_route: BTreeMap<String, u64>,
    /// (route, cause class) -> type index -> failures
    fails: BTreeMap<(String, String), BTreeMap<usize, Failures>>,
    machinery: Vec<String>,
}

pub struct Worker {
    vm: Option<RootedThread>,
    fns: HashMap<String, Box<dyn Any>>,
    /// (type index, route) pairs which killed the canary process: not run in-process
    disabled: std::sync::Arc<std::collections::BTreeSet<(usize, String)>>,
}

impl Worker {
    fn new(disabled: std::sync::Arc<std::collections::BTreeSet<(usize, String)>>) -> Worker {
        Worker { vm: None, fns: HashMap::new(), disabled }
    }
    /// after a host panic: the VM is discarded; when its root list is poisoned every destructor
    /// of a rooted value would panic, so it is leaked instead of dropped
    fn reset(&mut self) {
        let fns = std::mem::take(&mut self.fns);
        let vm = self.vm.take();
        let ok = vm.as_ref().map_or(true, healthy);
        if ok {
            let _ = catch_unwind(AssertUnwindSafe(move || {
                drop(fns);
                drop(vm);
            }));
        } else {
            std::mem::forget(fns);
            std::mem::forget(vm);
        }
    }
    fn vm(&mut self) -> Result<RootedThread, String> {
        if self.vm.is_none() {
            self.vm = Some(fresh_vm()?);
        }
        Ok(self.vm.clone().unwrap())
    }
}

fn run_range<T: Subject>(w: &mut Worker, acc: &mut Acc, ti: usize, d: u32, lo: usize, hi: usize)
where
    T::Type: Sized,
{
    let name = T::tname();
    for i in lo..hi {
        let v = T::nth(d, i);
        acc.values += 1;
        if v.edgy() {
            acc.nontrivial += 1;
        }
        acc.per_type.entry(name.clone()).or_insert((0, 0)).0 += 1;
        for route in ROUTES {
            if !route_enabled(route) || w.disabled.contains(&(ti, route.to_string())) {
                continue;
            }
            // (re)acquire the VM and the compiled functions: both are discarded after a host panic
            let vm = match w.vm() {
                Ok(v) => v,
                Err(e) => {
                    acc.machinery.push(e);
                    return;
                }
            };
            if !w.fns.contains_key(&name) {
                match compile::<T>(&vm) {
                    Ok(f) => {
                        w.fns.insert(name.clone(), Box::new(f));
                    }
                    Err(e) => {
                        acc.machinery.push(e);
                        return;
                    }
                }
            }
            let fns = w.fns.get_mut(&name).unwrap().downcast_mut::<Fns<T>>().unwrap();
            let (res, panicked) = run_route(&vm, fns, route, &v);
            drop(vm);
            if panicked {
                // a panic may have left the VM in an arbitrary state
                w.reset();
            }
            if res.as_deref() == Some(SKIP) {
                acc.skipped += 1;
                continue;
            }
            acc.checks += 1;
            *acc.per_route.entry(route.to_string()).or_insert(0) += 1;
            acc.per_type.get_mut(&name).unwrap().1 += 1;
            if let Some(detail) = res {
                let f = acc
                    .fails
                    .entry((route.to_string(), signature(&detail)))
                    .or_default()
                    .entry(ti)
                    .or_default();
                f.count += 1;
                f.first.push((i, detail));
                f.first.sort();
                f.first.truncate(3);
            }
        }
    }
}

/// one value, one route, on a fresh VM
fn confirm<T: Subject>(d: u32, i: usize, route: &str) -> Result<Option<String>, String>
where
    T::Type: Sized,
{
    let vm = fresh_vm()?;
    let mut fns = compile::<T>(&vm)?;
    let v = T::nth(d, i);
    let (res, panicked) = run_route(&vm, &mut fns, route, &v);
    if panicked && !healthy(&vm) {
        std::mem::forget(fns);
        std::mem::forget(vm);
    }
    Ok(res.filter(|r| r != SKIP))
}

/// Child-process side: runs the given routes on the given values of one type, announcing each
/// step on stdout so that the parent can tell which one killed the process. After a caught host
/// panic the VM is leaked and replaced.
fn canary_child<T: Subject>(vm_slot: &mut Option<RootedThread>, d: u32, indices: &[usize], routes: &[String])
where
    T::Type: Sized,
{
    use std::io::Write;
    let mut fns: Option<Fns<T>> = None;
    for &i in indices {
        if i >= T::count(d) {
            continue;
        }
        let v = T::nth(d, i);
        for route in routes {
            if vm_slot.is_none() {
                match fresh_vm() {
                    Ok(x) => *vm_slot = Some(x),
                    Err(e) => {
                        println!("CANARY-MACHINERY {}", e.replace('\n', " "));
                        return;
                    }
                }
            }
            let vm = vm_slot.clone().unwrap();
            if fns.is_none() {
                match compile::<T>(&vm) {
                    Ok(x) => fns = Some(x),
                    Err(e) => {
                        println!("CANARY-MACHINERY {}", e.replace('\n', " "));
                        return;
                    }
                }
            }
            println!("CANARY-START {} {} {}", route, i, T::tname());
            let _ = std::io::stdout().flush();
            let (res, panicked) = run_route(&vm, fns.as_mut().unwrap(), route, &v);
            match res {
                None => println!("CANARY-END {} {} ok", route, i),
                Some(ref r) if r == SKIP => println!("CANARY-END {} {} skip", route, i),
                Some(ref r) => println!("CANARY-END {} {} fail {}", route, i, r.replace('\n', " ")),
            }
            let _ = std::io::stdout().flush();
            if panicked {
                std::mem::forget(fns.take());
                std::mem::forget(vm_slot.take());
                std::mem::forget(vm);
            }
        }
    }
    if let Some(f) = fns {
        if vm_slot.as_ref().map_or(false, healthy) {
            drop(f);
        } else {
            std::mem::forget(f);
        }
    }
}

pub struct CanaryItem {
    ti: usize,
    indices: Vec<usize>,
    routes: Vec<String>,
}

pub struct CanaryDeath {
    ti: usize,
    route: String,
    index: usize,
    how: String,
}

/// what a canary child reported: finished types, (type, route, index, failure detail or None)
/// for every finished step, and what killed it
#[derive(Default)]
pub struct CanaryOut {
    done: Vec<usize>,
    steps: Vec<(usize, String, usize, Option<String>)>,
    death: Option<CanaryDeath>,
}

/// routes which only ever run in a child process
pub const CHILD_ROUTES: [&str; 1] = ["R3x"];

/// Parent side: runs one child over `items`; returns the types it finished and what killed it
fn canary(tier: &str, fam: &[TypeEntry], d: u32, items: &[CanaryItem]) -> Result<CanaryOut, String> {
    static N: std::sync::atomic::AtomicUsize = std::sync::atomic::AtomicUsize::new(0);
    let n = N.fetch_add(1, std::sync::atomic::Ordering::Relaxed);
    let path = std::env::temp_dir().join(format!("c11_canary_{}_{}.json", std::process::id(), n));
    let body = json!({"replay": {"part": "canary", "depth": d, "items": items.iter().map(|it| json!({
        "type": fam[it.ti].name, "indices": it.indices, "routes": it.routes})).collect::<Vec<_>>()}});
    std::fs::write(&path, body.to_string()).map_err(|e| format!("canary file: {}", e))?;
    let exe = std::env::current_exe().map_err(|e| format!("current_exe: {}", e))?;
    let out = std::process::Command::new(exe)
        .args(["C11", tier, "--replay"])
        .arg(&path)
        .output()
        .map_err(|e| format!("spawn canary: {}", e));
    let _ = std::fs::remove_file(&path);
    let out = out?;
    let stdout = String::from_utf8_lossy(&out.stdout).to_string();
    let stderr = String::from_utf8_lossy(&out.stderr).to_string();
    if let Some(l) = stdout.lines().find(|l| l.starts_with("CANARY-MACHINERY")) {
        return Err(format!("canary: {}", l));
    }
    let mut res = CanaryOut::default();
    let mut open: Option<(String, usize, String)> = None;
    for l in stdout.lines() {
        let parts: Vec<&str> = l.splitn(4, ' ').collect();
        if parts.len() == 4 && parts[0] == "CANARY-START" {
            open = Some((parts[1].to_string(), parts[2].parse().unwrap_or(0), parts[3].to_string()));
        } else if parts[0] == "CANARY-END" {
            if let Some((route, index, name)) = open.take() {
                if let Some(it) = items.iter().find(|it| fam[it.ti].name == name) {
                    let verdict = parts.get(3).cloned().unwrap_or("");
                    let detail = if verdict.starts_with("fail ") { Some(verdict[5..].to_string()) } else { None };
                    if !verdict.starts_with("skip") {
                        res.steps.push((it.ti, route, index, detail));
                    }
                }
            }
        } else if parts[0] == "CANARY-TYPE-DONE" {
            let name = l["CANARY-TYPE-DONE ".len()..].to_string();
            if let Some(it) = items.iter().find(|it| fam[it.ti].name == name) {
                res.done.push(it.ti);
            }
        }
    }
    if stdout.lines().any(|l| l == "CANARY-DONE") {
        return Ok(res);
    }
    // died: the step which was started and never ended
    match open {
        Some((route, index, name)) => {
            let why = stderr
                .lines()
                .find(|l| l.contains("overflowed its stack") || l.contains("non-unwinding") || l.contains("fatal runtime error"))
                .unwrap_or("")
                .trim()
                .to_string();
            let why = if why.contains("overflowed its stack") {
                "stack overflow".to_string()
            } else if why.is_empty() {
                format!("{}", out.status)
            } else {
                why
            };
            match items.iter().find(|it| fam[it.ti].name == name) {
                Some(it) => {
                    res.death = Some(CanaryDeath { ti: it.ti, route, index, how: why });
                    Ok(res)
                }
                None => Err(format!("canary died in unknown type {}", name)),
            }
        }
        None => Err(format!(
            "canary ended without CANARY-DONE ({}): {}",
            out.status,
            short(&stderr.replace('\n', " | "), 300)
        )),
    }
}

/// Runs canaries until every item is finished or dead on every route; returns the deaths and
/// the finished steps of the child-only routes
#[allow(clippy::type_complexity)]
fn canary_batch(
    tier: &str,
    fam: &[TypeEntry],
    d: u32,
    mut items: Vec<CanaryItem>,
) -> Result<(Vec<CanaryDeath>, Vec<(usize, String, usize, Option<String>)>), String> {
    let mut deaths = Vec::new();
    let mut steps = Vec::new();
    let mut rounds = 0;
    while !items.is_empty() {
        rounds += 1;
        if rounds > 200 {
            return Err("canary batch does not terminate".into());
        }
        let out = canary(tier, fam, d, &items)?;
        let progressed = !out.done.is_empty() || out.death.is_some();
        // steps of a type count once: when the type finished, or up to the death for the dead route
        for (ti, route, index, detail) in out.steps {
            let finished = out.done.contains(&ti);
            let dead_here = out.death.as_ref().map_or(false, |dth| dth.ti == ti && dth.route == route);
            if CHILD_ROUTES.contains(&route.as_str()) && (finished || dead_here) {
                steps.push((ti, route, index, detail));
            }
        }
        items.retain(|it| !out.done.contains(&it.ti));
        if let Some(death) = out.death {
            for it in items.iter_mut() {
                if it.ti == death.ti {
                    it.routes.retain(|r| *r != death.route);
                }
            }
            items.retain(|it| !it.routes.is_empty());
            deaths.push(death);
        } else if !items.is_empty() && !progressed {
            return Err("canary made no progress".into());
        }
    }
    Ok((deaths, steps))
}

/// one value, one route, in a child process
fn confirm_in_child(tier: &str, fam: &[TypeEntry], d: u32, ti: usize, i: usize, route: &str) -> Result<Option<String>, String> {
    let out = canary(tier, fam, d, &[CanaryItem { ti, indices: vec![i], routes: vec![route.to_string()] }])?;
    if let Some(death) = out.death {
        return Ok(Some(format!("the process died ({})", death.how)));
    }
    Ok(out.steps.into_iter().find(|(t, r, idx, _)| *t == ti && r == route && *idx == i).and_then(|x| x.3))
}

fn render<T: Subject>(d: u32, i: usize) -> String {
    format!("{:?}", T::nth(d, i))
}

pub struct TypeEntry {
    pub name: String,
    pub components: Vec<String>,
    pub count: fn(u32) -> usize,
    run: fn(&mut Worker, &mut Acc, usize, u32, usize, usize),
    canary: fn(&mut Option<RootedThread>, u32, &[usize], &[String]),
    confirm: fn(u32, usize, &str) -> Result<Option<String>, String>,
    render: fn(u32, usize) -> String,
}

fn entry<T: Subject>() -> TypeEntry
where
    T::Type: Sized,
{
    let mut components = Vec::new();
    T::components(&mut components);
    components.sort();
    components.dedup();
    TypeEntry {
        name: T::tname(),
        components,
        count: T::count,
        run: run_range::<T>,
        canary: canary_child::<T>,
        confirm: confirm::<T>,
        render: render::<T>,
    }
}

macro_rules! family {
    ($($t:ty),* $(,)?) => { vec![ $( entry::<$t>() ),* ] };
}

pub fn family() -> Vec<TypeEntry> {
    family![
        // scalars
        i16,
        i32,
        i64,
        isize,
        u8,
        u16,
        u32,
        u64,
        usize,
        f32,
        f64,
        bool,
        char,
        String,
        (),
        // options and results
        Option<i64>,
        Option<String>,
        Option<Option<u8>>,
        Option<Vec<f64>>,
        Result<i32, String>,
        Result<Option<f64>, Vec<u8>>,
        Result<(), char>,
        // vectors (every array representation: byte, int, float, string, array, boxed, empty)
        Vec<i64>,
        Vec<u8>,
        Vec<f64>,
        Vec<f32>,
        Vec<String>,
        Vec<bool>,
        Vec<char>,
        Vec<()>,
        Vec<Option<i64>>,
        Vec<Vec<u8>>,
        Vec<Vec<String>>,
        Vec<(i64, String)>,
        Vec<Result<u64, String>>,
        // tuples
        (i64, String),
        (f64, bool, char),
        (Option<u8>, Vec<i32>),
        ((i16, u16), (u32, isize)),
        (String, (), Vec<()>),
        // maps
        BTreeMap<String, i64>,
        BTreeMap<String, Vec<String>>,
        BTreeMap<String, Option<f64>>,
        Vec<BTreeMap<String, u8>>,
        Option<BTreeMap<String, (i64, bool)>>,
        // derived structs and enums
        Named,
        Reord,
        Gen<Vec<i64>>,
        Gen<Option<String>>,
        Unit3,
        Mixed,
        Zero,
        Either<i64, String>,
        Either<Vec<u8>, Option<f64>>,
        Outer,
        Vec<Mixed>,
        Vec<Unit3>,
        Option<Named>,
        BTreeMap<String, Mixed>,
        (Reord, Zero),
    ]
}

// ---------------------------------------------------------------------------------------------
// Type-faithfulness matrix

/// Gluon module with one global per Gluon type; every binding is annotated (monomorphic)
const GLOBALS_SRC: &str = "let { Named, Reord, Gen, Unit3, Mixed, Either, Outer, Zero } = import! c11t
let map @ { Map } = import! std.map
let { Result } = import! std.types
let string = import! std.string
let g_int : Int = 7
let g_byte : Byte = 7b
let g_float : Float = 7.5
let g_string : String = \"seven\"
let g_char : Char = 'x'
let g_bool : Bool = True
let g_unit : () = ()
let g_opt_int : Option Int = Some 7
let g_opt_string : Option String = Some \"s\"
let g_arr_int : Array Int = [1, 2, 3]
let g_arr_byte : Array Byte = [1b, 2b]
let g_arr_string : Array String = [\"a\", \"b\"]
let g_arr_arr_byte : Array (Array Byte) = [[1b], []]
let g_tuple : (Int, String) = (7, \"s\")
let g_tuple3 : (Float, Bool, Char) = (1.5, False, 'c')
let g_result : Result String Int = Ok 7
let g_map : Map String Int = map.insert ?string.ord \"k\" 7 map.empty
let g_named : Named = { name = \"n\", age = 3, score = 1.5 }
let g_named_structural : { name : String, age : Int, score : Float } = { name = \"n\", age = 3, score = 1.5 }
let g_reord : Reord = { z = 9, a = \"s\", m = Some 5b }
let g_reord_abc : { a : String, m : Option Byte, z : Int } = { a = \"s\", m = Some 5b, z = 9 }
let g_unit3 : Unit3 = UC
let g_mixed : Mixed = MRec { id = 4b, tag = None }
let g_zero : Zero = ZC 3
let g_either : Either Int String = ERight \"r\"
let g_gen : Gen (Array Int) = { generic = [1], other = 2 }
{
    g_int,
    g_byte,
    g_float,
    g_string,
    g_char,
    g_bool,
    g_unit,
    g_opt_int,
    g_opt_string,
    g_arr_int,
    g_arr_byte,
    g_arr_string,
    g_arr_arr_byte,
    g_tuple,
    g_tuple3,
    g_result,
    g_map,
    g_named,
    g_named_structural,
    g_reord,
    g_reord_abc,
    g_unit3,
    g_mixed,
    g_zero,
    g_either,
    g_gen,
}
";

/// (global, canonical Gluon type, expected fingerprint when read at a matching Rust type)
const GLOBALS: [(&str, &str, &str); 26] = [
    ("g_int", "Int", "7"),
    ("g_byte", "Byte", "7b"),
    ("g_float", "Float", "p"),
    ("g_string", "String", "<seven>"),
    ("g_char", "Char", "c120"),
    ("g_bool", "Bool", "T"),
    ("g_unit", "()", "u"),
    ("g_opt_int", "Option Int", "S(7)"),
    ("g_opt_string", "Option String", "S(<s>)"),
    ("g_arr_int", "Array Int", "[1,2,3,"),
    ("g_arr_byte", "Array Byte", "[1b,2b,"),
    ("g_arr_string", "Array String", "[<a>,<b>,"),
    ("g_arr_arr_byte", "Array (Array Byte)", "[[1b,,[,"),
    ("g_tuple", "(Int, String)", "(7,<s>,)"),
    ("g_tuple3", "(Float, Bool, Char)", "(p,F,c99,)"),
    ("g_result", "Result String Int", "O(7)"),
    ("g_map", "Map String Int", "{k=7;"),
    ("g_named", "Named", "{<n>;3;p}"),
    ("g_named_structural", "Named", "{<n>;3;p}"),
    ("g_reord", "Reord", "{<s>;S(5b);9}"),
    ("g_reord_abc", "Reord-abc", "{<s>;S(5b);9}"),
    ("g_unit3", "Unit3", "UC"),
    ("g_mixed", "Mixed", "MRec(4b,N)"),
    ("g_zero", "Zero", "ZC(3)"),
    ("g_either", "Either Int String", "R(<r>)"),
    ("g_gen", "Gen (Array Int)", "{[1,;2}"),
];

#[derive(Debug, Clone, PartialEq)]
enum Got {
    Value(String),
    Refused(String),
    Panicked(String),
}

fn request<T: Subject>(vm: &RootedThread, global: &str, via_expr: bool) -> Got
where
    T::Type: Sized,
{
    let r = catch_unwind(AssertUnwindSafe(|| {
        let r: Result<T, String> = if via_expr {
            vm.run_expr::<T>("c11_req", &format!("let m = import! c11g\nm.{}", global))
                .map(|x| x.0)
                .map_err(|e| vmkit::first_line(&e.to_string()))
        } else {
            vm.get_global::<T>(&format!("c11g.{}", global))
                .map_err(|e| vmkit::first_line(&e.to_string()))
        };
        r.map(|v| {
            let mut s = String::new();
            v.fp(&mut s);
            s
        })
    }));
    match r {
        Ok(Ok(s)) => Got::Value(s),
        Ok(Err(e)) => Got::Refused(e),
        Err(p) => Got::Panicked(format!("{} @ {}", panic_message(&p), vmkit::last_panic_loc())),
    }
}

struct Req {
    rust: String,
    gluon: &'static str,
    f: fn(&RootedThread, &str, bool) -> Got,
}

fn req<T: Subject>(gluon: &'static str) -> Req
where
    T::Type: Sized,
{
    Req { rust: T::tname(), gluon, f: request::<T> }
}

fn requests() -> Vec<Req> {
    vec![
        req::<i64>("Int"),
        req::<u32>("Int"),
        req::<u8>("Byte"),
        req::<f64>("Float"),
        req::<f32>("Float"),
        req::<String>("String"),
        req::<char>("Char"),
        req::<bool>("Bool"),
        req::<()>("()"),
        req::<Option<i64>>("Option Int"),
        req::<Option<String>>("Option String"),
        req::<Vec<i64>>("Array Int"),
        req::<Vec<u8>>("Array Byte"),
        req::<Vec<String>>("Array String"),
        req::<Vec<Vec<u8>>>("Array (Array Byte)"),
        req::<(i64, String)>("(Int, String)"),
        req::<(f64, bool, char)>("(Float, Bool, Char)"),
        req::<Result<i64, String>>("Result String Int"),
        req::<BTreeMap<String, i64>>("Map String Int"),
        req::<Named>("Named"),
        req::<Reord>("Reord"),
        req::<Unit3>("Unit3"),
        req::<Mixed>("Mixed"),
        req::<Zero>("Zero"),
        req::<Either<i64, String>>("Either Int String"),
        req::<Gen<Vec<i64>>>("Gen (Array Int)"),
    ]
}

fn matrix_vm() -> Result<RootedThread, String> {
    let vm = fresh_vm()?;
    vm.load_script("c11g", GLOBALS_SRC).map_err(|e| format!("c11g: {}", e))?;
    Ok(vm)
}

/// `None` = as expected
fn matrix_cell(vm: &RootedThread, g: &(&str, &str, &str), r: &Req, via_expr: bool) -> (Got, Option<String>) {
    let got = (r.f)(vm, g.0, via_expr);
    let matching = g.1 == r.gluon;
    // the same record type with the fields listed in another order: refusing it or reading it by
    // field name are both faithful
    let either_way = g.1 == "Reord-abc" && r.gluon == "Reord";
    let bad = match &got {
        Got::Value(s) => {
            if matching || either_way {
                if s == g.2 { None } else { Some(format!("value read as {:?}, expected {:?}", s, g.2)) }
            } else {
                Some(format!(
                    "a global of Gluon type `{}` was handed out as Rust `{}` (Gluon `{}`): {:?}",
                    g.1, r.rust, r.gluon, s
                ))
            }
        }
        Got::Refused(e) => {
            if matching {
                Some(format!("request at the matching type was refused: {}", e))
            } else {
                None
            }
        }
        Got::Panicked(p) => Some(format!("host panic instead of a result: {}", p)),
    };
    (got, bad)
}

fn function_requests(vm: &RootedThread) -> Vec<(String, bool, Result<String, String>)> {
    // (label, should succeed, outcome)
    let mut out = Vec::new();
    macro_rules! freq {
        ($label:expr, $should:expr, $f:ty, |$g:ident| $call:expr) => {{
            let r = catch_unwind(AssertUnwindSafe(|| -> Result<String, String> {
                let mut $g: OwnedFunction<$f> =
                    vm.get_global("c11f.f").map_err(|e| vmkit::first_line(&e.to_string()))?;
                $call
            }));
            let r = match r {
                Ok(x) => x,
                Err(p) => Err(format!("PANIC {}", panic_message(&p))),
            };
            out.push(($label.to_string(), $should, r));
        }};
    }
    freq!("fn(i64,String)->Option<i64>", true, fn(i64, String) -> Option<i64>, |g| g
        .call(3, "x".to_string())
        .map(|r| format!("{:?}", r))
        .map_err(|e| format!("CALL {}", e)));
    freq!("fn(i64)->Option<i64>", false, fn(i64) -> Option<i64>, |g| g
        .call(3)
        .map(|r| format!("{:?}", r))
        .map_err(|e| format!("CALL {}", e)));
    freq!("fn(String,i64)->Option<i64>", false, fn(String, i64) -> Option<i64>, |g| g
        .call("x".to_string(), 3)
        .map(|r| format!("{:?}", r))
        .map_err(|e| format!("CALL {}", e)));
    freq!("fn(i64,String)->i64", false, fn(i64, String) -> i64, |g| g
        .call(3, "x".to_string())
        .map(|r| format!("{:?}", r))
        .map_err(|e| format!("CALL {}", e)));
    freq!("fn(i64,String)->Option<String>", false, fn(i64, String) -> Option<String>, |g| g
        .call(3, "x".to_string())
        .map(|r| format!("{:?}", r))
        .map_err(|e| format!("CALL {}", e)));
    freq!("fn(u8,String)->Option<i64>", false, fn(u8, String) -> Option<i64>, |g| g
        .call(3, "x".to_string())
        .map(|r| format!("{:?}", r))
        .map_err(|e| format!("CALL {}", e)));
    freq!("fn(i64,String,i64)->Option<i64>", false, fn(i64, String, i64) -> Option<i64>, |g| g
        .call(3, "x".to_string(), 1)
        .map(|r| format!("{:?}", r))
        .map_err(|e| format!("CALL {}", e)));
    out
}

const FUNCTION_SRC: &str = "let string = import! std.string
let f x s : Int -> String -> Option Int = if string.len s #Int== 1 then Some x else None
{ f }
";

fn run_matrix(report: &mut Report) -> (u64, u64) {
    let mut cells = 0u64;
    let mut nontrivial = 0u64;
    let vm = match matrix_vm() {
        Ok(v) => v,
        Err(e) => {
            report.machinery(format!("matrix: {}", e));
            return (0, 0);
        }
    };
    let reqs = requests();
    let mut accepted = 0u64;
    let mut refused = 0u64;
    for via_expr in [false, true] {
        let how = if via_expr { "run_expr" } else { "get_global" };
        for g in GLOBALS.iter() {
            for r in &reqs {
                cells += 1;
                let (got, bad) = matrix_cell(&vm, g, r, via_expr);
                match got {
                    Got::Value(_) => accepted += 1,
                    _ => refused += 1,
                }
                if g.1 != r.gluon {
                    nontrivial += 1;
                }
                if let Some(first) = bad {
                    // reproduce on a fresh VM
                    let again = matrix_vm().ok().and_then(|vm2| matrix_cell(&vm2, g, r, via_expr).1);
                    if let Some(second) = again {
                        report.violation(
                            format!("c11:{}:{}:{}", how, r.rust, g.0),
                            format!("{}::<{}>(c11g.{}): {}", how, r.rust, g.0, second),
                            json!({"engine": "c11", "part": "matrix", "how": how, "rust": r.rust, "global": g.0}),
                        );
                    } else {
                        report.add("unconfirmed_failures", 1);
                        report.sample(json!({"unconfirmed": format!("{} {} {}: {}", how, r.rust, g.0, first)}));
                    }
                }
            }
        }
    }
    report.set("matrix.cells", cells);
    report.set("matrix.accepted", accepted);
    report.set("matrix.refused", refused);
    report.set("matrix.globals", GLOBALS.len() as u64);
    report.set("matrix.requested_rust_types", reqs.len() as u64);
    // functions
    match vm.load_script("c11f", FUNCTION_SRC) {
        Err(e) => report.machinery(format!("c11f: {}", e)),
        Ok(()) => {
            for (label, should, r) in function_requests(&vm) {
                cells += 1;
                nontrivial += 1;
                let bad = match (&r, should) {
                    (Ok(s), true) => {
                        if s == "Some(3)" { None } else { Some(format!("call returned {}", s)) }
                    }
                    (Ok(s), false) => Some(format!("mismatched function type accepted, call returned {}", s)),
                    (Err(e), true) => Some(format!("matching function type refused: {}", e)),
                    (Err(e), false) => {
                        if e.starts_with("PANIC") || e.starts_with("CALL") {
                            Some(format!("mismatched function type accepted, then {}", e))
                        } else {
                            None
                        }
                    }
                };
                if let Some(b) = bad {
                    report.violation(
                        format!("c11:get_global:{}:c11f.f", label),
                        format!("get_global::<{}>(c11f.f : Int -> String -> Option Int): {}", label, b),
                        json!({"engine": "c11", "part": "function", "label": label}),
                    );
                }
            }
        }
    }
    (cells, nontrivial)
}

// ---------------------------------------------------------------------------------------------

/// outermost type constructor of a family type name
fn head_of(name: &str) -> String {
    if name.starts_with('(') && name != "()" {
        "tuple".to_string()
    } else {
        name.split('<').next().unwrap_or(name).to_string()
    }
}

/// debugging aid: VERIF_C11_ROUTES=R1,R3d restricts the routes
fn route_enabled(route: &str) -> bool {
    match std::env::var("VERIF_C11_ROUTES") {
        Ok(s) => s.split(',').any(|r| r == route),
        Err(_) => true,
    }
}

fn depth_for(tier: &str) -> u32 {
    std::env::var("VERIF_C11_DEPTH")
        .ok()
        .and_then(|s| s.parse().ok())
        .unwrap_or(if tier == "quick" { 2 } else { 3 })
}

pub fn run(tier: &str) -> Report {
    let mut report = Report::new("C11", tier, "exploration");
    let d = depth_for(tier);
    let deadline = par::deadline_for(tier, 28, 1400);
    let fam = family();

    let (mcells, mnontrivial) = run_matrix(&mut report);
    report.set("phase_s.matrix_done", report.elapsed());

    // job list: (type, lo, hi), biggest types first is not needed: chunks are small
    const CHUNK: usize = 512;
    let mut jobs: Vec<(usize, usize, usize)> = Vec::new();
    let mut total_space = 0u64;
    let mut sizes = BTreeMap::new();
    let only = std::env::var("VERIF_C11_TYPE").ok();
    for (ti, t) in fam.iter().enumerate() {
        if only.as_ref().map_or(false, |o| *o != t.name) {
            continue;
        }
        let n = (t.count)(d);
        total_space += n as u64;
        sizes.insert(t.name.clone(), n as u64);
        let mut lo = 0;
        while lo < n {
            let hi = (lo + CHUNK).min(n);
            jobs.push((ti, lo, hi));
            lo = hi;
        }
    }
    // chunk k of every type before chunk k+1 of any: a wall cap then cuts all large types evenly
    jobs.sort_by_key(|(ti, lo, _)| (*lo, *ti));
    let fam_ref = &fam;
    let jobs_ref = &jobs;

    // Canary pass: a few values of every type through every route in a child process, because
    // unbounded recursion in the subject kills the process. Whatever kills the canary is
    // recorded as a failure of that (type, route) and not run in-process.
    let enabled: Vec<String> = ROUTES.iter().filter(|r| route_enabled(r)).map(|r| r.to_string()).collect();
    let enabled_ref = &enabled;
    let only_ref = &only;
    let n_batches = par::n_workers().max(1);
    let canaries = par::sweep(
        n_batches,
        1,
        Some(deadline),
        |_| (),
        |_, acc: &mut Vec<Result<(usize, (Vec<CanaryDeath>, Vec<(usize, String, usize, Option<String>)>)), String>>, b| {
            let mut items = Vec::new();
            for (ti, t) in fam_ref.iter().enumerate() {
                if ti % n_batches != b || only_ref.as_ref().map_or(false, |o| *o != t.name) {
                    continue;
                }
                let n = (t.count)(d);
                let mut indices: Vec<usize> = (0..5).chain((0..32).map(|k| k * n / 32)).chain(Some(n - 1)).collect();
                indices.retain(|i| *i < n);
                indices.sort();
                indices.dedup();
                let mut routes = enabled_ref.clone();
                // child-only routes: on the scalars and on the first type of every outermost
                // constructor (every death costs another child process)
                let h = head_of(&t.name);
                if !fam_ref[..ti].iter().any(|u| head_of(&u.name) == h) {
                    routes.extend(CHILD_ROUTES.iter().filter(|r| route_enabled(r)).map(|r| r.to_string()));
                }
                items.push(CanaryItem { ti, indices, routes });
            }
            let n_items = items.len();
            acc.push(canary_batch(tier, fam_ref, d, items).map(|deaths| (n_items, deaths)));
        },
    );
    let mut disabled = std::collections::BTreeSet::new();
    let mut total = Acc::default();
    let mut canaries_run = 0u64;
    for r in canaries.results.into_iter().flatten() {
        match r {
            Err(e) => total.machinery.push(e),
            Ok((n_items, (deaths, steps))) => {
                canaries_run += n_items as u64;
                for (ti, route, index, detail) in steps {
                    total.checks += 1;
                    *total.per_route.entry(route.clone()).or_insert(0) += 1;
                    if let Some(detail) = detail {
                        let f = total.fails.entry((route, signature(&detail))).or_default().entry(ti).or_default();
                        f.count += 1;
                        f.first.push((index, detail));
                        f.first.sort();
                        f.first.truncate(3);
                    }
                }
                for death in deaths {
                    disabled.insert((death.ti, death.route.clone()));
                    let f = total
                        .fails
                        .entry((death.route.clone(), format!("process aborted: {}", death.how)))
                        .or_default()
                        .entry(death.ti)
                        .or_default();
                    f.count += 1;
                    f.first.push((death.index, format!("the process died ({})", death.how)));
                }
            }
        }
    }
    report.set("canary_processes_types", canaries_run);
    report.set("phase_s.canaries_done", report.elapsed());
    report.set(
        "routes_not_run_in_process",
        json!(disabled.iter().map(|(ti, r)| format!("{} {}", r, fam[*ti].name)).collect::<Vec<_>>()),
    );
    let disabled = std::sync::Arc::new(disabled);
    let sweep = par::sweep(
        jobs.len(),
        1,
        Some(deadline),
        |_| Worker::new(disabled.clone()),
        |w, acc: &mut Acc, j| {
            let (ti, lo, hi) = jobs_ref[j];
            (fam_ref[ti].run)(w, acc, ti, d, lo, hi);
        },
    );
    let capped = sweep.capped || canaries.capped;
    report.set("phase_s.sweep_done", report.elapsed());
    for a in sweep.results {
        total.values += a.values;
        total.checks += a.checks;
        total.skipped += a.skipped;
        total.nontrivial += a.nontrivial;
        for (k, v) in a.per_type {
            let e = total.per_type.entry(k).or_insert((0, 0));
            e.0 += v.0;
            e.1 += v.1;
        }
        for (k, v) in a.per_route {
            *total.per_route.entry(k).or_insert(0) += v;
        }
        for (k, per_ti) in a.fails {
            for (ti, f) in per_ti {
                let e = total.fails.entry(k.clone()).or_default().entry(ti).or_default();
                e.count += f.count;
                e.first.extend(f.first);
                e.first.sort();
                e.first.truncate(3);
            }
        }
        total.machinery.extend(a.machinery);
    }
    total.machinery.sort();
    total.machinery.dedup();
    for m in total.machinery.iter().take(6) {
        report.machinery(m.clone());
    }

    // Failures are grouped by (route, cause class). For each group the first type of the family
    // showing it is reported: its smallest failing value is confirmed on a fresh VM.
    let mut failing_total = 0u64;
    let mut groups = Vec::new();
    // the serde-bridge image check is compositional: a type whose component type already fails
    // it is explained by that component and not reported on its own
    let mut failing_on: BTreeMap<String, std::collections::BTreeSet<usize>> = BTreeMap::new();
    for ((route, _), per_ti) in &total.fails {
        failing_on.entry(route.clone()).or_default().extend(per_ti.keys().cloned());
    }
    let head = head_of;
    // serde routes only: explained by a failing component type, or by an earlier type of the
    // family with the same outermost constructor
    let explained = |route: &str, ti: usize| -> bool {
        if !route.starts_with("R3") {
            return false;
        }
        let failing = match failing_on.get(route) {
            Some(f) => f,
            None => return false,
        };
        let comp_heads: std::collections::BTreeSet<String> = fam[ti].components.iter().map(|c| head(c)).collect();
        failing.iter().any(|tj| {
            let hj = head(&fam[*tj].name);
            *tj != ti && (comp_heads.contains(&hj) || (*tj < ti && hj == head(&fam[ti].name)))
        })
    };
    for ((route, sig), per_ti) in &total.fails {
        let all: u64 = per_ti.values().map(|f| f.count).sum();
        failing_total += all;
        let per_ti: Vec<(&usize, &Failures)> = per_ti
            .iter()
            .filter(|(ti, _)| !explained(route, **ti))
            .collect();
        groups.push(json!({"route": route, "cause": sig, "failing_values": all,
            "types_not_explained_by_a_component": per_ti.iter().map(|(ti, _)| fam[**ti].name.clone()).collect::<Vec<_>>()}));
        // one report per outermost type constructor among the unexplained types
        let mut parts: Vec<(String, Vec<(&usize, &Failures)>)> = Vec::new();
        for (ti, f) in per_ti {
            let h = head(&fam[*ti].name);
            match parts.iter_mut().find(|(ph, _)| *ph == h) {
                Some((_, v)) => v.push((ti, f)),
                None => parts.push((h, vec![(ti, f)])),
            }
        }
        for (_, per_ti) in parts {
            let others: Vec<String> = per_ti.iter().skip(1).map(|(ti, _)| fam[**ti].name.clone()).collect();
            let (ti, f) = per_ti[0];
            let t = &fam[*ti];
            for (i, first_detail) in &f.first {
                let in_child = sig.starts_with("process aborted") || CHILD_ROUTES.contains(&route.as_str());
            let again = if in_child {
                confirm_in_child(tier, &fam, d, *ti, *i, route)
            } else {
                (t.confirm)(d, *i, route)
            };
            match again {
                    Ok(Some(detail)) => {
                        let val = (t.render)(d, *i);
                        let also = if others.is_empty() {
                            String::new()
                        } else {
                            format!("; same cause in {} more types: {}", others.len(), short(&others.join(" "), 300))
                        };
                        report.violation(
                            format!("c11:{}:{}:{}", route, t.name, short(&val, 80)),
                            format!(
                                "{} of {} = {} {} ({} of {} values of this type fail this way{})",
                                route,
                                t.name,
                                short(&val, 160),
                                detail,
                                f.count,
                                total.per_type.get(&t.name).map(|x| x.0).unwrap_or(0),
                                also
                            ),
                            json!({"engine": "c11", "part": "value", "type": t.name, "route": route, "depth": d, "index": i,
                                   "child": in_child}),
                        );
                        break;
                    }
                    Ok(None) => {
                        report.add("unconfirmed_failures", 1);
                        report.sample(json!({"unconfirmed": format!("{} {} #{}: {}", route, t.name, i, first_detail)}));
                    }
                    Err(e) => report.machinery(format!("confirm {} {}: {}", route, t.name, e)),
                }
            }
        }
    }
    report.set("failure_groups", json!(groups));
    report.set("phase_s.confirmations_done", report.elapsed());
    report.set("failing_checks_total", failing_total);

    report.set("evaluations", total.checks + mcells);
    report.set("values", total.values);
    report.set("r3_skipped_because_ser_image_is_ill_typed", total.skipped);
    report.set("value_space", total_space);
    report.set("distinct_nontrivial", total.nontrivial + mnontrivial);
    report.set("types", fam.len() as u64);
    report.set("depth", d as u64);
    report.set("exhaustive", !capped && total.values == total_space);
    report.set("wall_cap_hit", capped);
    report.set(
        "per_type_values",
        json!(total
            .per_type
            .iter()
            .map(|(k, v)| (k.clone(), json!({"values": v.0, "of": sizes.get(k), "checks": v.1})))
            .collect::<serde_json::Map<String, Value>>()),
    );
    report.set("per_route_checks", json!(total.per_route));
    report.set(
        "rule",
        "for every type of the family, every element of the cartesian product of the leaf alphabets \
         (ints MIN,-1,0,1,MAX; unsigned 0,1,MAX and the i64/i32 sign boundary; 13 floats incl. -0, four NaN \
         payloads, infinities, MAX, MIN_POSITIVE, a subnormal; 6 strings incl. empty, multi-byte, NUL; 7 chars; \
         vectors and maps empty / every singleton / every 3-element combination of the largest smaller alphabet \
         with <= 32 (quick) or <= 128 (thorough) elements), enumerated once each by index, through 8 in-process \
         routes (R1 push-get on the stack, R1m marshal to a rooted value and back, R2i Gluon id, R2r Gluon \
         structural rebuild, R2o Gluon-computed fingerprint vs Rust-computed, R3w Ser image vs Pushable image, R3 \
         Ser->De when the image is well-typed, R3d Gluon-built value->De) and, in child processes, the literal \
         Ser->De round trip R3x on <= 38 evenly spaced values of the scalars and of the first type of each \
         constructor; plus the full matrix {26 Gluon globals} x {26 requested Rust types} x {get_global, \
         run_expr} and 7 function signatures. evaluations = route checks + matrix cells; non-trivial = values \
         containing a boundary feature (extreme number, special float, empty/non-ASCII string, empty container, \
         None/Err, unit variant) and matrix cells off the diagonal",
    );
    for (ti, i) in [(15usize, 3usize), (24, 40), (33, 17), (41, 9), (50, 7), (54, 11)] {
        if ti < fam.len() && i < (fam[ti].count)(d) {
            report.sample(json!({"type": fam[ti].name, "index": i, "value": short(&(fam[ti].render)(d, i), 200)}));
        }
    }
    report.assume("NaN may come back as any NaN (f32 <-> f64 conversion may quiet a signalling NaN); all other floats must be bit-identical");
    report.assume("u64/usize above i64::MAX: only the round trip is checked, the Gluon-side fingerprint is skipped (Gluon's Int is i64)");
    report.assume("i16/i32/u16/u32 map to Gluon Int; requesting an Int global at a narrower Rust integer type is a type match (values used in the matrix fit)");
    report.assume("Gluon-side observation uses only: show of Int/Byte (decimal), char.to_int, string append, Float comparisons, match, field access, array map/foldl, map.foldl_with_key (key order = byte order); show of Float/String/Char is not used (format undocumented)");
    report.assume("the serde routes demand that Ser pushes the same Gluon value as the type's own Pushable (they share one Gluon type); Int 0 and the nullary tag 0 are identified (both stand for unit); when the images differ, De is not run on the ill-typed value");
    report.assume("a record global whose type lists the same fields in another order may be refused or read faithfully by field name; both are accepted");
    report.assume("harness profile: opt-level 2 with debug-assertions and overflow-checks on");
    report
}

pub fn replay(v: &Value) -> Report {
    let mut report = Report::new("C11", "quick", "exploration");
    match v["part"].as_str().unwrap_or("") {
        "value" => {
            let name = v["type"].as_str().unwrap_or("");
            let route = v["route"].as_str().unwrap_or("");
            let d = v["depth"].as_u64().unwrap_or(2) as u32;
            let i = v["index"].as_u64().unwrap_or(0) as usize;
            let fam = family();
            match fam.iter().find(|t| t.name == name) {
                None => report.machinery(format!("no such type {}", name)),
                Some(t) => {
                    println!("type {} route {} value #{} = {}", name, route, i, (t.render)(d, i));
                    let r = if v["child"].as_bool().unwrap_or(false) {
                        let ti = fam.iter().position(|t| t.name == name).unwrap_or(0);
                        confirm_in_child("quick", &fam, d, ti, i, route)
                    } else {
                        (t.confirm)(d, i, route)
                    };
                    match r {
                        Ok(Some(detail)) => {
                            println!("{}", detail);
                            report.violation("replay", detail, v.clone());
                        }
                        Ok(None) => println!("property holds"),
                        Err(e) => report.machinery(e),
                    }
                }
            }
        }
        "matrix" => {
            let how = v["how"].as_str().unwrap_or("");
            let rust = v["rust"].as_str().unwrap_or("");
            let global = v["global"].as_str().unwrap_or("");
            let reqs = requests();
            let r = reqs.iter().find(|r| r.rust == rust);
            let g = GLOBALS.iter().find(|g| g.0 == global);
            match (matrix_vm(), r, g) {
                (Ok(vm), Some(r), Some(g)) => {
                    let (got, bad) = matrix_cell(&vm, g, r, how == "run_expr");
                    println!("{}::<{}>(c11g.{} : {}) = {:?}", how, rust, global, g.1, got);
                    if let Some(b) = bad {
                        report.violation("replay", b, v.clone());
                    }
                }
                (Err(e), _, _) => report.machinery(e),
                _ => report.machinery("unknown matrix cell"),
            }
        }
        "function" => {
            let label = v["label"].as_str().unwrap_or("");
            match matrix_vm() {
                Ok(vm) => {
                    if let Err(e) = vm.load_script("c11f", FUNCTION_SRC) {
                        report.machinery(format!("c11f: {}", e));
                    }
                    for (l, should, r) in function_requests(&vm) {
                        if l == label {
                            println!("{} should_succeed={} -> {:?}", l, should, r);
                            if r.is_ok() != should {
                                report.violation("replay", format!("{:?}", r), v.clone());
                            }
                        }
                    }
                }
                Err(e) => report.machinery(e),
            }
        }
        "sizes" => {
            let d = v["depth"].as_u64().unwrap_or(2) as u32;
            let mut total = 0usize;
            for t in family() {
                let n = (t.count)(d);
                total += n;
                println!("{:>10} {}", n, t.name);
            }
            println!("{:>10} total at depth {}", total, d);
        }
        "canary" => {
            let d = v["depth"].as_u64().unwrap_or(2) as u32;
            let fam = family();
            let mut vm: Option<RootedThread> = None;
            for item in v["items"].as_array().cloned().unwrap_or_default() {
                let name = item["type"].as_str().unwrap_or("");
                let indices: Vec<usize> = item["indices"]
                    .as_array()
                    .map(|a| a.iter().filter_map(|x| x.as_u64()).map(|x| x as usize).collect())
                    .unwrap_or_default();
                let routes: Vec<String> = item["routes"]
                    .as_array()
                    .map(|a| a.iter().filter_map(|x| x.as_str()).map(|x| x.to_string()).collect())
                    .unwrap_or_default();
                match fam.iter().find(|t| t.name == name) {
                    Some(t) => {
                        (t.canary)(&mut vm, d, &indices, &routes);
                        println!("CANARY-TYPE-DONE {}", name);
                    }
                    None => println!("CANARY-MACHINERY no such type {}", name),
                }
            }
            println!("CANARY-DONE");
            // the VM may hold poisoned locks: never run its destructors
            std::mem::forget(vm);
        }
        _ => report.machinery("bad replay record"),
    }
    report
}
