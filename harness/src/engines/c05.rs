//! C05 — garbage collection is transparent and never frees a reachable value.
//!
//! Fault enumeration on the real collector: a "fault" is a collection forced at a chosen
//! `Gc::check_collect` call (hook H4; a collection at an allocation point is a behaviour the
//! unmodified VM already has for a suitable earlier allocation history, so forcing selects among
//! real behaviours). For every program of the families below the run is repeated with
//!   * a collection at EVERY single allocation point i < n(P),
//!   * every pair i < j (while n(P) is small enough for the tier),
//!   * the periodic schedules "every k-th allocation point", k = 1..8,
//! and compared with the run without forced collections. Freed blocks are quarantined and
//! poisoned (H5) so that a later mark or walk that reaches a freed object is reported precisely
//! (H6) and any other use reads poison (mismatch or crash, attributed by the isolated worker).
//! After each run everything is dropped, the host collects, the ownership visitor walks all roots
//! and the accounted memory is compared with the unforced run (garbage is reclaimed whatever the
//! schedule) and across program sizes (the residue after a run does not grow with the data).
//!
//! Three further spaces are explored as explicit histories (all sequences up to a depth):
//!   * host handles: evaluate/keep, allocate, collect, drop, read on root and child threads,
//!   * module-level cells: store fresh values into a `ref` / force a `lazy` exported by an imported
//!     module, interleaved with allocation and host collections, from root and child threads,
//!   * green threads holding parent-heap values on their stacks across parent collections
//!     (program family, decided by the placement enumeration above).

use crate::isolate::{self, CaseOutcome};
use crate::lang::templates;
use crate::lang::term::{program, Dialect};
use crate::par;
use crate::report::Report;
use crate::vmkit::{self, Outcome, Settings, W};
use gluon::vm::api::{Hole, OpaqueValue};
use gluon::vm::verif;
use gluon::{RootedThread, ThreadExt};
use serde_json::{json, Value};
use std::collections::{BTreeMap, BTreeSet};
use std::time::Duration;

// ---------------------------------------------------------------------------------------------
// program families

const PURE_HEAD: &str = "let { Bool } = import! std.types\ntype V = | A | C Int V\ntype T = | Leaf | Node T Int T\n";

/// (name, source with {N}) — pure programs, bare settings
fn pure_families() -> Vec<(&'static str, String)> {
    let v: Vec<(&'static str, &str)> = vec![
        ("list_build_sum", "rec\nlet build n acc = if n #Int== 0 then acc else build (n #Int- 1) (C n acc)\nlet sum v acc =\n    match v with\n    | A -> acc\n    | C x rest -> sum rest (acc #Int+ x)\nin sum (build {N} A) 0"),
        ("list_nontail_map", "rec\nlet build n = if n #Int== 0 then A else C n (build (n #Int- 1))\nlet inc v =\n    match v with\n    | A -> A\n    | C x rest -> C (x #Int+ 1) (inc rest)\nin inc (build {N})"),
        ("tree_insert", "rec\nlet insert t x =\n    match t with\n    | Leaf -> Node Leaf x Leaf\n    | Node l y r -> if x #Int< y then Node (insert l x) y r else Node l y (insert r x)\nlet fill n t = if n #Int== 0 then t else fill (n #Int- 1) (insert t ((n #Int* 7) #Int- ((n #Int/ 3) #Int* 20)))\nin fill {N} Leaf"),
        ("records_update", "rec let f n r = if n #Int== 0 then r else f (n #Int- 1) { k = r.k #Int+ 1, pad = (n, [n, r.k]), .. r }\nin (f {N} { k = 0, pad = (0, [0]), s = \"s\", z = 1, y = 2, x = 3 }).k"),
        ("closures_cps", "rec let f n k = if n #Int== 0 then k 0 else f (n #Int- 1) (\\r -> k (r #Int+ n))\nin f {N} (\\r -> r)"),
        ("partial_applications", "let add3 a b c = (a #Int+ b) #Int+ c\nrec let f n g acc = if n #Int== 0 then g acc else f (n #Int- 1) (add3 n acc) (g 1)\nin f {N} (add3 1 2) 0"),
        ("arrays_append", "let array = import! std.array.prim\nrec let f n a = if n #Int== 0 then a else f (n #Int- 1) (array.append a [n, n])\nin f {N} []"),
        ("array_of_arrays", "let array = import! std.array.prim\nrec let f n a = if n #Int== 0 then a else f (n #Int- 1) (array.append a [[n], []])\nin f {N} [[0]]"),
        ("array_of_records", "let array = import! std.array.prim\nrec let f n a = if n #Int== 0 then a else f (n #Int- 1) (array.append [{ x = n, y = \"s\" }] a)\nin f {N} []"),
        ("strings_append", "let string = import! std.string.prim\nrec let f n s = if n #Int== 0 then s else f (n #Int- 1) (string.append s \"ab\")\nin f {N} \"\""),
        ("rec_value_cycle", "rec\nlet build n = if n #Int== 0 then A else C n (build (n #Int- 1))\nin\nrec let r = { self = \\_ -> r.data, data = build {N} }\nin (r.self ()) "),
        ("big_record_pattern", "rec let f n r =\n    if n #Int== 0 then r\n    else\n        let { a, b, c, d, e, g } = r\n        f (n #Int- 1) { a = (b, [b, n]), b = n, c = d, d = [n], e = g, g = \"x\" }\nin (f {N} { a = (0, [0]), b = 0, c = [0], d = [1], e = \"e\", g = \"g\" }).d"),
        ("over_application", "rec let f n = if n #Int== 0 then (\\acc -> acc) else (\\acc -> f (n #Int- 1) (C n acc))\nin f {N} A"),
        ("error_after_alloc", "let { error } = import! std.prim\nrec let build n acc = if n #Int== 0 then error \"boom\" else build (n #Int- 1) (C n acc)\nin build {N} A"),
    ];
    v.into_iter().map(|(a, b)| (a, b.to_string())).collect()
}

const IO_HEAD: &str = r#"let { Result } = import! std.types
let { error } = import! std.prim
let { flat_map, wrap, catch } = import! std.io.prim
let { send, recv, channel } = import! std.channel
let { ref, load, (<-) } = import! std.reference
let { lazy, force } = import! std.lazy
let { spawn, yield, resume } = import! std.thread
let array = import! std.array.prim
type V = | A | C Int V
rec
let build n acc = if n #Int== 0 then acc else build (n #Int- 1) (C n acc)
let sum v acc =
    match v with
    | A -> acc
    | C x rest -> sum rest (acc #Int+ x)
in
let val r =
    match r with
    | Ok x -> x
    | Err _ -> A
"#;

/// IO programs (run_io on): cells, lazies, channels, green threads
fn io_families() -> Vec<(&'static str, String)> {
    let v: Vec<(&'static str, &str)> = vec![
        ("ref_store_load", "do r = ref A\ndo _ = r <- build {N} A\nlet junk = build {N} A\ndo _ = r <- build 3 (C 9 A)\ndo x = load r\nlet junk2 = build {N} A\ndo y = load r\nwrap (sum x 0 #Int+ sum y 0)"),
        ("ref_of_ref", "do inner = ref (build 2 A)\ndo outer = ref inner\nlet junk = build {N} A\ndo _ = inner <- build {N} A\ndo i = load outer\ndo x = load i\nwrap (sum x 0)"),
        ("lazy_force", "let l = lazy (\\_ -> build {N} A)\nlet junk = build {N} A\nlet a = force l\nlet junk2 = build {N} A\nlet b = force l\nwrap (sum a 0 #Int+ sum b 0)"),
        ("lazy_value_only_in_cell", "let l = lazy (\\_ -> build {N} A)\nlet n1 = sum (force l) 0\nlet junk = build {N} A\nlet n2 = sum (force l) 0\nlet l2 = lazy (\\_ -> [build {N} A])\nlet n3 = array.len (force l2)\nlet junk2 = build {N} A\nwrap (n1 #Int+ n2 #Int+ n3 #Int+ sum (array.index (force l2) 0) 0)"),
        ("lazy_chain", "let l0 = lazy (\\_ -> build {N} A)\nlet l1 = lazy (\\_ -> C 7 (force l0))\nlet l2 = lazy (\\_ -> C 8 (force l1))\nlet a = force l2\nlet junk = build {N} A\nwrap (sum a 0 #Int+ sum (force l1) 0)"),
        ("channel_send_recv", "do { sender, receiver } = channel A\ndo _ = send sender (build {N} A)\nlet junk = build {N} A\ndo _ = send sender (build 2 A)\ndo a = recv receiver\nlet junk2 = build {N} A\ndo b = recv receiver\nwrap (sum (val a) 0 #Int+ sum (val b) 0)"),
        ("green_thread_parent_values", "let xs = build {N} A\ndo { sender, receiver } = channel 0\ndo t = spawn (\n        do _ = wrap ()\n        let mine = build 3 xs\n        let _ = yield ()\n        do _ = send sender (sum mine 0)\n        let _ = yield ()\n        do _ = send sender (sum xs 0)\n        wrap ())\ndo _ = resume t\nlet junk = build {N} A\ndo _ = resume t\nlet junk2 = build {N} A\ndo _ = resume t\ndo a = recv receiver\ndo b = recv receiver\nlet v r =\n    match r with\n    | Ok x -> x\n    | Err _ -> -1\nwrap (v a #Int+ v b #Int+ sum junk 0 #Int+ sum junk2 0)"),
        ("green_thread_child_allocates", "do { sender, receiver } = channel A\ndo t = spawn (\n        do _ = wrap ()\n        let mine = build {N} A\n        do _ = send sender mine\n        let _ = yield ()\n        let more = build {N} mine\n        do _ = send sender more\n        wrap ())\ndo _ = resume t\ndo a = recv receiver\nlet junk = build {N} A\ndo _ = resume t\ndo b = recv receiver\nwrap (sum (val a) 0 #Int+ sum (val b) 0)"),
        ("green_grandchild_holds_root_values", "let xs = build {N} A\ndo { sender, receiver } = channel 0\ndo t = spawn (\n        do _ = wrap ()\n        let mid = build 2 xs\n        do g = spawn (\n                do _ = wrap ()\n                let mine = build 3 xs\n                let _ = yield ()\n                do _ = send sender (sum mine 0 #Int+ sum mid 0)\n                wrap ())\n        do _ = resume g\n        let _ = yield ()\n        let junk = build {N} A\n        do _ = resume g\n        do _ = send sender (sum junk 0)\n        wrap ())\ndo _ = resume t\nlet junk = build {N} A\ndo _ = resume t\nlet junk2 = build {N} A\ndo a = recv receiver\ndo b = recv receiver\nlet v r =\n    match r with\n    | Ok x -> x\n    | Err _ -> -1\nwrap (v a #Int+ v b #Int+ sum junk 0 #Int+ sum junk2 0)"),
        ("two_green_threads_ref", "do r = ref A\ndo t1 = spawn (\n        do _ = wrap ()\n        do _ = r <- build {N} A\n        let _ = yield ()\n        do x = load r\n        do _ = r <- C 1 x\n        wrap ())\ndo t2 = spawn (\n        do _ = wrap ()\n        do x = load r\n        do _ = r <- build 2 x\n        wrap ())\ndo _ = resume t1\ndo _ = resume t2\nlet junk = build {N} A\ndo _ = resume t1\ndo x = load r\nwrap (sum x 0)"),
        ("lazy_forced_in_green_thread", "let l = lazy (\\_ -> build {N} A)\ndo { sender, receiver } = channel 0\ndo t = spawn (\n        do _ = wrap ()\n        let a = force l\n        do _ = send sender (sum a 0)\n        wrap ())\ndo _ = resume t\nlet junk = build {N} A\nlet b = force l\ndo a = recv receiver\nlet v r =\n    match r with\n    | Ok x -> x\n    | Err _ -> -1\nwrap (v a #Int+ sum b 0)"),
        ("array_of_lists_in_ref", "do r = ref [A]\ndo _ = r <- [build {N} A, build 2 A]\nlet junk = build {N} A\ndo a = load r\ndo _ = r <- array.append a [build 1 A]\nlet junk2 = build {N} A\ndo b = load r\nwrap (array.len b #Int+ sum (array.index b 0) 0)"),
    ];
    v.into_iter().map(|(a, b)| (a, b.to_string())).collect()
}

const IO_BITS: u32 = 0b01000; // run_io only (see Settings::from_bits)

fn io_settings() -> Settings {
    let mut s = Settings::bare();
    s.run_io = true;
    s
}

const IO_WARM: &str = "let _ = import! std.types\nlet _ = import! std.prim\nlet _ = import! std.io.prim\nlet _ = import! std.channel\nlet _ = import! std.reference\nlet _ = import! std.lazy\nlet _ = import! std.thread\nlet _ = import! std.array.prim\n0";
const PURE_WARM: &str = "let _ = import! std.types\nlet _ = import! std.prim\nlet _ = import! std.array.prim\nlet _ = import! std.string.prim\n0";

// ---------------------------------------------------------------------------------------------
// one observed run

#[derive(Clone, Debug)]
enum Force {
    None,
    At(Vec<u64>),
    Every(u64),
}

impl Force {
    fn to_json(&self) -> Value {
        match self {
            Force::None => json!("none"),
            Force::At(v) => json!({ "at": v }),
            Force::Every(k) => json!({ "every": k }),
        }
    }
    fn from_json(v: &Value) -> Force {
        if let Some(a) = v.get("at").and_then(|a| a.as_array()) {
            Force::At(a.iter().filter_map(|x| x.as_u64()).collect())
        } else if let Some(k) = v.get("every").and_then(|k| k.as_u64()) {
            Force::Every(k)
        } else {
            Force::None
        }
    }
}

struct Obs {
    outcome: Outcome,
    points: u64,
    forced: u64,
    mem_after: usize,
    mem_before: usize,
    violations: Vec<String>,
    walk_objects: u64,
}

fn arm(force: &Force) {
    verif::with(|s| {
        s.check_collect_calls = 0;
        s.forced = 0;
        s.force_at.clear();
        s.force_every = 0;
        match force {
            Force::None => {}
            Force::At(v) => s.force_at = v.iter().cloned().collect(),
            Force::Every(k) => s.force_every = *k,
        }
    });
}

fn disarm() -> (u64, u64) {
    verif::with(|s| {
        s.force_at.clear();
        s.force_every = 0;
        (s.check_collect_calls, s.forced)
    })
}

fn settings_of(io: bool) -> Settings {
    if io {
        io_settings()
    } else {
        Settings::bare()
    }
}

/// fresh VM, warm-up, then the program under the given schedule; afterwards drop, collect, walk
fn observe(src: &str, io: bool, force: &Force) -> Obs {
    verif::reset(true);
    verif::with(|s| s.quarantine = true);
    let vm = vmkit::make_vm(settings_of(io));
    let _ = vmkit::run(&vm, "warm", if io { IO_WARM } else { PURE_WARM });
    vm.collect();
    let mem_before = vm.allocated_memory();
    arm(force);
    let outcome = vmkit::run(&vm, "main", src);
    let (points, forced) = disarm();
    vm.collect();
    vm.verif_walk();
    let mem_after = vm.allocated_memory();
    let (violations, walk_objects) = verif::with(|s| (take_gc_violations(s), s.walk_objects));
    if std::env::var_os("VERIF_DEBUG").is_some() && !violations.is_empty() {
        verif::with(|s| eprintln!("parents {:?} thread_obj {:?}", s.parents, s.thread_obj));
    }
    drop(vm);
    verif::reset(false);
    Obs { outcome, points, forced, mem_after, mem_before, violations, walk_objects }
}

/// C05 is about reclamation: only "a freed object is still reachable" reports are taken from the
/// hooks here; the heap-ownership reports of the same visitor belong to C13
fn take_gc_violations(s: &mut verif::State) -> Vec<String> {
    std::mem::take(&mut s.violations).into_iter().filter(|v| v.starts_with("freed-but-reachable")).collect()
}

fn normalise_violation(v: &str) -> String {
    // drop addresses and heap ids
    let mut out = String::new();
    let mut chars = v.chars().peekable();
    while let Some(c) = chars.next() {
        if c == '0' && chars.peek() == Some(&'x') {
            chars.next();
            while chars.peek().map_or(false, |c| c.is_ascii_hexdigit()) {
                chars.next();
            }
            out.push('#');
        } else if c.is_ascii_digit() {
            while chars.peek().map_or(false, |c| c.is_ascii_digit()) {
                chars.next();
            }
            out.push('N');
        } else {
            out.push(c);
        }
    }
    out.split(" (from").next().unwrap_or("").to_string()
}

// ---------------------------------------------------------------------------------------------
// case kind 1: a program under all placements (runs inside the isolated worker)

fn placements(n: u64, pairs_cap: u64, max_every: u64) -> Vec<Force> {
    let mut v = Vec::new();
    for i in 0..n {
        v.push(Force::At(vec![i]));
    }
    for k in 1..=max_every {
        if k <= n.max(1) {
            v.push(Force::Every(k));
        }
    }
    if pairs_cap > 0 && n * n.saturating_sub(1) / 2 <= pairs_cap {
        for i in 0..n {
            for j in (i + 1)..n {
                v.push(Force::At(vec![i, j]));
            }
        }
    }
    v
}

/// returns JSON: {points, runs, forced_total, distinct_outcomes, problems:[{kind, force, what}]}
fn prog_case(c: &Value) -> Value {
    let src = c["src"].as_str().unwrap_or("");
    let io = c["io"].as_bool().unwrap_or(false);
    let pairs_cap = c["pairs_cap"].as_u64().unwrap_or(0);
    let only: Option<Force> = c.get("only").map(Force::from_json);
    let base = observe(src, io, &Force::None);
    let mut problems = Vec::new();
    for v in &base.violations {
        problems.push(json!({"kind": format!("hook:{}", normalise_violation(v)), "force": "none", "what": v}));
    }
    let list = match only {
        Some(f) => vec![f],
        None => placements(base.points, pairs_cap, c["max_every"].as_u64().unwrap_or(8)),
    };
    let mut forced_total = 0;
    let mut runs = 1u64;
    for f in &list {
        let o = observe(src, io, f);
        runs += 1;
        forced_total += o.forced;
        if o.outcome != base.outcome {
            problems.push(json!({"kind": "outcome-depends-on-collection-schedule", "force": f.to_json(),
                "what": format!("without forced collections: {:?}; with {:?}: {:?}", base.outcome, f, o.outcome)}));
        }
        for v in &o.violations {
            problems.push(json!({"kind": format!("hook:{}", normalise_violation(v)), "force": f.to_json(), "what": v}));
        }
        if o.mem_after != base.mem_after {
            problems.push(json!({"kind": "memory-after-collect-depends-on-schedule", "force": f.to_json(),
                "what": format!("accounted memory after drop+collect: {} without forced collections, {} with {:?}", base.mem_after, o.mem_after, f)}));
        }
        if problems.len() > 20 {
            break;
        }
    }
    json!({
        "points": base.points,
        "runs": runs,
        "forced_total": forced_total,
        "outcome": format!("{:?}", base.outcome),
        "outcome_class": base.outcome.class(),
        "mem_residue": base.mem_after as i64 - base.mem_before as i64,
        "walk_objects": base.walk_objects,
        "problems": problems,
    })
}

// ---------------------------------------------------------------------------------------------
// case kind 2: host handle histories

const H_PROGS: &[(&str, &str)] = &[
    ("list", "type V = | A | C Int V\nrec let build n acc = if n #Int== 0 then acc else build (n #Int- 1) (C n acc)\nin build 6 A"),
    ("closure", "type V = | A | C Int V\nrec let build n acc = if n #Int== 0 then acc else build (n #Int- 1) (C n acc)\nin\nlet xs = build 4 A\n{ f = \\y -> C y xs, s = \"str\", a = [xs, A] }"),
    ("array", "let array = import! std.array.prim\narray.append [\"a\", \"bc\"] [\"def\"]"),
];
const H_JUNK: &str = "type V = | A | C Int V\nrec\nlet build n acc = if n #Int== 0 then acc else build (n #Int- 1) (C n acc)\nlet len v acc =\n    match v with\n    | A -> acc\n    | C _ rest -> len rest (acc #Int+ 1)\nin len (build 40 A) 0";

#[derive(Clone, Copy, Debug, PartialEq, Eq, Hash, PartialOrd, Ord)]
enum HOp {
    /// evaluate program p on thread t (0 root, 1 child, 2 grandchild) and keep the handle
    Keep(u8, u8),
    /// evaluate the allocation-heavy program on thread t, discard the result
    Junk(u8),
    /// host collection of thread t
    Collect(u8),
    /// drop the oldest handle
    DropOldest,
    /// drop the newest handle
    DropNewest,
    /// read every handle and compare with what it was when created
    Read,
}

fn hop_text(o: &HOp) -> String {
    match o {
        HOp::Keep(p, t) => format!("keep{}@{}", p, t),
        HOp::Junk(t) => format!("junk@{}", t),
        HOp::Collect(t) => format!("collect@{}", t),
        HOp::DropOldest => "dropold".into(),
        HOp::DropNewest => "dropnew".into(),
        HOp::Read => "read".into(),
    }
}

fn hop_parse(s: &str) -> Option<HOp> {
    let num = |x: &str| x.parse::<u8>().ok();
    if let Some(r) = s.strip_prefix("keep") {
        let (p, t) = r.split_once('@')?;
        return Some(HOp::Keep(num(p)?, num(t)?));
    }
    if let Some(r) = s.strip_prefix("junk@") {
        return Some(HOp::Junk(num(r)?));
    }
    if let Some(r) = s.strip_prefix("collect@") {
        return Some(HOp::Collect(num(r)?));
    }
    match s {
        "dropold" => Some(HOp::DropOldest),
        "dropnew" => Some(HOp::DropNewest),
        "read" => Some(HOp::Read),
        _ => None,
    }
}

fn h_alphabet(threads: u8) -> Vec<HOp> {
    let mut v = Vec::new();
    for t in 0..threads {
        for p in 0..H_PROGS.len() as u8 {
            v.push(HOp::Keep(p, t));
        }
        v.push(HOp::Junk(t));
        v.push(HOp::Collect(t));
    }
    v.push(HOp::DropOldest);
    v.push(HOp::DropNewest);
    v.push(HOp::Read);
    v
}

type Handle = OpaqueValue<RootedThread, Hole>;

fn eval_keep(vm: &RootedThread, name: &str, src: &str) -> Result<(Handle, W), String> {
    let r = std::panic::catch_unwind(std::panic::AssertUnwindSafe(|| vm.run_expr::<Handle>(name, src)));
    match r {
        Ok(Ok((v, _))) => {
            let w = vmkit::walk(v.get_ref(), 40);
            Ok((v, w))
        }
        Ok(Err(e)) => Err(format!("error: {}", vmkit::first_line(&e.to_string()))),
        Err(p) => Err(format!("host panic: {}", vmkit::panic_message(&p))),
    }
}

/// Runs one history with a periodic forced schedule; returns the list of problems
fn hist_run(seq: &[HOp], every: u64) -> Vec<(String, String)> {
    let mut problems = Vec::new();
    verif::reset(true);
    verif::with(|s| s.quarantine = true);
    let root = vmkit::make_vm(Settings::bare());
    let _ = vmkit::run(&root, "warm", PURE_WARM);
    let child = root.new_thread().expect("child thread");
    let grandchild = child.new_thread().expect("grandchild thread");
    let threads = [root.clone(), child.clone(), grandchild.clone()];
    let mut handles: Vec<(Handle, W, String)> = Vec::new();
    verif::with(|s| s.force_every = every);
    for (i, op) in seq.iter().enumerate() {
        match op {
            HOp::Keep(p, t) => {
                let (name, src) = H_PROGS[*p as usize];
                match eval_keep(&threads[*t as usize], &format!("h{}", i), src) {
                    Ok((h, w)) => handles.push((h, w, format!("{}@{}", name, t))),
                    Err(e) => problems.push(("history-evaluation-failed".to_string(), format!("step {} {}: {}", i, hop_text(op), e))),
                }
            }
            HOp::Junk(t) => {
                let o = vmkit::run(&threads[*t as usize], &format!("j{}", i), H_JUNK);
                if !matches!(o, Outcome::Ok(W::Int(40), _)) {
                    problems.push(("junk-evaluation-wrong".to_string(), format!("step {} {}: {:?}", i, hop_text(op), o)));
                }
            }
            HOp::Collect(t) => threads[*t as usize].collect(),
            HOp::DropOldest => {
                if !handles.is_empty() {
                    handles.remove(0);
                }
            }
            HOp::DropNewest => {
                handles.pop();
            }
            HOp::Read => {}
        }
        // every handle must still read as the value it was created with, after every step
        for (h, w, what) in &handles {
            let now = std::panic::catch_unwind(std::panic::AssertUnwindSafe(|| vmkit::walk(h.get_ref(), 40)));
            match now {
                Ok(now) if &now == w => {}
                Ok(now) => problems.push((
                    "host-handle-value-changed".to_string(),
                    format!("after step {} ({}): handle {} was {:?}, now reads {:?}", i, hop_text(op), what, w, now),
                )),
                Err(p) => problems.push(("host-handle-walk-panicked".to_string(), format!("after step {}: {}", i, vmkit::panic_message(&p)))),
            }
        }
        let saved = verif::with(|s| std::mem::replace(&mut s.force_every, 0));
        root.verif_walk();
        verif::with(|s| s.force_every = saved);
        let vs = verif::with(|s| take_gc_violations(s));
        for v in vs {
            problems.push((format!("hook:{}", normalise_violation(&v)), format!("after step {} ({}): {}", i, hop_text(op), v)));
        }
        if problems.len() > 8 {
            break;
        }
    }
    verif::with(|s| s.force_every = 0);
    drop(handles);
    drop(threads);
    drop(grandchild);
    drop(child);
    drop(root);
    verif::reset(false);
    problems
}

/// memory baseline for handle histories: after dropping every handle and collecting all threads
/// the accounted memory of each thread must be what it is after the same evaluations without any
/// handle ever kept (differential on the real VM)
fn hist_case(c: &Value) -> Value {
    let mut out = Vec::new();
    let seqs: Vec<&str> = c["seqs"].as_str().unwrap_or("").lines().collect();
    let everys: Vec<u64> = c["every"].as_array().map(|a| a.iter().filter_map(|x| x.as_u64()).collect()).unwrap_or_else(|| vec![0]);
    for s in seqs {
        let seq: Vec<HOp> = s.split(' ').filter_map(hop_parse).collect();
        let mut res = Vec::new();
        for k in &everys {
            for (kind, what) in hist_run(&seq, *k) {
                res.push(json!({"kind": kind, "every": k, "what": what}));
            }
        }
        out.push(json!(res));
    }
    json!({ "results": out })
}

// ---------------------------------------------------------------------------------------------
// case kind 3: module-level cells

const CELL_MODULE: &str = r#"let { ref } = import! std.reference
let { lazy } = import! std.lazy
type V = | A | C Int V
rec let build n acc = if n #Int== 0 then acc else build (n #Int- 1) (C n acc)
in
{ V, build, l = lazy (\_ -> build 5 A), nested = { l2 = lazy (\_ -> [build 3 A, build 2 A]) } }
"#;

/// `std.st.reference.prim.ref` creates a `Reference` without `IO` (it is what `std.effect.st` is
/// built on); the reference is an ordinary `std.reference.Reference` for the importers
const CELL_REF_MODULE: &str = r#"let { ref } = import! std.st.reference.prim
type V = | A | C Int V
rec let build n acc = if n #Int== 0 then acc else build (n #Int- 1) (C n acc)
in
{ V, build, r = ref A, rr = ref [A] }
"#;

#[derive(Clone, Copy, Debug, PartialEq, Eq, Hash, PartialOrd, Ord)]
enum COp {
    /// store `build k A` into the module-level reference, from thread t
    Store(u8, u8),
    /// store an array of lists into the second module-level reference
    StoreArr(u8, u8),
    /// load the module-level reference from thread t
    Load(u8),
    LoadArr(u8),
    /// force the module-level lazy from thread t
    ForceL(u8),
    ForceL2(u8),
    Junk(u8),
    Collect(u8),
}

fn cop_text(o: &COp) -> String {
    match o {
        COp::Store(k, t) => format!("store{}@{}", k, t),
        COp::StoreArr(k, t) => format!("storearr{}@{}", k, t),
        COp::Load(t) => format!("load@{}", t),
        COp::LoadArr(t) => format!("loadarr@{}", t),
        COp::ForceL(t) => format!("force@{}", t),
        COp::ForceL2(t) => format!("forcenested@{}", t),
        COp::Junk(t) => format!("junk@{}", t),
        COp::Collect(t) => format!("collect@{}", t),
    }
}

fn cop_parse(s: &str) -> Option<COp> {
    let num = |x: &str| x.parse::<u8>().ok();
    if let Some(r) = s.strip_prefix("storearr") {
        let (k, t) = r.split_once('@')?;
        return Some(COp::StoreArr(num(k)?, num(t)?));
    }
    if let Some(r) = s.strip_prefix("store") {
        let (k, t) = r.split_once('@')?;
        return Some(COp::Store(num(k)?, num(t)?));
    }
    if let Some(r) = s.strip_prefix("loadarr@") {
        return Some(COp::LoadArr(num(r)?));
    }
    if let Some(r) = s.strip_prefix("load@") {
        return Some(COp::Load(num(r)?));
    }
    if let Some(r) = s.strip_prefix("forcenested@") {
        return Some(COp::ForceL2(num(r)?));
    }
    if let Some(r) = s.strip_prefix("force@") {
        return Some(COp::ForceL(num(r)?));
    }
    if let Some(r) = s.strip_prefix("junk@") {
        return Some(COp::Junk(num(r)?));
    }
    if let Some(r) = s.strip_prefix("collect@") {
        return Some(COp::Collect(num(r)?));
    }
    None
}

fn c_alphabet(family: &str, threads: u8) -> Vec<COp> {
    let mut v = Vec::new();
    for t in 0..threads {
        if family == "ref" {
            v.push(COp::Store(4, t));
            v.push(COp::Store(7, t));
            v.push(COp::StoreArr(3, t));
            v.push(COp::Load(t));
            v.push(COp::LoadArr(t));
        } else {
            v.push(COp::ForceL(t));
            v.push(COp::ForceL2(t));
        }
        v.push(COp::Junk(t));
        v.push(COp::Collect(t));
    }
    v
}

fn list_w(k: i64) -> W {
    // build k A = C 1 (C 2 (... (C k A)))
    let mut w = W::Data(0, vec![]);
    for i in (1..=k).rev() {
        w = W::Data(1, vec![W::Int(i), w]);
    }
    w
}

fn cell_run(family: &str, seq: &[COp], every: u64) -> Vec<(String, String)> {
    let mut problems = Vec::new();
    verif::reset(true);
    verif::with(|s| s.quarantine = true);
    let root = vmkit::make_vm(io_settings());
    let _ = vmkit::run(&root, "warm", IO_WARM);
    let load = if family == "ref" {
        root.load_script("cellm", CELL_REF_MODULE)
    } else {
        root.load_script("cellm", CELL_MODULE)
    };
    if let Err(e) = load {
        verif::reset(false);
        return vec![("cell-module-failed-to-load".into(), vmkit::first_line(&e.to_string()))];
    }
    let child = root.new_thread().expect("child");
    let threads = [root.clone(), child.clone()];
    // model: contents of the cells
    let mut model_r = list_w(0);
    let mut model_rr: Vec<W> = vec![list_w(0)];
    verif::with(|s| s.force_every = every);
    for (i, op) in seq.iter().enumerate() {
        let head = "let m = import! cellm\nlet { flat_map, wrap } = import! std.io.prim\nlet { load, (<-) } = import! std.reference\nlet { force } = import! std.lazy\nlet { V } = import! cellm\ntype V = | A | C Int V\nrec let build n acc = if n #Int== 0 then acc else build (n #Int- 1) (C n acc)\nin\n";
        let (t, body, expect): (u8, String, Option<W>) = match op {
            COp::Store(k, t) => {
                model_r = list_w(*k as i64);
                (*t, format!("do _ = m.r <- build {} A\nwrap 0", k), Some(W::Int(0)))
            }
            COp::StoreArr(k, t) => {
                model_rr = vec![list_w(*k as i64), list_w(1)];
                (*t, format!("do _ = m.rr <- [build {} A, build 1 A]\nwrap 0", k), Some(W::Int(0)))
            }
            COp::Load(t) => (*t, "load m.r".to_string(), Some(model_r.clone())),
            COp::LoadArr(t) => (*t, "load m.rr".to_string(), Some(W::Array(model_rr.clone()))),
            COp::ForceL(t) => (*t, "wrap (force m.l)".to_string(), Some(list_w(5))),
            COp::ForceL2(t) => (*t, "wrap (force m.nested.l2)".to_string(), Some(W::Array(vec![list_w(3), list_w(2)]))),
            COp::Junk(t) => (*t, "let j = build 40 A\nwrap 0".to_string(), Some(W::Int(0))),
            COp::Collect(t) => {
                threads[*t as usize].collect();
                (*t, String::new(), None)
            }
        };
        if let Some(expect) = expect {
            let head = {
                head.replace("type V = | A | C Int V\nrec let build n acc = if n #Int== 0 then acc else build (n #Int- 1) (C n acc)\nin\n", "let { build } = m\n")
            };
            let src = format!("{}{}", head, body);
            let o = vmkit::run(&threads[t as usize], &format!("s{}", i), &src);
            match &o {
                Outcome::Ok(w, _) if *w == expect => {}
                _ => problems.push((
                    format!("module-cell-wrong-value:{}", cop_text(op).split(|c: char| c.is_ascii_digit() || c == '@').next().unwrap_or("")),
                    format!("step {} ({}): expected {:?}, observed {:?}", i, cop_text(op), expect, o),
                )),
            }
        }
        let saved = verif::with(|s| std::mem::replace(&mut s.force_every, 0));
        root.verif_walk();
        verif::with(|s| s.force_every = saved);
        let vs = verif::with(|s| take_gc_violations(s));
        for v in vs {
            problems.push((format!("hook:{}", normalise_violation(&v)), format!("after step {} ({}): {}", i, cop_text(op), v)));
        }
        if problems.len() > 6 {
            break;
        }
    }
    verif::with(|s| s.force_every = 0);
    drop(threads);
    drop(child);
    drop(root);
    verif::reset(false);
    problems
}

fn cell_case(c: &Value) -> Value {
    let family = c["family"].as_str().unwrap_or("ref");
    let seqs: Vec<&str> = c["seqs"].as_str().unwrap_or("").lines().collect();
    let everys: Vec<u64> = c["every"].as_array().map(|a| a.iter().filter_map(|x| x.as_u64()).collect()).unwrap_or_else(|| vec![0]);
    let mut out = Vec::new();
    for s in seqs {
        let seq: Vec<COp> = s.split(' ').filter_map(cop_parse).collect();
        let mut res = Vec::new();
        for k in &everys {
            for (kind, what) in cell_run(family, &seq, *k) {
                res.push(json!({"kind": kind, "every": k, "what": what}));
            }
        }
        out.push(json!(res));
    }
    json!({ "results": out })
}

// ---------------------------------------------------------------------------------------------
// worker entry

pub fn worker(payload: &str) -> String {
    let c: Value = match serde_json::from_str(payload) {
        Ok(v) => v,
        Err(e) => return json!({"error": format!("bad case: {}", e)}).to_string(),
    };
    let r = match c["kind"].as_str() {
        Some("prog") => prog_case(&c),
        Some("hist") => hist_case(&c),
        Some("cell") => cell_case(&c),
        _ => json!({"error": "unknown kind"}),
    };
    r.to_string()
}

// ---------------------------------------------------------------------------------------------
// the parent: builds the case list, runs it isolated, folds results

fn all_sequences<T: Clone>(alpha: &[T], depth: usize) -> Vec<Vec<T>> {
    // every sequence of length exactly `depth` (its prefixes are checked step by step)
    let mut out: Vec<Vec<T>> = vec![vec![]];
    for _ in 0..depth {
        let mut next = Vec::with_capacity(out.len() * alpha.len());
        for s in &out {
            for a in alpha {
                let mut s2 = s.clone();
                s2.push(a.clone());
                next.push(s2);
            }
        }
        out = next;
    }
    out
}

struct ProgCase {
    name: String,
    src: String,
    io: bool,
}

fn program_set(tier: &str) -> Vec<ProgCase> {
    let mut v = Vec::new();
    let sizes: &[i64] = if tier == "quick" { &[3, 9] } else { &[2, 5, 12, 30] };
    for (name, tpl) in pure_families() {
        for n in sizes {
            v.push(ProgCase { name: format!("{}:{}", name, n), src: format!("{}{}\n", PURE_HEAD, tpl.replace("{N}", &n.to_string())), io: false });
        }
    }
    let sizes: &[i64] = if tier == "quick" { &[2, 6] } else { &[2, 5, 12] };
    for (name, tpl) in io_families() {
        for n in sizes {
            v.push(ProgCase { name: format!("{}:{}", name, n), src: format!("{}{}\n", IO_HEAD, tpl.replace("{N}", &n.to_string())), io: true });
        }
    }
    // the GL-core feature products (call shapes, pattern matrices, record updates, recursion ...)
    // (quick: the families whose programs allocate; all of them in the thorough tier)
    let tpls = if tier == "quick" {
        let mut t = templates::call_shapes(tier);
        t.extend(templates::recursion());
        t.extend(templates::record_updates());
        t.extend(templates::do_chains());
        t
    } else {
        templates::all(tier)
    };
    for (name, t) in tpls {
        v.push(ProgCase { name: format!("tpl:{}", name), src: program(Dialect::Bare, &t), io: false });
    }
    v
}

fn fold_problem(report: &mut Report, scope: &str, case_name: &str, p: &Value, replay: Value) {
    let kind = p["kind"].as_str().unwrap_or("?");
    let fam = case_name.split(':').next().unwrap_or(case_name);
    let key = format!("c05:{}:{}:{}", scope, if scope == "prog" { fam } else { "" }, kind);
    report.violation(key, format!("{} [{}]: {}", case_name, p.get("force").or(p.get("every")).map(|f| f.to_string()).unwrap_or_default(), p["what"].as_str().unwrap_or("")), replay);
}

pub fn run(tier: &str) -> Report {
    let mut report = Report::new("C05", tier, "fault_enumeration");
    let deadline = par::deadline_for(tier, 45, 1500);
    let quick = tier == "quick";

    // ---- 1. programs x placements
    let progs = program_set(tier);
    let pairs_cap: u64 = if quick { 300 } else { 6000 };
    let cases: Vec<String> = progs
        .iter()
        .map(|p| json!({"kind": "prog", "src": p.src, "io": p.io, "pairs_cap": if quick && p.name.starts_with("tpl:") { 0 } else { pairs_cap }, "max_every": if quick && p.name.starts_with("tpl:") { 2 } else { 8 }}).to_string())
        .collect();
    let iso = isolate::run_isolated("c05", &cases, par::n_workers(), Duration::from_secs(if quick { 60 } else { 600 }), Some(deadline));
    let mut evaluations = 0u64;
    let mut nontrivial: BTreeSet<String> = BTreeSet::new();
    let mut points_hist: BTreeMap<String, u64> = BTreeMap::new();
    let mut forced_total = 0u64;
    let mut classes: BTreeMap<String, u64> = BTreeMap::new();
    let mut residues: BTreeMap<String, Vec<(String, i64)>> = BTreeMap::new();
    let mut done_progs = 0u64;
    let mut per_family: BTreeMap<String, (u64, u64, u64)> = BTreeMap::new();
    for (i, o) in iso.outcomes.iter().enumerate() {
        let p = &progs[i];
        match o {
            None => {}
            Some(CaseOutcome::Done(res)) => {
                let r: Value = serde_json::from_str(res).unwrap_or(json!({}));
                if let Some(e) = r.get("error") {
                    report.machinery(format!("worker: {}", e));
                    continue;
                }
                done_progs += 1;
                let runs = r["runs"].as_u64().unwrap_or(0);
                evaluations += runs;
                forced_total += r["forced_total"].as_u64().unwrap_or(0);
                let pts = r["points"].as_u64().unwrap_or(0);
                *points_hist.entry(format!("{}", if pts == 0 { 0 } else if pts < 10 { 1 } else if pts < 50 { 10 } else if pts < 200 { 50 } else { 200 })).or_insert(0) += 1;
                *classes.entry(r["outcome_class"].as_str().unwrap_or("?").to_string()).or_insert(0) += 1;
                {
                    let fam: String = p.name.split(|c: char| c == ':' || c == '/' || c == '-' || c.is_ascii_digit()).take(2).collect::<Vec<_>>().join(":");
                    let e = per_family.entry(fam).or_insert((0u64, 0u64, 0u64));
                    e.0 += 1;
                    e.1 += pts;
                    e.2 += runs;
                }
                if r["outcome_class"].as_str() == Some("Typecheck") || r["outcome_class"].as_str() == Some("Parse") {
                    report.machinery(format!("program {} of the C05 families does not compile: {}", p.name, r["outcome"]));
                }
                if pts >= 2 {
                    nontrivial.insert(p.src.clone());
                }
                let fam = p.name.rsplit_once(':').map(|x| x.0.to_string()).unwrap_or(p.name.clone());
                if !p.name.starts_with("tpl:") {
                    residues.entry(fam).or_default().push((p.name.clone(), r["mem_residue"].as_i64().unwrap_or(0)));
                }
                for pr in r["problems"].as_array().cloned().unwrap_or_default() {
                    let replay = json!({"kind": "prog", "name": p.name, "src": p.src, "io": p.io, "only": pr["force"]});
                    fold_problem(&mut report, "prog", &p.name, &pr, replay);
                }
                if i == 0 || i == progs.len() / 2 || i + 1 == progs.len() {
                    report.sample(json!({"program": p.name, "source": p.src, "allocation_points": pts, "runs_under_forced_schedules": runs, "outcome": r["outcome"]}));
                }
            }
            Some(CaseOutcome::Crashed(st)) => {
                // find the placement: rerun the placements one per worker call
                let fam = p.name.split(':').next().unwrap_or("");
                report.violation(
                    format!("c05:prog:{}:process-died-under-forced-collection", fam),
                    format!("{}: the process died while the program ran under forced collection schedules: {}", p.name, st),
                    json!({"kind": "prog", "name": p.name, "src": p.src, "io": p.io}),
                );
            }
            Some(CaseOutcome::Hung) => {
                report.machinery(format!("program {} exceeded the per-case time limit", p.name));
            }
        }
    }
    // residue after a run must not grow with the size of the data the run allocated
    for (fam, rs) in &residues {
        let first = rs[0].1;
        if rs.iter().any(|(_, r)| *r != first) {
            report.violation(
                format!("c05:residue-grows-with-data:{}", fam),
                format!("accounted memory left after drop + collect depends on the amount of data the run allocated: {:?}", rs),
                json!({"kind": "residue", "family": fam, "residues": rs.iter().map(|(n, r)| json!([n, r])).collect::<Vec<_>>()}),
            );
        }
    }
    report.set("per_family_programs_points_runs", json!(per_family.iter().map(|(k, v)| (k.clone(), json!([v.0, v.1, v.2]))).collect::<BTreeMap<_, _>>()));
    report.set("programs", done_progs);
    report.set("programs_in_space", progs.len() as u64);
    report.set("forced_collections", forced_total);
    report.set("allocation_points_histogram", json!(points_hist));
    report.set("outcome_classes", json!(classes));
    let mut exhaustive = !iso.capped;

    // ---- 2. host handle histories
    let hdepth = if quick { 3 } else { 4 };
    let halpha = h_alphabet(if quick { 2 } else { 3 });
    let hseqs = all_sequences(&halpha, hdepth);
    let everys: Vec<u64> = if quick { vec![0, 1] } else { vec![0, 1, 2, 5] };
    let htexts: Vec<String> = hseqs.iter().map(|s| s.iter().map(hop_text).collect::<Vec<_>>().join(" ")).collect();
    let hcases: Vec<String> = htexts.chunks(32).map(|c| json!({"kind": "hist", "seqs": c.join("\n"), "every": everys}).to_string()).collect();
    let iso2 = isolate::run_isolated("c05", &hcases, par::n_workers(), Duration::from_secs(120), Some(deadline));
    let mut hist_done = 0u64;
    let mut hist_steps = 0u64;
    for (ci, o) in iso2.outcomes.iter().enumerate() {
        let chunk: Vec<&String> = htexts.chunks(32).nth(ci).map(|c| c.iter().collect()).unwrap_or_default();
        match o {
            None => {}
            Some(CaseOutcome::Done(res)) => {
                let r: Value = serde_json::from_str(res).unwrap_or(json!({}));
                for (k, s) in chunk.iter().enumerate() {
                    hist_done += 1;
                    hist_steps += (hdepth * everys.len()) as u64;
                    for pr in r["results"][k].as_array().cloned().unwrap_or_default() {
                        fold_problem(&mut report, "hist", s, &pr, json!({"kind": "hist", "seqs": s, "every": [pr["every"]]}));
                    }
                }
            }
            Some(CaseOutcome::Crashed(st)) => report.violation(
                "c05:hist::process-died",
                format!("the process died while replaying one of the handle histories {:?}: {}", chunk.iter().take(3).collect::<Vec<_>>(), st),
                json!({"kind": "hist", "seqs": chunk.iter().map(|s| s.as_str()).collect::<Vec<_>>().join("\n"), "every": everys}),
            ),
            Some(CaseOutcome::Hung) => report.machinery("a chunk of handle histories exceeded the time limit"),
        }
    }
    exhaustive &= !iso2.capped;
    report.set("handle_histories", hist_done);
    report.set("handle_histories_in_space", htexts.len() as u64);
    report.set("handle_history_depth", hdepth as u64);
    report.set("handle_history_alphabet", json!(halpha.iter().map(hop_text).collect::<Vec<_>>()));
    if let Some(s) = htexts.get(htexts.len() / 2) {
        report.sample(json!({"handle_history": s, "forced_every": everys}));
    }

    // ---- 3. module-level cells
    let mut cell_done = 0u64;
    let mut cell_space = 0u64;
    for family in ["ref", "lazy"] {
        let cdepth = if quick { 3 } else { if family == "ref" { 4 } else { 5 } };
        let calpha = c_alphabet(family, 2);
        let cseqs = all_sequences(&calpha, cdepth);
        let ctexts: Vec<String> = cseqs.iter().map(|s| s.iter().map(cop_text).collect::<Vec<_>>().join(" ")).collect();
        cell_space += ctexts.len() as u64;
        let ceverys: Vec<u64> = if quick { vec![0, 1] } else { vec![0, 1, 3] };
        let ccases: Vec<String> = ctexts.chunks(16).map(|c| json!({"kind": "cell", "family": family, "seqs": c.join("\n"), "every": ceverys}).to_string()).collect();
        let iso3 = isolate::run_isolated("c05", &ccases, par::n_workers(), Duration::from_secs(120), Some(deadline));
        let mut crashed: Vec<String> = Vec::new();
        for (ci, o) in iso3.outcomes.iter().enumerate() {
            let chunk: Vec<&String> = ctexts.chunks(16).nth(ci).map(|c| c.iter().collect()).unwrap_or_default();
            match o {
                None => {}
                Some(CaseOutcome::Done(res)) => {
                    let r: Value = serde_json::from_str(res).unwrap_or(json!({}));
                    for (k, s) in chunk.iter().enumerate() {
                        cell_done += 1;
                        hist_steps += (cdepth * ceverys.len()) as u64;
                        for pr in r["results"][k].as_array().cloned().unwrap_or_default() {
                            let key_scope = format!("cell-{}", family);
                            fold_problem(&mut report, &key_scope, s, &pr, json!({"kind": "cell", "family": family, "seqs": s, "every": [pr["every"]]}));
                        }
                    }
                }
                Some(CaseOutcome::Crashed(_)) => crashed.extend(chunk.iter().map(|s| s.to_string())),
                Some(CaseOutcome::Hung) => report.machinery("a chunk of module cell histories exceeded the time limit"),
            }
        }
        // chunks that died: one history per case so that the culprit is named
        if !crashed.is_empty() {
            let single: Vec<String> = crashed.iter().map(|s| json!({"kind": "cell", "family": family, "seqs": s, "every": ceverys}).to_string()).collect();
            let iso4 = isolate::run_isolated("c05", &single, par::n_workers(), Duration::from_secs(60), None);
            for (i, o) in iso4.outcomes.iter().enumerate() {
                cell_done += 1;
                match o {
                    Some(CaseOutcome::Done(res)) => {
                        let r: Value = serde_json::from_str(res).unwrap_or(json!({}));
                        for pr in r["results"][0].as_array().cloned().unwrap_or_default() {
                            fold_problem(&mut report, &format!("cell-{}", family), &crashed[i], &pr, json!({"kind": "cell", "family": family, "seqs": crashed[i], "every": [pr["every"]]}));
                        }
                    }
                    Some(CaseOutcome::Crashed(st)) => report.violation(
                        format!("c05:cell-{}:process-died-at:{}", family, crashed[i].rsplit(' ').next().unwrap_or("").split(|c: char| c.is_ascii_digit() || c == '@').next().unwrap_or("")),
                        format!("history [{}] on a module-level {} kills the process: {}", crashed[i], family, st),
                        json!({"kind": "cell", "family": family, "seqs": crashed[i], "every": ceverys}),
                    ),
                    _ => {}
                }
            }
        }
        exhaustive &= !iso3.capped;
        report.set(&format!("cell_{}_depth", family), cdepth as u64);
        report.set(&format!("cell_{}_alphabet", family), json!(calpha.iter().map(cop_text).collect::<Vec<_>>()));
        if let Some(s) = ctexts.get(ctexts.len() / 3) {
            report.sample(json!({"module_cell_history": s, "family": family}));
        }
    }
    report.set("module_cell_histories", cell_done);
    report.set("module_cell_histories_in_space", cell_space);

    report.set("evaluations", evaluations + hist_steps);
    report.set("distinct_nontrivial", nontrivial.len() as u64 + hist_done + cell_done);
    report.set(
        "rule",
        "a case is (program, forced-collection schedule): every single allocation point, every pair while n(n-1)/2 <= pairs_cap, every k-th for k=1..8; plus every handle / module-cell history of the stated depth over the stated alphabets under the stated periodic schedules. distinct_nontrivial counts distinct program texts with >= 2 allocation points plus the histories replayed (each distinct by construction)",
    );
    report.set("pairs_cap", pairs_cap);
    report.set("exhaustive", exhaustive);
    report.set("wall_cap_hit", !exhaustive);
    report.assume("a collection forced at a check_collect call is a behaviour of the unmodified VM for some earlier allocation history (the trigger is a byte counter the host controls), so forcing cannot create a false alarm");
    report.assume("freed blocks are quarantined and poisoned instead of returned to the allocator: addresses are never reused, so marking or walking a freed object is a precise 'reachable value was freed' report");
    report.assume("memory baseline is differential: accounted memory after drop + collect must not depend on the schedule nor grow with the amount of data a run allocated; a one-time residue per evaluation (compiled module, interned symbols) is not demanded to be zero");
    report.assume("programs are terminating, closed and small; sizes and depths above the stated bounds are not covered");
    report
}

pub fn replay(v: &Value) -> Report {
    let mut report = Report::new("C05", "quick", "fault_enumeration");
    let payload = v.to_string();
    let iso = isolate::run_isolated("c05", &[payload], 1, Duration::from_secs(120), None);
    println!("case: {}\nresult: {:?}", v, iso.outcomes[0]);
    match &iso.outcomes[0] {
        Some(CaseOutcome::Done(res)) => {
            let r: Value = serde_json::from_str(res).unwrap_or(json!({}));
            let bad = r["problems"].as_array().map_or(false, |a| !a.is_empty())
                || r["results"].as_array().map_or(false, |a| a.iter().any(|x| x.as_array().map_or(false, |y| !y.is_empty())));
            if bad {
                report.violation("replay", "reproduced", v.clone());
            }
        }
        Some(_) => report.violation("replay", "reproduced (process died or hung)", v.clone()),
        None => {}
    }
    let _ = IO_BITS;
    report
}
