//! C15 — modules: evaluated once, cycles rejected, reloads never stale.
//!
//! Explicit-state exploration over EDIT HISTORIES of a small module graph, every history replayed
//! on the real implementation through the embedder API (`CompilationBase::add_module`,
//! `ThreadExt::load_script`, `ThreadExt::run_expr`) on ONE long-lived VM.
//!
//! Events   `s<m>.<k>`  register source variant k of module m with `add_module` (no evaluation)
//!          `l<m>.<k>`  register source variant k of module m with `load_script` (evaluates m)
//!          `r<m>`      `load_script(m, current source)`
//!          `e<mask>`   `run_expr("main", program importing the modules in mask and combining them)`
//! The source menu of a module is {value 1|2} x {Int|String} x {well|ill typed} x {import sets,
//! self import and imports closing 2- and 3-cycles included}; modules start ABSENT. Every module
//! body calls `verif.prim.tick "<module>"`, so evaluations are counted.
//!
//! Oracle after every observing step (l, r, e):
//!  (1) outcome (value+type, or the SET of error classes {Cycle, NotFound, Type}) equals the
//!      outcome of a FRESH VM that is given the latest sources and performs only this evaluation
//!      (computed once per (sources, evaluation) in worker processes, recomputed when a violation
//!      is confirmed); the fresh outcome is cross-checked against a plain Rust reference model;
//!      a registered module must never be reported as `Could not find module`;
//!  (2) tick counts: no module body runs twice in one evaluation, and none runs again while no
//!      module source has changed since it last ran (re-runs after a change elsewhere are counted,
//!      not judged: the property text allows them);
//!  (3) a cyclic-dependency error names a chain that is a cycle of the current import graph
//!      (checked for the long-lived and for the fresh VM);
//!  (4) no hang (worker processes with a time limit), no host panic, no process death.
//!
//! Phase A: all event sequences of a fixed length (no dedup). Phase B: breadth-first closure of
//! the MODEL state space (sources of every module, set of modules inside the cone of an
//! evaluation since their last change) — for every reachable model state and every event the
//! history `shortest-path(state) . event . probe-suite` is replayed.
//! Every violation is replayed once more in a new process before it is reported.

use crate::isolate::{self, CaseOutcome};
use crate::par;
use crate::report::Report;
use crate::vmkit::{self, Settings};
use gluon::query::CompilationBase;
use gluon::vm::api::{Hole, OpaqueValue};
use gluon::{RootedThread, ThreadExt};
use serde_json::{json, Value};
use std::collections::{BTreeMap, BTreeSet, HashMap, VecDeque};
use std::time::{Duration, Instant};

pub const NAMES: [&str; 4] = ["c15a", "c15b", "c15c", "c15d"];

#[derive(Clone, Copy, PartialEq, Eq, Hash, Debug, PartialOrd, Ord)]
pub enum Ty {
    Int,
    Str,
}

#[derive(Clone, PartialEq, Eq, Hash, Debug)]
pub struct Variant {
    pub val: u8,
    pub ty: Ty,
    pub ill: bool,
    pub imports: Vec<usize>,
}

impl Variant {
    fn describe(&self) -> String {
        format!(
            "{}{}{}[{}]",
            match self.ty {
                Ty::Int => "Int",
                Ty::Str => "Str",
            },
            self.val,
            if self.ill { "!ill" } else { "" },
            self.imports.iter().map(|i| NAMES[*i]).collect::<Vec<_>>().join(",")
        )
    }
}

/// Gluon source of module `m` in variant `v`. Sources of variants that differ only in the value
/// have the same length (the planted "skip invalidation on equal length" mutant needs that).
pub fn source(m: usize, v: &Variant) -> String {
    let mut s = String::new();
    s.push_str("let p = import! verif.prim\n");
    s.push_str(&format!("let _ = p.tick \"{}\"\n", NAMES[m]));
    for (i, imp) in v.imports.iter().enumerate() {
        s.push_str(&format!("let x{} = import! {}\n", i, NAMES[*imp]));
    }
    match v.ty {
        Ty::Int => {
            s.push_str(&format!("{}", v.val));
            if v.ill {
                s.push_str(" #Int+ \"x\"");
            }
            for i in 0..v.imports.len() {
                s.push_str(&format!(" #Int+ x{}", i));
            }
            s.push('\n');
        }
        Ty::Str => {
            for i in 0..v.imports.len() {
                s.push_str(&format!("let _ = x{} #Int+ 0\n", i));
            }
            s.push_str(&format!("\"{}{}\"\n", NAMES[m], v.val));
        }
    }
    s
}

pub fn main_source(mask: u8) -> String {
    let ms: Vec<usize> = (0..4).filter(|i| mask & (1 << i) != 0).collect();
    let mut s = String::new();
    for m in &ms {
        s.push_str(&format!("let {} = import! {}\n", NAMES[*m], NAMES[*m]));
    }
    s.push_str(&ms.iter().map(|m| NAMES[*m]).collect::<Vec<_>>().join(" #Int+ "));
    s.push('\n');
    s
}

#[derive(Clone, Debug)]
pub struct Cfg {
    pub id: String,
    pub n: usize,
    pub menus: Vec<Vec<Variant>>,
    /// implicit prelude on (suffix `p` of the id)
    pub prelude: bool,
}

impl Cfg {
    fn settings(&self) -> Settings {
        Settings { implicit_prelude: self.prelude, ..Settings::bare() }
    }
    /// id = "<nmods><level>[p]", level f(ull) | r(educed) | t(iny), p = implicit prelude on
    pub fn from_id(id: &str) -> Option<Cfg> {
        let n = id.chars().next()?.to_digit(10)? as usize;
        let level = id.chars().nth(1)?;
        if !(1..=4).contains(&n) || !"frt".contains(level) {
            return None;
        }
        let prelude = match &id[2..] {
            "" => false,
            "p" => true,
            _ => return None,
        };
        let mut menus = Vec::new();
        for m in 0..n {
            let others: Vec<usize> = (0..n).filter(|x| *x != m).collect();
            let next = (m + 1) % n;
            let prev = (m + n - 1) % n;
            let mut sets: Vec<Vec<usize>> = vec![vec![]];
            match level {
                'f' => {
                    for bits in 1u32..(1 << others.len()) {
                        sets.push(others.iter().enumerate().filter(|(i, _)| bits & (1 << i) != 0).map(|(_, o)| *o).collect());
                    }
                    sets.push(vec![m]);
                }
                _ => {
                    if n > 1 {
                        sets.push(vec![next]);
                    }
                    if n > 2 {
                        sets.push(vec![prev]);
                        if level == 'r' {
                            sets.push(vec![next, prev]);
                        }
                    }
                    sets.push(vec![m]);
                }
            }
            let combos = [(1u8, Ty::Int, false), (2, Ty::Int, false), (1, Ty::Str, false), (1, Ty::Int, true)];
            let mut menu = Vec::new();
            for (ci, (val, ty, ill)) in combos.iter().enumerate() {
                for (si, set) in sets.iter().enumerate() {
                    let keep = match level {
                        'f' => true,
                        'r' => ci == 0 || si <= 1,
                        _ => ci == 0 || si == 0,
                    };
                    if keep {
                        menu.push(Variant { val: *val, ty: *ty, ill: *ill, imports: set.clone() });
                    }
                }
            }
            menus.push(menu);
        }
        Some(Cfg { id: id.to_string(), n, menus, prelude })
    }

    fn variant(&self, m: usize, code: u8) -> Option<&Variant> {
        if code == 0 {
            None
        } else {
            self.menus[m].get(code as usize - 1)
        }
    }
}

#[derive(Clone, Copy, PartialEq, Eq, Hash, Debug, PartialOrd, Ord)]
pub enum Ev {
    Set { m: usize, k: usize, load: bool },
    Reload { m: usize },
    Eval { mask: u8 },
}

impl Ev {
    pub fn encode(&self) -> String {
        match self {
            Ev::Set { m, k, load: false } => format!("s{}.{}", m, k),
            Ev::Set { m, k, load: true } => format!("l{}.{}", m, k),
            Ev::Reload { m } => format!("r{}", m),
            Ev::Eval { mask } => format!("e{}", mask),
        }
    }
    pub fn decode(s: &str) -> Option<Ev> {
        let (h, rest) = s.split_at(1.min(s.len()));
        match h {
            "s" | "l" => {
                let (m, k) = rest.split_once('.')?;
                Some(Ev::Set { m: m.parse().ok()?, k: k.parse().ok()?, load: h == "l" })
            }
            "r" => Some(Ev::Reload { m: rest.parse().ok()? }),
            "e" => Some(Ev::Eval { mask: rest.parse().ok()? }),
            _ => None,
        }
    }
    fn observes(&self) -> bool {
        !matches!(self, Ev::Set { load: false, .. })
    }
    fn describe(&self, cfg: &Cfg) -> String {
        match self {
            Ev::Set { m, k, load } => format!(
                "{}({}, {})",
                if *load { "load_script" } else { "add_module" },
                NAMES[*m],
                cfg.menus[*m][*k].describe()
            ),
            Ev::Reload { m } => format!("load_script({}, <unchanged>)", NAMES[*m]),
            Ev::Eval { mask } => format!(
                "run_expr(main importing {})",
                (0..4).filter(|i| mask & (1 << i) != 0).map(|i| NAMES[i]).collect::<Vec<_>>().join("+")
            ),
        }
    }
}

pub fn encode_history(h: &[Ev]) -> String {
    h.iter().map(|e| e.encode()).collect::<Vec<_>>().join(",")
}
pub fn decode_history(s: &str) -> Option<Vec<Ev>> {
    if s.is_empty() {
        return Some(vec![]);
    }
    s.split(',').map(Ev::decode).collect()
}

// ---------------------------------------------------------------------------------------------
// the model (plain Rust; nothing here reads the VM)

#[derive(Clone, PartialEq, Eq, Hash, Debug, PartialOrd, Ord)]
pub struct MState {
    /// 0 = absent, k+1 = menu variant k
    pub src: Vec<u8>,
    /// modules that were inside the import cone of an evaluation since the last change of
    /// themselves or of one of their transitive imports
    pub touched: u8,
}

impl MState {
    pub fn init(cfg: &Cfg) -> MState {
        MState { src: vec![0; cfg.n], touched: 0 }
    }
    fn imports<'a>(&self, cfg: &'a Cfg, m: usize) -> &'a [usize] {
        match cfg.variant(m, self.src[m]) {
            Some(v) => &v.imports,
            None => &[],
        }
    }
    /// reflexive transitive import closure (absent modules are members without out-edges)
    pub fn reach(&self, cfg: &Cfg, roots: u8) -> u8 {
        let mut seen = 0u8;
        let mut stack: Vec<usize> = (0..cfg.n).filter(|i| roots & (1 << i) != 0).collect();
        while let Some(x) = stack.pop() {
            if seen & (1 << x) != 0 {
                continue;
            }
            seen |= 1 << x;
            for i in self.imports(cfg, x) {
                stack.push(*i);
            }
        }
        seen
    }
    /// modules whose cone contains m
    pub fn reaching(&self, cfg: &Cfg, m: usize) -> u8 {
        let mut r = 0u8;
        for x in 0..cfg.n {
            if self.reach(cfg, 1 << x) & (1 << m) != 0 {
                r |= 1 << x;
            }
        }
        r
    }
    fn on_cycle(&self, cfg: &Cfg, m: usize) -> bool {
        self.imports(cfg, m).iter().any(|i| self.reach(cfg, 1 << *i) & (1 << m) != 0)
    }
    fn has_cycle(&self, cfg: &Cfg) -> bool {
        (0..cfg.n).any(|m| self.on_cycle(cfg, m))
    }
    pub fn enabled(&self, _cfg: &Cfg, ev: &Ev) -> bool {
        match ev {
            // registering the text that is already registered: add_module is a documented no-op
            // for `s`; for `l` it is the same event as `r`
            Ev::Set { m, k, .. } => self.src[*m] != *k as u8 + 1,
            Ev::Reload { m } => self.src[*m] != 0,
            Ev::Eval { .. } => true,
        }
    }
    /// the roots of the evaluation an event performs (after the event's own source change)
    fn roots(ev: &Ev) -> u8 {
        match ev {
            Ev::Set { m, load: true, .. } => 1 << m,
            Ev::Set { .. } => 0,
            Ev::Reload { m } => 1 << m,
            Ev::Eval { mask } => *mask,
        }
    }
    pub fn apply(&self, cfg: &Cfg, ev: &Ev) -> MState {
        let mut s = self.clone();
        if let Ev::Set { m, k, .. } = ev {
            if s.src[*m] != *k as u8 + 1 {
                // importers are computed on the graph BEFORE and AFTER the change (the path from
                // an importer to m never uses m's own out-edges, so both agree except for m)
                s.src[*m] = *k as u8 + 1;
                s.touched &= !s.reaching(cfg, *m);
            }
        }
        let roots = MState::roots(ev);
        if roots != 0 {
            s.touched |= s.reach(cfg, roots);
        }
        s
    }
}

#[derive(Clone, Debug, PartialEq, Eq)]
pub enum MVal {
    Int(i64),
    Str(String),
    Err(BTreeSet<&'static str>),
}

/// Reference semantics of the module language of this engine.
fn model_module(cfg: &Cfg, st: &MState, m: usize, stack: &mut Vec<usize>) -> MVal {
    let v = match cfg.variant(m, st.src[m]) {
        None => return MVal::Err(["NotFound"].into_iter().collect()),
        Some(v) => v,
    };
    if stack.contains(&m) {
        return MVal::Err(["Cycle"].into_iter().collect());
    }
    stack.push(m);
    // the checker carries on after a failed import (its type is then unknown), so a module's own
    // type error is reported next to the errors of its imports
    let mut errs: BTreeSet<&'static str> = BTreeSet::new();
    let mut sum = v.val as i64;
    if v.ill {
        errs.insert("Type");
    }
    for i in &v.imports {
        match model_module(cfg, st, *i, stack) {
            MVal::Int(x) => sum += x,
            MVal::Str(_) => {
                errs.insert("Type");
            }
            MVal::Err(e) => errs.extend(e),
        }
    }
    stack.pop();
    if !errs.is_empty() {
        return MVal::Err(errs);
    }
    match v.ty {
        Ty::Int => MVal::Int(sum),
        Ty::Str => MVal::Str(format!("{}{}", NAMES[m], v.val)),
    }
}

/// What an observing event must produce. Load events produce no value: `Int(0)` stands for Ok.
fn model_outcome(cfg: &Cfg, st: &MState, ev: &Ev) -> MVal {
    match ev {
        Ev::Set { m, .. } | Ev::Reload { m } => match model_module(cfg, st, *m, &mut vec![]) {
            MVal::Err(e) => MVal::Err(e),
            _ => MVal::Int(0),
        },
        Ev::Eval { mask } => {
            let ms: Vec<usize> = (0..cfg.n).filter(|i| mask & (1 << i) != 0).collect();
            let vals: Vec<MVal> = ms.iter().map(|m| model_module(cfg, st, *m, &mut vec![])).collect();
            let mut errs = BTreeSet::new();
            for v in &vals {
                match v {
                    MVal::Err(e) => errs.extend(e.iter().cloned()),
                    MVal::Str(_) if vals.len() > 1 => {
                        errs.insert("Type");
                    }
                    _ => {}
                }
            }
            if !errs.is_empty() {
                return MVal::Err(errs);
            }
            if vals.len() == 1 {
                return vals[0].clone();
            }
            MVal::Int(vals.iter().map(|v| if let MVal::Int(x) = v { *x } else { 0 }).sum())
        }
    }
}

// ---------------------------------------------------------------------------------------------
// driving the implementation

#[derive(Clone, Debug, PartialEq, Eq)]
pub struct Sig {
    /// Some("value : type") or Some("()") for a successful load
    pub ok: Option<String>,
    pub classes: BTreeSet<String>,
    /// chains printed by cyclic dependency errors
    pub cycles: BTreeSet<Vec<String>>,
    /// modules in which the diagnostics point
    pub spans: BTreeSet<String>,
    /// modules reported as `Could not find module`
    pub missing: BTreeSet<String>,
    pub text: String,
}

impl Sig {
    fn short(&self) -> String {
        match &self.ok {
            Some(v) => format!("Ok {}", v),
            None => format!("Err {}", self.classes.iter().cloned().collect::<Vec<_>>().join("+")),
        }
    }
    /// Equal value+type, or errors of the same classes. When both report the import cycle, which
    /// follow-on errors (type errors of modules on or above the cycle) accompany it is error
    /// recovery and not compared.
    fn same_verdict(&self, other: &Sig) -> bool {
        self.ok == other.ok && (self.classes == other.classes || (self.classes.contains("Cycle") && other.classes.contains("Cycle")))
    }
}

fn sig_of_error(kind: &str, text: String) -> Sig {
    let mut classes = BTreeSet::new();
    if text.contains("occurs in a cyclic dependency") {
        classes.insert("Cycle".to_string());
    }
    if text.contains("Could not find module") {
        classes.insert("NotFound".to_string());
    }
    if text.contains("Expected the following types to be equal") || text.contains("Types do not match") {
        classes.insert("Type".to_string());
    }
    if kind == "HostPanic" {
        classes.insert("HostPanic".to_string());
    }
    if classes.is_empty() {
        classes.insert(format!("Other:{}:{}", kind, vmkit::first_line(&text).chars().take(80).collect::<String>()));
    }
    let mut cycles = BTreeSet::new();
    let pat = "cyclic dependency: `";
    let mut rest = &text[..];
    while let Some(i) = rest.find(pat) {
        let tail = &rest[i + pat.len()..];
        if let Some(j) = tail.find('`') {
            cycles.insert(tail[..j].split(" -> ").map(|s| s.trim().to_string()).collect::<Vec<_>>());
            rest = &tail[j..];
        } else {
            break;
        }
    }
    let mut spans = BTreeSet::new();
    for line in text.lines() {
        if let Some(i) = line.find("┌─ ") {
            let t = &line[i + "┌─ ".len()..];
            if let Some(j) = t.find(':') {
                spans.insert(t[..j].to_string());
            }
        }
    }
    let mut missing = BTreeSet::new();
    let pat = "Could not find module '";
    let mut rest = &text[..];
    while let Some(i) = rest.find(pat) {
        let tail = &rest[i + pat.len()..];
        match tail.find('\'') {
            Some(j) => {
                missing.insert(tail[..j].to_string());
                rest = &tail[j..];
            }
            None => break,
        }
    }
    Sig { ok: None, classes, cycles, spans, missing, text }
}

/// message without addresses, numbers and module names (for keys)
fn stable_text(t: &str) -> String {
    let mut out = String::new();
    let b: Vec<char> = t.chars().collect();
    let mut i = 0;
    while i < b.len() {
        if b[i] == '0' && i + 1 < b.len() && b[i + 1] == 'x' {
            i += 2;
            while i < b.len() && b[i].is_ascii_hexdigit() {
                i += 1;
            }
            out.push_str("ADDR");
            continue;
        }
        if !b[i].is_ascii_digit() {
            out.push(b[i]);
        }
        i += 1;
    }
    for n in NAMES.iter() {
        let stripped: String = n.chars().filter(|c| !c.is_ascii_digit()).collect();
        out = out.replace(&format!("{}`", stripped), "M`").replace(&format!("in {}.", stripped), "in M.");
    }
    out.chars().take(110).collect()
}

fn kind_of(e: &gluon::Error) -> String {
    format!("{:?}", vmkit::classify_error(e).0)
}

fn catch<T>(f: impl FnOnce() -> Result<T, gluon::Error>) -> Result<T, Sig> {
    match std::panic::catch_unwind(std::panic::AssertUnwindSafe(f)) {
        Ok(Ok(v)) => Ok(v),
        Ok(Err(e)) => Err(sig_of_error(&kind_of(&e), e.to_string())),
        Err(p) => Err(sig_of_error("HostPanic", format!("host panic: {} @ {}", vmkit::panic_message(&p), vmkit::last_panic_loc()))),
    }
}

fn ok_sig(v: String) -> Sig {
    Sig { ok: Some(v), classes: BTreeSet::new(), cycles: BTreeSet::new(), spans: BTreeSet::new(), missing: BTreeSet::new(), text: String::new() }
}

fn do_eval(vm: &RootedThread, mask: u8) -> Sig {
    let src = main_source(mask);
    match catch(|| vm.run_expr::<OpaqueValue<RootedThread, Hole>>("main", &src).map(|(v, t)| format!("{} : {}", vmkit::walk(v.get_ref(), 8), t))) {
        Ok(v) => ok_sig(v),
        Err(s) => s,
    }
}

fn do_load(vm: &RootedThread, m: usize, src: &str) -> Sig {
    match catch(|| vm.load_script(NAMES[m], src)) {
        Ok(()) => ok_sig("()".to_string()),
        Err(s) => s,
    }
}

fn do_add(vm: &RootedThread, m: usize, src: &str) -> Result<(), Sig> {
    catch(|| {
        vm.get_database_mut().add_module(NAMES[m].to_string(), src);
        Ok(())
    })
}

fn ticks_now(n: usize) -> Vec<u64> {
    (0..n).map(|m| vmkit::ticks_of(NAMES[m])).collect()
}

/// The oracle: a fresh VM that is given the latest sources and performs only this evaluation.
fn fresh_outcome(cfg: &Cfg, st: &MState, ev: &Ev) -> Sig {
    let saved = vmkit::take_ticks();
    let vm = vmkit::make_vm_with_prim(cfg.settings());
    let target = match ev {
        Ev::Set { m, .. } | Ev::Reload { m } => Some(*m),
        _ => None,
    };
    let mut sig = None;
    for m in 0..cfg.n {
        if Some(m) == target {
            continue;
        }
        if let Some(v) = cfg.variant(m, st.src[m]) {
            if let Err(s) = do_add(&vm, m, &source(m, v)) {
                sig = Some(s);
            }
        }
    }
    let sig = match sig {
        Some(s) => s,
        None => match ev {
            Ev::Eval { mask } => do_eval(&vm, *mask),
            Ev::Set { m, .. } | Ev::Reload { m } => match cfg.variant(*m, st.src[*m]) {
                Some(v) => do_load(&vm, *m, &source(*m, v)),
                None => sig_of_error("Machinery", "load of an absent module".into()),
            },
        },
    };
    drop(vm);
    vmkit::TICKS.with(|t| *t.borrow_mut() = saved);
    sig
}

#[derive(Clone, Debug)]
pub struct Viol {
    pub key: String,
    pub what: String,
    pub step: usize,
}

#[derive(Default)]
pub struct Stats {
    pub steps: u64,
    pub observations: u64,
    pub fresh_runs: u64,
    pub sigs: BTreeMap<String, u64>,
    pub soft: BTreeMap<String, u64>,
    pub soft_samples: Vec<String>,
    pub reevals_outside_cone_in_new_segment: u64,
    pub facts: BTreeMap<String, u64>,
}

/// The fresh-VM oracle table: entries computed by the parent (raw JSON, parsed on first use) and
/// entries computed on demand.
#[derive(Default)]
pub struct Memo {
    parsed: HashMap<String, Sig>,
    raw: HashMap<String, String>,
}

impl Memo {
    fn get(&mut self, key: &str) -> Option<Sig> {
        if let Some(s) = self.parsed.get(key) {
            return Some(s.clone());
        }
        let sig = Sig::from_json(&serde_json::from_str::<Value>(self.raw.get(key)?).ok()?);
        self.parsed.insert(key.to_string(), sig.clone());
        Some(sig)
    }
    fn insert(&mut self, key: String, sig: Sig) {
        self.parsed.insert(key, sig);
    }
    fn load(path: &std::ffi::OsStr) -> Memo {
        let mut m = Memo::default();
        if let Ok(text) = std::fs::read_to_string(path) {
            for line in text.lines() {
                if let Some((k, v)) = line.split_once('\t') {
                    m.raw.insert(k.to_string(), v.to_string());
                }
            }
        }
        m
    }
}

/// key of the fresh-VM oracle: the latest sources and the evaluation performed
fn fresh_key(st: &MState, ev: &Ev) -> String {
    let ev = match ev {
        Ev::Set { m, .. } => Ev::Reload { m: *m },
        e => *e,
    };
    format!("{}|{}", st.src.iter().map(|c| c.to_string()).collect::<Vec<_>>().join("."), ev.encode())
}

fn parse_fresh_key(cfg: &Cfg, key: &str) -> Option<(MState, Ev)> {
    let (src, ev) = key.split_once('|')?;
    let src: Vec<u8> = src.split('.').map(|x| x.parse().ok()).collect::<Option<Vec<u8>>>()?;
    if src.len() != cfg.n {
        return None;
    }
    Some((MState { src, touched: 0 }, Ev::decode(ev)?))
}

impl Sig {
    fn to_json(&self) -> Value {
        json!({
            "ok": self.ok, "classes": self.classes, "cycles": self.cycles, "spans": self.spans, "missing": self.missing,
            "text": self.text.chars().take(400).collect::<String>(),
        })
    }
    fn from_json(v: &Value) -> Sig {
        let set = |x: &Value| -> BTreeSet<String> { x.as_array().map(|a| a.iter().filter_map(|s| s.as_str().map(|s| s.to_string())).collect()).unwrap_or_default() };
        Sig {
            ok: v["ok"].as_str().map(|s| s.to_string()),
            classes: set(&v["classes"]),
            cycles: v["cycles"].as_array().map(|a| a.iter().map(|c| c.as_array().map(|x| x.iter().filter_map(|s| s.as_str().map(|s| s.to_string())).collect::<Vec<_>>()).unwrap_or_default()).collect()).unwrap_or_default(),
            spans: set(&v["spans"]),
            missing: set(&v["missing"]),
            text: v["text"].as_str().unwrap_or("").to_string(),
        }
    }
}

fn change_kinds(cfg: &Cfg, before: &MState, after: &MState, m: usize) -> String {
    let old = cfg.variant(m, before.src[m]);
    let new = cfg.variant(m, after.src[m]).unwrap();
    let mut ks: Vec<&str> = Vec::new();
    match old {
        None => ks.push("add-module"),
        Some(o) => {
            if o.val != new.val {
                ks.push("change-value");
            }
            if o.ty != new.ty {
                ks.push("change-type");
            }
            if !o.ill && new.ill {
                ks.push("introduce-type-error");
            }
            if o.ill && !new.ill {
                ks.push("remove-type-error");
            }
            if new.imports.iter().any(|i| !o.imports.contains(i)) {
                ks.push("add-import");
            }
            if o.imports.iter().any(|i| !new.imports.contains(i)) {
                ks.push("remove-import");
            }
        }
    }
    let (cb, ca) = (before.has_cycle(cfg), after.has_cycle(cfg));
    if !cb && ca {
        ks.push("introduce-cycle");
    }
    if cb && !ca {
        ks.push("remove-cycle");
    }
    ks.join("+")
}

/// Replays one history on a new long-lived VM and checks the oracle after every observing step.
pub fn check_history(cfg: &Cfg, evs: &[Ev], mut memo: Option<&mut Memo>, stats: &mut Stats, verbose: bool) -> Vec<Viol> {
    let mut viols = Vec::new();
    vmkit::take_ticks();
    let vm = vmkit::make_vm_with_prim(cfg.settings());
    let mut st = MState::init(cfg);
    // ticked since the last change inside the module's cone
    let mut clean = 0u8;
    // ticks since the last change of ANY module
    let mut seg = vec![0u64; cfg.n];
    // description of changes since the previous observation
    let mut changes: Vec<String> = Vec::new();
    for (i, ev) in evs.iter().enumerate() {
        stats.steps += 1;
        if !st.enabled(cfg, ev) && matches!(ev, Ev::Reload { .. }) {
            viols.push(Viol { key: "machinery:disabled-event".into(), what: format!("event {} not enabled", ev.encode()), step: i });
            break;
        }
        let before_ticks = ticks_now(cfg.n);
        let before_st = st.clone();
        st = st.apply(cfg, ev);
        if let Ev::Set { m, load, .. } = ev {
            if before_st.src[*m] != st.src[*m] {
                clean &= !st.reaching(cfg, *m);
                for s in seg.iter_mut() {
                    *s = 0;
                }
                changes.push(format!("{}@{}:{}", change_kinds(cfg, &before_st, &st, *m), "{REL}", if *load { "load_script" } else { "add_module" }).replace("{REL}", &format!("m{}", m)));
            }
        }
        let sig = match ev {
            Ev::Set { m, load: false, .. } => {
                let v = cfg.variant(*m, st.src[*m]).unwrap();
                match do_add(&vm, *m, &source(*m, v)) {
                    Ok(()) => None,
                    Err(s) => Some(s),
                }
            }
            Ev::Set { m, .. } | Ev::Reload { m } => {
                let v = cfg.variant(*m, st.src[*m]).unwrap();
                Some(do_load(&vm, *m, &source(*m, v)))
            }
            Ev::Eval { mask } => Some(do_eval(&vm, *mask)),
        };
        let sig = match sig {
            Some(s) => s,
            None => continue,
        };
        if !ev.observes() {
            // add_module itself failed (host panic)
            viols.push(Viol { key: "host-panic:add_module".into(), what: format!("step {} {}: {}", i, ev.describe(cfg), sig.text), step: i });
            break;
        }
        stats.observations += 1;
        let roots = MState::roots(ev);
        let rel = |desc: &str| -> String {
            // rewrite m<idx> into root|dep|other relative to this observation
            let mut out = desc.to_string();
            for m in 0..cfg.n {
                let r = if roots & (1 << m) != 0 {
                    "root"
                } else if st.reach(cfg, roots) & (1 << m) != 0 {
                    "dep"
                } else {
                    "other"
                };
                out = out.replace(&format!("@m{}:", m), &format!("@{}:", r));
            }
            out
        };
        let obs_kind = match ev {
            Ev::Eval { .. } => "run_expr",
            Ev::Reload { .. } => "load_script-unchanged",
            _ => "load_script-changed",
        };
        let shape = |changes: &Vec<String>| -> String {
            // kinds of change since the previous observation, where they happened relative to
            // this evaluation (root | dep | other) and through which API
            let mut cs: Vec<String> = changes.iter().map(|c| rel(c)).collect();
            cs.sort();
            cs.dedup();
            format!("after[{}]:at={}", cs.join(","), obs_kind)
        };
        // ---- (2) evaluation counts
        let after_ticks = ticks_now(cfg.n);
        for m in 0..cfg.n {
            let d = after_ticks[m] - before_ticks[m];
            if d > 1 {
                viols.push(Viol {
                    key: format!("double-eval:{}-times-in-one-evaluation", d),
                    what: format!("step {} {}: body of {} ran {} times during this one evaluation", i, ev.describe(cfg), NAMES[m], d),
                    step: i,
                });
            } else if d == 1 && clean & (1 << m) != 0 {
                if seg[m] >= 1 {
                    viols.push(Viol {
                        key: format!("double-eval:no-source-changed-since-last-evaluation:at={}", obs_kind),
                        what: format!(
                            "step {} {}: body of {} ran again although NO module source changed since it was last evaluated",
                            i,
                            ev.describe(cfg),
                            NAMES[m]
                        ),
                        step: i,
                    });
                } else {
                    // a change OUTSIDE the module's import cone re-ran it: allowed by the property
                    // text ("as long as no module source is changed"), recorded only
                    stats.reevals_outside_cone_in_new_segment += 1;
                }
            }
            if d >= 1 {
                clean |= 1 << m;
            }
            seg[m] += d;
        }
        // ---- (1) fresh-VM differential
        let key = fresh_key(&st, ev);
        let fresh = match memo.as_mut().and_then(|mm| mm.get(&key)) {
            Some(s) => s,
            None => {
                stats.fresh_runs += 1;
                let s = fresh_outcome(cfg, &st, ev);
                if let Some(mm) = memo.as_mut() {
                    mm.insert(key, s.clone());
                }
                s
            }
        };
        *stats.sigs.entry(sig.short()).or_insert(0) += 1;
        *stats.facts.entry(format!("observations-by-{}", obs_kind)).or_insert(0) += 1;
        for chain in &sig.cycles {
            *stats.facts.entry(format!("cycle-errors-naming-{}-modules", chain.len().saturating_sub(1))).or_insert(0) += 1;
        }
        if (0..cfg.n).any(|m| after_ticks[m] > before_ticks[m]) {
            *stats.facts.entry("observations-that-evaluated-a-module-body".into()).or_insert(0) += 1;
        }
        if verbose {
            println!("  step {} {:<46} -> {}   [fresh: {}] ticks {:?}", i, ev.describe(cfg), sig.short(), fresh.short(), after_ticks);
            if !sig.text.is_empty() {
                println!("      long-lived: {}", sig.text.replace('\n', " | "));
            }
            if !fresh.text.is_empty() {
                println!("      fresh:      {}", fresh.text.replace('\n', " | "));
            }
        }
        // modules that are registered but reported as not found
        let registered_missing: Vec<&String> = sig
            .missing
            .iter()
            .filter(|n| NAMES.iter().position(|x| x == n).map(|m| m < cfg.n && st.src[m] != 0).unwrap_or(false))
            .collect();
        let verdict_text = |s: &Sig, other: &Sig| -> String {
            match (&s.ok, &other.ok) {
                (Some(a), Some(b)) if a != b => "Ok(different-value-or-type)".to_string(),
                (Some(_), _) => "Ok".to_string(),
                (None, _) => format!("Err={}", s.classes.iter().map(|c| c.split(':').next().unwrap_or("")).collect::<Vec<_>>().join("+")),
            }
        };
        if sig.classes.contains("HostPanic") {
            viols.push(Viol {
                key: format!("host-panic:{}", stable_text(&vmkit::first_line(&sig.text))),
                what: format!("step {} {}: {}", i, ev.describe(cfg), sig.text),
                step: i,
            });
        } else if !registered_missing.is_empty() {
            viols.push(Viol {
                key: "stale:module-registered-after-a-failed-import-is-still-reported-not-found".to_string(),
                what: format!(
                    "step {} {}: the long-lived VM still answers `Could not find module '{}'` although that module has been registered; a fresh VM with the latest sources gives `{}`",
                    i,
                    ev.describe(cfg),
                    registered_missing[0],
                    fresh.short()
                ),
                step: i,
            });
        } else if !sig.same_verdict(&fresh) {
            viols.push(Viol {
                key: format!("stale:fresh={}:long-lived={}:{}", verdict_text(&fresh, &sig), verdict_text(&sig, &fresh), shape(&changes)),
                what: format!(
                    "step {} {}: the long-lived VM gives `{}` but a fresh VM with the latest sources gives `{}` (long-lived message: {} || fresh message: {})",
                    i,
                    ev.describe(cfg),
                    sig.short(),
                    fresh.short(),
                    vmkit::first_line(&sig.text),
                    vmkit::first_line(&fresh.text)
                ),
                step: i,
            });
        } else {
            if sig.classes != fresh.classes {
                *stats.soft.entry("errors-accompanying-a-cycle-differ-from-fresh".into()).or_insert(0) += 1;
            }
            if sig.cycles != fresh.cycles {
                *stats.soft.entry("cycle-chain-differs-from-fresh".into()).or_insert(0) += 1;
                if stats.soft_samples.iter().filter(|x| x.starts_with("cycle-chain")).count() < 2 {
                    stats.soft_samples.push(format!("cycle-chain: {} step {}: {:?} vs fresh {:?}", encode_history(evs), i, sig.cycles, fresh.cycles));
                }
            }
            if sig.spans != fresh.spans {
                *stats.soft.entry("diagnostic-modules-differ-from-fresh".into()).or_insert(0) += 1;
                if stats.soft_samples.iter().filter(|x| x.starts_with("diagnostic-modules")).count() < 2 {
                    stats.soft_samples.push(format!("diagnostic-modules: {} step {}: {:?} vs fresh {:?}", encode_history(evs), i, sig.spans, fresh.spans));
                }
            }
        }
        // ---- reference model vs the fresh VM (the oracle's own sanity) and vs the long-lived VM
        let model = model_outcome(cfg, &st, ev);
        let model_short = match &model {
            MVal::Int(x) => match ev {
                Ev::Eval { .. } => format!("Ok {} : Int", x),
                _ => "Ok ()".to_string(),
            },
            MVal::Str(s) => format!("Ok {:?} : String", s),
            MVal::Err(_) => "Err".to_string(),
        };
        let fresh_short = if fresh.ok.is_some() { fresh.short() } else { "Err".to_string() };
        if model_short != fresh_short {
            viols.push(Viol {
                key: format!("fresh-vm-differs-from-reference-model:model={}:fresh={}", model_short.replace(' ', "="), fresh.short().replace(' ', "=")),
                what: format!("step {} {}: reference model says `{}`, a fresh VM says `{}` ({})", i, ev.describe(cfg), model_short, fresh.short(), vmkit::first_line(&fresh.text)),
                step: i,
            });
        }
        if let MVal::Err(classes) = &model {
            let got: BTreeSet<&str> = fresh.classes.iter().map(|s| s.as_str()).collect();
            let want: BTreeSet<&str> = classes.iter().cloned().collect();
            if got != want {
                *stats.soft.entry(format!("error-classes-model={:?}-fresh={:?}", want, got)).or_insert(0) += 1;
            }
            // ---- (3) a cycle is reported as a cycle and names a cycle of the current graph
            if classes.len() == 1 && classes.contains("Cycle") && !sig.classes.contains("Cycle") && sig.same_verdict(&fresh) {
                viols.push(Viol {
                    key: format!("cycle-not-reported-as-cycle:{}", sig.short().replace(' ', "=")),
                    what: format!("step {} {}: the only defect of the sources is an import cycle but the error is `{}`", i, ev.describe(cfg), vmkit::first_line(&sig.text)),
                    step: i,
                });
            }
        }
        // ---- (3) the named chain is a cycle of the current import graph (both VMs)
        for (who, sg) in [("long-lived", &sig), ("fresh", &fresh)] {
            if who == "long-lived" && !registered_missing.is_empty() {
                continue;
            }
            for chain in &sg.cycles {
                let idx: Vec<Option<usize>> = chain.iter().map(|n| NAMES.iter().position(|x| x == n).filter(|m| *m < cfg.n)).collect();
                let closed = chain.len() >= 2 && chain.first() == chain.last();
                let fwd = idx.windows(2).all(|w| match (w[0], w[1]) {
                    (Some(a), Some(b)) => st.imports(cfg, a).contains(&b),
                    _ => false,
                });
                let bwd = idx.windows(2).all(|w| match (w[0], w[1]) {
                    (Some(a), Some(b)) => st.imports(cfg, b).contains(&a),
                    _ => false,
                });
                if closed && (fwd || bwd) {
                    continue;
                }
                let all_on_cycles = idx.iter().all(|m| m.map(|m| st.on_cycle(cfg, m)).unwrap_or(false));
                let kind = if !closed {
                    "chain-not-closed"
                } else if all_on_cycles {
                    "chain-omits-modules-of-the-cycle"
                } else {
                    "names-a-module-that-is-on-no-cycle"
                };
                viols.push(Viol {
                    key: format!("cycle-misnamed:{}:{}-vm", kind, who),
                    what: format!(
                        "step {} {}: the {} VM's error names `{}` which is not a cycle of the current import graph",
                        i,
                        ev.describe(cfg),
                        who,
                        chain.join(" -> ")
                    ),
                    step: i,
                });
            }
        }
        changes.clear();
    }
    viols
}

// ---------------------------------------------------------------------------------------------
// worker side

thread_local! {
    static MEMO: std::cell::RefCell<HashMap<String, Memo>> = std::cell::RefCell::new(HashMap::new());
}

/// payload: `<cfg id>|<history>;<history>;...` ; answer: JSON
pub fn worker(payload: &str) -> String {
    let (cfg_id, rest) = payload.split_once('|').unwrap_or(("", ""));
    if let Some(cfg_id) = cfg_id.strip_prefix('F') {
        // oracle mode: `F<cfg>|<fresh key>;...` -> outcome of a fresh VM per key
        let cfg = match Cfg::from_id(cfg_id) {
            Some(c) => c,
            None => return json!({"error": format!("bad cfg {}", cfg_id)}).to_string(),
        };
        let mut out = serde_json::Map::new();
        for key in rest.split(';') {
            if let Some((st, ev)) = parse_fresh_key(&cfg, key) {
                out.insert(key.to_string(), fresh_outcome(&cfg, &st, &ev).to_json());
            }
        }
        return json!({"fresh": out}).to_string();
    }
    let (confirm, cfg_id) = match cfg_id.strip_prefix('C') {
        Some(c) => (true, c),
        None => (false, cfg_id),
    };
    let cfg = match Cfg::from_id(cfg_id) {
        Some(c) => c,
        None => return json!({"error": format!("bad cfg {}", cfg_id)}).to_string(),
    };
    let verbose = std::env::var_os("C15_VERBOSE").is_some();
    let mut stats = Stats::default();
    let mut out: Vec<Value> = Vec::new();
    let mut done = 0u64;
    MEMO.with(|memo| {
        let mut memo = memo.borrow_mut();
        let memo = memo.entry(cfg_id.to_string()).or_insert_with(|| {
            // the oracle table the parent computed (missing entries are computed on demand)
            match std::env::var_os(format!("C15_ORACLE_{}", cfg_id)) {
                Some(path) if !confirm => Memo::load(&path),
                _ => Memo::default(),
            }
        });
        for h in rest.split(';') {
            let evs = match decode_history(h) {
                Some(e) => e,
                None => {
                    out.push(json!({"h": h, "key": "machinery:bad-history", "what": "cannot decode", "step": 0}));
                    continue;
                }
            };
            if verbose {
                println!("history {}", h);
            }
            // confirm mode recomputes the fresh-VM oracle instead of using the table
            let viols = if confirm { check_history(&cfg, &evs, None, &mut stats, verbose) } else { check_history(&cfg, &evs, Some(&mut *memo), &mut stats, verbose) };
            done += 1;
            for v in &viols {
                out.push(json!({"h": h, "key": v.key, "what": v.what, "step": v.step}));
            }
        }
    });
    json!({
        "done": done,
        "steps": stats.steps,
        "observations": stats.observations,
        "fresh_runs": stats.fresh_runs,
        "reevals": stats.reevals_outside_cone_in_new_segment,
        "sigs": stats.sigs,
        "soft": stats.soft,
        "facts": stats.facts,
        "soft_samples": stats.soft_samples,
        "viol": out,
    })
    .to_string()
}

// ---------------------------------------------------------------------------------------------
// parent side: enumeration

pub fn alphabet(cfg: &Cfg) -> Vec<Ev> {
    let mut evs = Vec::new();
    for m in 0..cfg.n {
        for k in 0..cfg.menus[m].len() {
            evs.push(Ev::Set { m, k, load: false });
            evs.push(Ev::Set { m, k, load: true });
        }
    }
    for m in 0..cfg.n {
        evs.push(Ev::Reload { m });
    }
    for mask in 1u8..(1 << cfg.n) {
        evs.push(Ev::Eval { mask });
    }
    evs
}

/// Phase A: every sequence of exactly `depth` enabled events whose last event observes (shorter
/// sequences are prefixes and every step is checked). Returns (histories, tree nodes).
pub fn all_sequences(cfg: &Cfg, depth: usize) -> (Vec<String>, u64) {
    let alpha = alphabet(cfg);
    let mut out = Vec::new();
    let mut nodes = 0u64;
    fn rec(cfg: &Cfg, alpha: &[Ev], st: &MState, h: &mut Vec<Ev>, depth: usize, out: &mut Vec<String>, nodes: &mut u64) {
        for ev in alpha {
            if !st.enabled(cfg, ev) {
                continue;
            }
            let last = h.len() + 1 == depth;
            if last && !ev.observes() {
                continue;
            }
            *nodes += 1;
            h.push(*ev);
            if last {
                out.push(encode_history(h));
            } else {
                let s2 = st.apply(cfg, ev);
                rec(cfg, alpha, &s2, h, depth, out, nodes);
            }
            h.pop();
        }
    }
    rec(cfg, &alpha, &MState::init(cfg), &mut vec![], depth, &mut out, &mut nodes);
    (out, nodes)
}

pub struct Closure {
    pub histories: Vec<String>,
    pub states: u64,
    pub transitions: u64,
    pub max_depth: usize,
    pub complete: bool,
}

/// Phase B: breadth-first closure of the model state space; one history per (state, event).
pub fn closure(cfg: &Cfg, max_depth: usize, max_histories: usize) -> Closure {
    let alpha = alphabet(cfg);
    let probes: Vec<Ev> = {
        let mut p: Vec<Ev> = (0..cfg.n).map(|m| Ev::Eval { mask: 1 << m }).collect();
        if cfg.n > 1 {
            p.push(Ev::Eval { mask: (1 << cfg.n) - 1 });
        }
        p
    };
    let init = MState::init(cfg);
    let mut rep: HashMap<MState, Vec<Ev>> = HashMap::new();
    rep.insert(init.clone(), vec![]);
    let mut queue: VecDeque<MState> = VecDeque::new();
    queue.push_back(init);
    let mut histories = Vec::new();
    let mut transitions = 0u64;
    let mut maxd = 0;
    let mut complete = true;
    while let Some(s) = queue.pop_front() {
        let h = rep[&s].clone();
        if h.len() >= max_depth || histories.len() >= max_histories {
            complete = false;
            continue;
        }
        for ev in &alpha {
            if !s.enabled(cfg, ev) {
                continue;
            }
            transitions += 1;
            let s2 = s.apply(cfg, ev);
            let mut hh = h.clone();
            hh.push(*ev);
            maxd = maxd.max(hh.len());
            if !rep.contains_key(&s2) {
                rep.insert(s2.clone(), hh.clone());
                queue.push_back(s2);
            }
            // the probe suite observes the state reached (each probe is itself checked)
            if !ev.observes() {
                hh.extend(probes.iter().cloned());
            } else {
                hh.push(*probes.last().unwrap());
            }
            histories.push(encode_history(&hh));
        }
    }
    Closure { histories, states: rep.len() as u64, transitions, max_depth: maxd, complete }
}

#[derive(Default)]
struct Merge {
    done: u64,
    steps: u64,
    observations: u64,
    fresh_runs: u64,
    reevals: u64,
    sigs: BTreeMap<String, u64>,
    soft: BTreeMap<String, u64>,
    facts: BTreeMap<String, u64>,
    soft_samples: Vec<String>,
    /// key -> (number of violating histories, up to 3 shortest candidates (length, cfg, history prefix, what))
    viol: BTreeMap<String, (u64, Vec<(usize, String, String, String)>)>,
}

impl Merge {
    fn absorb(&mut self, cfg_id: &str, res: &str) -> bool {
        let v: Value = match serde_json::from_str(res) {
            Ok(v) => v,
            Err(_) => return false,
        };
        if v.get("error").is_some() {
            return false;
        }
        self.done += v["done"].as_u64().unwrap_or(0);
        self.steps += v["steps"].as_u64().unwrap_or(0);
        self.observations += v["observations"].as_u64().unwrap_or(0);
        self.fresh_runs += v["fresh_runs"].as_u64().unwrap_or(0);
        self.reevals += v["reevals"].as_u64().unwrap_or(0);
        for (name, dst) in [("sigs", &mut self.sigs), ("soft", &mut self.soft), ("facts", &mut self.facts)] {
            if let Some(o) = v[name].as_object() {
                for (k, n) in o {
                    *dst.entry(k.clone()).or_insert(0) += n.as_u64().unwrap_or(0);
                }
            }
        }
        if let Some(a) = v["soft_samples"].as_array() {
            for s in a {
                let s = s.as_str().unwrap_or("").to_string();
                let kind = s.split(':').next().unwrap_or("").to_string();
                if self.soft_samples.iter().filter(|x| x.starts_with(&kind)).count() < 3 && !self.soft_samples.contains(&s) {
                    self.soft_samples.push(s);
                }
            }
        }
        if let Some(a) = v["viol"].as_array() {
            for x in a {
                let key = x["key"].as_str().unwrap_or("").to_string();
                let h = x["h"].as_str().unwrap_or("").to_string();
                // a violation at step i needs only the prefix 0..=i
                let step = x["step"].as_u64().unwrap_or(0) as usize;
                let prefix: Vec<&str> = h.split(',').take(step + 1).collect();
                let what = x["what"].as_str().unwrap_or("").to_string();
                let e = self.viol.entry(key).or_insert((0, Vec::new()));
                e.0 += 1;
                let cand = (prefix.len(), cfg_id.to_string(), prefix.join(","), what);
                if !e.1.iter().any(|c| c.2 == cand.2 && c.1 == cand.1) {
                    e.1.push(cand);
                    e.1.sort();
                    e.1.truncate(3);
                }
            }
        }
        true
    }
}

struct Phase {
    name: String,
    cfg: Cfg,
    histories: Vec<String>,
}

/// Every (latest sources, evaluation) pair that occurs in the histories: the fresh-VM oracle is
/// computed once per pair (in worker processes) and handed to the replay workers as a file.
fn oracle_keys(cfg: &Cfg, histories: &[String]) -> BTreeSet<String> {
    let mut keys = BTreeSet::new();
    for h in histories {
        let mut st = MState::init(cfg);
        for ev in decode_history(h).unwrap_or_default() {
            st = st.apply(cfg, &ev);
            if ev.observes() {
                keys.insert(fresh_key(&st, &ev));
            }
        }
    }
    keys
}

fn oracle_file(cfg_id: &str) -> std::path::PathBuf {
    std::env::temp_dir().join(format!("gv_c15_oracle_{}_{}.json", std::process::id(), cfg_id))
}

fn precompute_oracle(report: &mut Report, cfg: &Cfg, histories: &[String], table: &mut BTreeMap<String, Value>, deadline: Instant) -> u64 {
    let keys: Vec<String> = oracle_keys(cfg, histories).into_iter().filter(|k| !table.contains_key(k)).collect();
    let cases: Vec<String> = keys.chunks(32).map(|c| format!("F{}|{}", cfg.id, c.join(";"))).collect();
    let iso = isolate::run_isolated("c15", &cases, par::n_workers(), Duration::from_secs(60), Some(deadline));
    let mut n = 0;
    for o in iso.outcomes.iter() {
        if let Some(CaseOutcome::Done(res)) = o {
            if let Ok(v) = serde_json::from_str::<Value>(res) {
                if let Some(m) = v["fresh"].as_object() {
                    for (k, s) in m {
                        table.insert(k.clone(), s.clone());
                        n += 1;
                    }
                }
            }
        }
        // a hung / crashed oracle batch is recomputed on demand by the replay workers, where the
        // hang or crash is attributed to a history
    }
    let path = oracle_file(&cfg.id);
    let mut text = String::new();
    for (k, v) in table.iter() {
        text.push_str(k);
        text.push('\t');
        text.push_str(&v.to_string());
        text.push('\n');
    }
    match std::fs::write(&path, text) {
        Ok(()) => std::env::set_var(format!("C15_ORACLE_{}", cfg.id), &path),
        Err(e) => report.machinery(format!("cannot write the oracle table {}: {}", path.display(), e)),
    }
    n
}

/// time limit for ONE history (normally < 10 ms) before it counts as a hang
const HANG_LIMIT: Duration = Duration::from_secs(45);

fn run_phase(report: &mut Report, merge: &mut Merge, phase: &Phase, deadline: Instant) -> (u64, bool) {
    const BATCH: usize = 16;
    let cases: Vec<String> = phase.histories.chunks(BATCH).map(|c| format!("{}|{}", phase.cfg.id, c.join(";"))).collect();
    let before = merge.done;
    let iso = isolate::run_isolated("c15", &cases, par::n_workers(), Duration::from_secs(120), Some(deadline));
    let mut retry: Vec<String> = Vec::new();
    for (i, o) in iso.outcomes.iter().enumerate() {
        match o {
            Some(CaseOutcome::Done(res)) => {
                if !merge.absorb(&phase.cfg.id, res) {
                    report.machinery(format!("{}: unreadable worker answer: {}", phase.name, res.chars().take(200).collect::<String>()));
                }
            }
            Some(CaseOutcome::Hung) | Some(CaseOutcome::Crashed(_)) => {
                for h in phase.histories[i * BATCH..((i + 1) * BATCH).min(phase.histories.len())].iter() {
                    retry.push(format!("C{}|{}", phase.cfg.id, h));
                }
            }
            None => {}
        }
    }
    if !retry.is_empty() {
        // pin the hang / crash down to single histories, and reproduce it a second time
        let iso2 = isolate::run_isolated("c15", &retry, par::n_workers(), HANG_LIMIT, None);
        let mut bad: Vec<(String, String)> = Vec::new();
        for (i, o) in iso2.outcomes.iter().enumerate() {
            match o {
                Some(CaseOutcome::Done(res)) => {
                    merge.absorb(&phase.cfg.id, res);
                }
                Some(CaseOutcome::Hung) => bad.push((retry[i].clone(), "hang".into())),
                Some(CaseOutcome::Crashed(st)) => bad.push((retry[i].clone(), format!("crash: {}", st))),
                None => {}
            }
        }
        let again: Vec<String> = bad.iter().map(|b| b.0.clone()).collect();
        if !again.is_empty() {
            let iso3 = isolate::run_isolated("c15", &again, par::n_workers().min(4), HANG_LIMIT, None);
            for (i, o) in iso3.outcomes.iter().enumerate() {
                let h = again[i].split_once('|').map(|x| x.1).unwrap_or("").to_string();
                let evs = decode_history(&h).unwrap_or_default();
                let last = evs.last().map(|e| e.describe(&phase.cfg)).unwrap_or_default();
                match o {
                    Some(CaseOutcome::Hung) => report.violation(
                        format!("hang:{}", shape_of_history(&phase.cfg, &evs)),
                        format!("history [{}] does not terminate within {} s (twice); last event {}", h, HANG_LIMIT.as_secs(), last),
                        json!({"engine": "c15", "cfg": phase.cfg.id, "history": h, "observed": "hang"}),
                    ),
                    Some(CaseOutcome::Crashed(st)) => report.violation(
                        format!("crash:{}", shape_of_history(&phase.cfg, &evs)),
                        format!("history [{}] kills the process (twice): {}", h, st),
                        json!({"engine": "c15", "cfg": phase.cfg.id, "history": h, "observed": st}),
                    ),
                    _ => report.machinery(format!("history [{}]: {} was not reproduced", h, bad[i].1)),
                }
            }
        }
    }
    (merge.done - before, iso.capped)
}

/// coarse shape of a whole history (used for hang / crash keys only)
fn shape_of_history(cfg: &Cfg, evs: &[Ev]) -> String {
    let mut st = MState::init(cfg);
    let mut parts = Vec::new();
    for ev in evs {
        let before = st.clone();
        st = st.apply(cfg, ev);
        match ev {
            Ev::Set { m, load, .. } => parts.push(format!("{}:{}", if *load { "load" } else { "set" }, change_kinds(cfg, &before, &st, *m))),
            Ev::Reload { .. } => parts.push("reload".into()),
            Ev::Eval { .. } => parts.push("eval".into()),
        }
    }
    parts.join(",")
}

fn describe_history(cfg: &Cfg, h: &str) -> Vec<String> {
    decode_history(h).unwrap_or_default().iter().map(|e| e.describe(cfg)).collect()
}

pub fn run(tier: &str) -> Report {
    let mut report = Report::new("C15", tier, "model_checking");
    let quick = tier == "quick";
    let deadline = par::deadline_for(tier, 30, 1380);
    // (name, cfg, kind, depth)
    let plan: Vec<(&str, &str, char, usize)> = if quick {
        vec![
            ("A:2-modules-full-menu:all-sequences-depth-3", "2f", 'A', 3),
            ("B:2-modules-full-menu:closure", "2f", 'B', 99),
            ("B:3-modules-tiny-menu:closure-depth-3", "3t", 'B', 3),
            ("A:3-modules-tiny-menu:all-sequences-depth-3", "3t", 'A', 3),
        ]
    } else {
        vec![
            ("A:2-modules-full-menu:all-sequences-depth-3", "2f", 'A', 3),
            ("B:2-modules-full-menu:closure", "2f", 'B', 99),
            ("A:2-modules-tiny-menu:all-sequences-depth-4", "2t", 'A', 4),
            ("A:3-modules-tiny-menu:all-sequences-depth-3", "3t", 'A', 3),
            ("B:3-modules-reduced-menu:closure", "3r", 'B', 99),
            ("A:3-modules-reduced-menu:all-sequences-depth-3", "3r", 'A', 3),
            ("B:4-modules-tiny-menu:closure-depth-4", "4t", 'B', 4),
            ("B:3-modules-full-menu:closure-depth-3", "3f", 'B', 3),
            ("A:2-modules-tiny-menu:implicit-prelude-on:all-sequences-depth-3", "2tp", 'A', 3),
        ]
    };
    let mut merge = Merge::default();
    let mut states = 0u64;
    let mut transitions = 0u64;
    let mut planned = 0u64;
    let mut max_depth = 0usize;
    let mut exhaustive = true;
    let mut phases_json = Vec::new();
    let mut oracle_tables: BTreeMap<String, BTreeMap<String, Value>> = BTreeMap::new();
    let mut oracle_entries = 0u64;
    for (name, cfg_id, kind, depth) in plan {
        let cfg = Cfg::from_id(cfg_id).unwrap();
        let (histories, st, tr, md, complete) = if kind == 'A' {
            let (h, nodes) = all_sequences(&cfg, depth);
            (h, nodes, nodes, depth, true)
        } else {
            let c = closure(&cfg, depth, 6_000_000);
            (c.histories, c.states, c.transitions, c.max_depth + cfg.n + 1, c.complete || depth < 99)
        };
        let phase = Phase { name: name.to_string(), cfg, histories };
        planned += phase.histories.len() as u64;
        let tp = Instant::now();
        let table = oracle_tables.entry(cfg_id.to_string()).or_default();
        oracle_entries += precompute_oracle(&mut report, &phase.cfg, &phase.histories, table, deadline);
        let (done, capped) = if Instant::now() < deadline { run_phase(&mut report, &mut merge, &phase, deadline) } else { (0, true) };
        if capped || !complete {
            exhaustive = false;
        }
        if done > 0 {
            states += st;
            transitions += tr;
            max_depth = max_depth.max(md);
        }
        phases_json.push(json!({
            "phase": name, "cfg": cfg_id, "menu_sizes": phase.cfg.menus.iter().map(|m| m.len()).collect::<Vec<_>>(),
            "alphabet": alphabet(&phase.cfg).len(),
            "model_states_or_tree_nodes": st, "transitions": tr, "histories": phase.histories.len(),
            "histories_replayed": done, "capped": capped, "wall_s": (tp.elapsed().as_secs_f64() * 10.0).round() / 10.0,
        }));
        if let Some(h) = phase.histories.get(phase.histories.len() / 2) {
            report.sample(json!({"phase": name, "history": h, "events": describe_history(&phase.cfg, h)}));
        }
    }
    // every violation is reproduced (new process-local VM, oracle recomputed) before it is reported
    let mut confirm_cases: Vec<String> = Vec::new();
    for (key, (_count, cands)) in &merge.viol {
        if !key.starts_with("machinery:") {
            for (_len, cfg_id, h, _what) in cands {
                confirm_cases.push(format!("C{}|{}", cfg_id, h));
            }
        }
    }
    confirm_cases.sort();
    confirm_cases.dedup();
    let iso = isolate::run_isolated("c15", &confirm_cases, par::n_workers(), HANG_LIMIT, None);
    let mut confirmed_keys: HashMap<String, BTreeSet<String>> = HashMap::new();
    for (i, o) in iso.outcomes.iter().enumerate() {
        if let Some(CaseOutcome::Done(res)) = o {
            if let Ok(v) = serde_json::from_str::<Value>(res) {
                let keys: BTreeSet<String> = v["viol"].as_array().map(|a| a.iter().filter_map(|x| x["key"].as_str().map(|s| s.to_string())).collect()).unwrap_or_default();
                confirmed_keys.insert(confirm_cases[i].clone(), keys);
            }
        }
    }
    for (key, (count, cands)) in &merge.viol {
        if key.starts_with("machinery:") {
            report.machinery(format!("{} ({})", cands[0].3, cands[0].2));
            continue;
        }
        let confirmed = cands
            .iter()
            .find(|(_len, cfg_id, h, _what)| confirmed_keys.get(&format!("C{}|{}", cfg_id, h)).map(|ks| ks.contains(key)).unwrap_or(false))
            .map(|(_len, cfg_id, h, what)| (cfg_id, h, what));
        let (cfg_id, h, what) = match confirmed {
            Some(c) => c,
            None => {
                report.machinery(format!("violation {} was not reproduced on a second run (history {}): {}", key, cands[0].2, cands[0].3));
                continue;
            }
        };
        let cfg = Cfg::from_id(cfg_id).unwrap();
        let events = describe_history(&cfg, h);
        let sources: Vec<Value> = decode_history(h)
            .unwrap_or_default()
            .iter()
            .map(|e| match e {
                Ev::Set { m, k, .. } => json!({"event": e.describe(&cfg), "source": source(*m, &cfg.menus[*m][*k])}),
                Ev::Reload { .. } => json!({"event": e.describe(&cfg)}),
                Ev::Eval { mask } => json!({"event": e.describe(&cfg), "source": main_source(*mask)}),
            })
            .collect();
        report.violation(
            format!("c15:{}", key),
            format!("history [{}] = {:?}: {} ({} violating histories with this shape)", h, events, what, count),
            json!({"engine": "c15", "cfg": cfg_id, "history": h, "key": key, "steps": sources}),
        );
    }
    report.set("states", states);
    report.set("transitions", transitions);
    report.set("traces_validated_against_impl", merge.done);
    report.set("histories_planned", planned);
    report.set("impl_steps_executed", merge.steps);
    report.set("observations_checked", merge.observations);
    report.set("fresh_vm_oracle_entries", oracle_entries);
    report.set("fresh_vm_oracle_runs_on_demand", merge.fresh_runs);
    for cfg_id in oracle_tables.keys() {
        let _ = std::fs::remove_file(oracle_file(cfg_id));
    }
    report.set("max_depth", max_depth as u64);
    report.set("reevaluations_after_a_change_outside_the_import_cone_not_judged", merge.reevals);
    report.set("exhaustive", exhaustive);
    report.set("distinct_outcomes", merge.sigs.len() as u64);
    report.set("outcomes", json!(merge.sigs));
    report.set("observed_facts", json!(merge.facts));
    report.set("phases", json!(phases_json));
    report.set("undocumented_differences_not_judged", json!(merge.soft));
    report.set("undocumented_difference_samples", json!(merge.soft_samples));
    report.set(
        "rule",
        "histories = event sequences over {add_module(m,variant), load_script(m,variant), load_script(m,unchanged), run_expr(main importing S)}; \
         phase A enumerates every sequence of the stated length, phase B one history per (reachable model state, event) followed by a probe suite; \
         every history is replayed on one long-lived VM and every observing step is compared with a fresh VM, a reference model and the tick counters",
    );
    if merge.sigs.len() < 8 || !merge.sigs.keys().any(|k| k.contains("Cycle")) || !merge.sigs.keys().any(|k| k.contains("Type")) || !merge.sigs.keys().any(|k| k.starts_with("Ok")) {
        report.machinery(format!("vacuity guard: too few distinct outcomes {:?}", merge.sigs.keys().collect::<Vec<_>>()));
    }
    if merge.done == 0 {
        report.machinery("no history was replayed");
    }
    report.assume("implicit prelude off (thorough: one phase with the prelude on), run_io off (importing IO-typed modules under run_io is a C02 finding), one OS thread per VM (C14 covers concurrent reloads)");
    report.assume("error wording is not compared: outcomes are compared as value+type or as the SET of error classes {Cycle, NotFound, Type}; which of several cycles is named and which modules the diagnostics point into is recorded (undocumented_differences_not_judged) but not judged");
    report.assume("the property text promises 'at most once as long as no module source is changed': a module body that runs again after a change of SOME module source (even one outside its import cone — gluon re-runs every imported module after any change) is counted (reevaluations_after_a_change_outside_the_import_cone_not_judged) but not judged; a body that runs twice with no source change in between, or twice within one evaluation, is a violation");
    report.assume("module names c15a..c15d must not exist as .glu files in the working directory (absent modules are looked up on disk)");
    report
}

pub fn replay(v: &Value) -> Report {
    let mut report = Report::new("C15", "quick", "model_checking");
    let cfg_id = v["cfg"].as_str().unwrap_or("2f");
    let h = v["history"].as_str().unwrap_or("");
    let cfg = match Cfg::from_id(cfg_id) {
        Some(c) => c,
        None => {
            report.machinery("bad cfg in replay file");
            return report;
        }
    };
    println!("history {} on configuration {}:", h, cfg_id);
    for (i, e) in decode_history(h).unwrap_or_default().iter().enumerate() {
        println!("  {} {}", i, e.describe(&cfg));
        match e {
            Ev::Set { m, k, .. } => println!("{}", source(*m, &cfg.menus[*m][*k]).lines().map(|l| format!("        | {}", l)).collect::<Vec<_>>().join("\n")),
            Ev::Eval { mask } => println!("{}", main_source(*mask).lines().map(|l| format!("        | {}", l)).collect::<Vec<_>>().join("\n")),
            _ => {}
        }
    }
    // in a child process so that a hang or a process death can be reported
    let iso = isolate::run_isolated("c15", &[format!("C{}|{}", cfg_id, h)], 1, HANG_LIMIT, None);
    match &iso.outcomes[0] {
        Some(CaseOutcome::Done(res)) => {
            // once more in this process, printing every step
            if let Some(evs) = decode_history(h) {
                let mut stats = Stats::default();
                let _ = check_history(&cfg, &evs, None, &mut stats, true);
            }
            let r: Value = serde_json::from_str(res).unwrap_or(Value::Null);
            let n = r["viol"].as_array().map(|a| a.len()).unwrap_or(0);
            for x in r["viol"].as_array().cloned().unwrap_or_default() {
                println!("violation: {} :: {}", x["key"].as_str().unwrap_or(""), x["what"].as_str().unwrap_or(""));
            }
            if n > 0 {
                report.violation("replay", "reproduced", v.clone());
            }
        }
        other => {
            println!("observed: {:?}", other);
            report.violation("replay", "reproduced", v.clone());
        }
    }
    report
}
