//! C04 — optimisation never changes what a program does.
//! Every program is compiled and run twice on the real implementation (optimize off / on); value,
//! failure and the log of host-function calls (`verif.prim.eff`) must agree. The one permitted
//! difference (unused built-in arithmetic skipped) is decided by `refsem::accept_set`.

use crate::engines::c01::{agrees, fnv, Worker};
use crate::lang::gen::{top_types, Cfg, Gen};
use crate::lang::refsem::{self, RefRun};
use crate::lang::templates;
use crate::lang::term::*;
use crate::par;
use crate::report::Report;
use crate::vmkit::{self, ErrKind, Outcome, Settings};
use gluon::ThreadExt;
use serde_json::{json, Value};
use std::collections::BTreeMap;

#[derive(Default)]
pub struct Acc {
    evaluated: u64,
    nontrivial: u64,
    differing_permitted: u64,
    rejected: u64,
    rejected_typecheck: u64,
    rejected_samples: Vec<String>,
    classes: BTreeMap<String, u64>,
    violations: Vec<(String, String, String, String)>,
}

pub struct Pair {
    off: Worker,
    on: Worker,
}

fn settings(opt: bool) -> Settings {
    Settings { optimize: opt, ..Settings::bare() }
}

impl Pair {
    fn new() -> Pair {
        Pair { off: Worker::new(settings(false)), on: Worker::new(settings(true)) }
    }
}

fn run_with(w: &mut Worker, src: &str, vmod: &Option<String>) -> (Outcome, Vec<i64>) {
    if let Some(m) = vmod {
        // a fresh VM per program when a module is involved (module state must not leak)
        w.vm = vmkit::make_vm_with_prim(w.settings);
        vmkit::take_eff_log();
        if let Err(e) = w.vm.load_script("vmod", m) {
            return (Outcome::Err(ErrKind::Other, format!("vmod failed to load: {}", e)), vec![]);
        }
        // loading the module itself performs no effects in our templates
        vmkit::take_eff_log();
    }
    let o = w.run(src);
    let log = vmkit::take_eff_log();
    (o, log)
}

fn in_accept_set(set: &[RefRun], o: &Outcome, log: &[i64], ambiguous: bool) -> bool {
    set.iter().any(|r| {
        agrees(&r.outcome, o)
            && if ambiguous {
                let mut a = r.log.clone();
                let mut b = log.to_vec();
                a.sort();
                b.sort();
                a == b
            } else {
                r.log == log
            }
    })
}

/// key for the known-findings file: the family label when there is one, else the source hash
fn check_one(p: &mut Pair, acc: &mut Acc, label: &str, t: &Term) {
    let src = program(Dialect::Bare, t);
    let vmod = vmod_source(Dialect::Bare, t);
    let (o_off, l_off) = run_with(&mut p.off, &src, &vmod);
    if let Outcome::Err(k, m) = &o_off {
        if matches!(k, ErrKind::Typecheck) {
            // the checker refusing a program is C03's business
            acc.rejected_typecheck += 1;
            return;
        }
        if matches!(k, ErrKind::Parse | ErrKind::Macro | ErrKind::Other) {
            acc.rejected += 1;
            if acc.rejected_samples.len() < 3 {
                acc.rejected_samples.push(format!("{:?} {} :: {}", k, m, src));
            }
            return;
        }
    }
    let (o_on, l_on) = run_with(&mut p.on, &src, &vmod);
    acc.evaluated += 1;
    *acc.classes.entry(o_on.class()).or_insert(0) += 1;
    let has_effect = t.uses(&|t| matches!(t, Term::Eff(_) | Term::Error(_)));
    if has_effect {
        acc.nontrivial += 1;
    }
    if o_off == o_on && l_off == l_on {
        return;
    }
    // they differ: only the permitted difference is acceptable
    let strict = refsem::run(t);
    let set = refsem::accept_set(t);
    let ambiguous = strict.effect_order_ambiguous || set.iter().any(|r| r.effect_order_ambiguous);
    if in_accept_set(&set, &o_on, &l_on, ambiguous) && set.len() > 1 {
        acc.differing_permitted += 1;
        return;
    }
    // confirm on fresh VMs
    let mut fresh = Pair::new();
    let (f_off, fl_off) = run_with(&mut fresh.off, &src, &vmod);
    let (f_on, fl_on) = run_with(&mut fresh.on, &src, &vmod);
    if f_off == f_on && fl_off == fl_on {
        acc.violations.push((
            format!("history-dependent:{}", label),
            src,
            format!("{:?} log={:?} (fresh VMs agree with each other)", o_off, l_off),
            format!("{:?} log={:?}", o_on, l_on),
        ));
        return;
    }
    if in_accept_set(&set, &f_on, &fl_on, ambiguous) && set.len() > 1 {
        acc.differing_permitted += 1;
        return;
    }
    acc.violations.push((
        label.to_string(),
        src,
        format!("{:?} log={:?}", f_off, fl_off),
        format!("{:?} log={:?}", f_on, fl_on),
    ));
}

fn merge(report: &mut Report, accs: Vec<Acc>, label: &str) -> (u64, u64) {
    let mut ev = 0;
    let mut nt = 0;
    let mut permitted = 0;
    let mut rejected = 0;
    let mut rejected_tc = 0;
    let mut classes: BTreeMap<String, u64> = BTreeMap::new();
    for a in accs {
        ev += a.evaluated;
        nt += a.nontrivial;
        permitted += a.differing_permitted;
        rejected += a.rejected;
        rejected_tc += a.rejected_typecheck;
        for (k, v) in a.classes {
            *classes.entry(k).or_insert(0) += v;
        }
        for s in a.rejected_samples {
            if report.machinery_errors.len() < 4 {
                report.machinery(format!("[{}] front end rejected generated program: {}", label, s.replace('\n', "\\n")));
            }
        }
        for (key, src, off, on) in a.violations {
            let key = if key.starts_with("eff") || key.starts_with("history") {
                key
            } else {
                format!("c04:{:016x}", fnv(&src))
            };
            report.violation(
                key,
                format!("unoptimised {} but optimised {}", off, on),
                json!({"engine": "c04", "source": src, "unoptimised": off, "optimised": on}),
            );
        }
    }
    report.set(&format!("{}.pairs_evaluated", label), ev);
    report.set(&format!("{}.differing_but_permitted", label), permitted);
    report.set(&format!("{}.rejected", label), rejected);
    report.set(&format!("{}.rejected_by_typechecker", label), rejected_tc);
    if rejected_tc * 50 > ev + 50 {
        report.machinery(format!("[{}] {} of {} programs rejected by the typechecker", label, rejected_tc, ev));
    }
    report.set(&format!("{}.outcome_classes", label), json!(classes));
    (ev, nt)
}

fn cfg() -> Cfg {
    let mut c = Cfg::standard();
    c.with_eff = true;
    c.with_seq = true;
    c.ints = vec![0, 1, i64::MAX];
    c
}

pub fn run(tier: &str) -> Report {
    let mut report = Report::new("C04", tier, "exploration");
    let max_size: usize = std::env::var("VERIF_C04_SIZE")
        .ok()
        .and_then(|s| s.parse().ok())
        .unwrap_or(if tier == "quick" { 5 } else { 6 });
    let deadline = par::deadline_for(tier, 45, 3000);
    let mut total = 0;
    let mut nontrivial = 0;
    let mut capped = false;
    let mut completed = 0;
    for size in 1..=max_size {
        let sweep = par::stream(
            Some(deadline),
            |emit| {
                let mut g = Gen::new(cfg());
                for ty in top_types() {
                    let mut go = true;
                    g.produce(&vec![], &ty, size, &mut |t| {
                        if go {
                            go = emit(t);
                        }
                    });
                    if !go {
                        break;
                    }
                }
            },
            |_| Pair::new(),
            |p, acc: &mut Acc, t: Term| check_one(p, acc, "", &t),
        );
        let was_capped = sweep.capped;
        let (e, n) = merge(&mut report, sweep.results, &format!("size{}", size));
        total += e;
        nontrivial += n;
        if was_capped {
            capped = true;
            break;
        }
        completed = size;
    }
    report.set("size_bound_completed", completed as u64);

    let fams = templates::effect_positions(tier);
    let fams_ref = &fams;
    let sweep = par::sweep(
        fams.len(),
        8,
        Some(deadline),
        |_| Pair::new(),
        |p, acc: &mut Acc, i| check_one(p, acc, &fams_ref[i].0, &fams_ref[i].1),
    );
    if sweep.capped {
        capped = true;
    }
    let (e, n) = merge(&mut report, sweep.results, "effect_positions");
    total += e;
    nontrivial += n;
    // the C01 feature products too (pure, but exercise inlining)
    let fams2 = templates::all(tier);
    let fams2_ref = &fams2;
    let sweep = par::sweep(
        fams2.len(),
        16,
        Some(deadline),
        |_| Pair::new(),
        |p, acc: &mut Acc, i| check_one(p, acc, "", &fams2_ref[i].1),
    );
    if sweep.capped {
        capped = true;
    }
    let (e, n) = merge(&mut report, sweep.results, "feature_products");
    total += e;
    nontrivial += n;

    report.set("evaluations", total * 2);
    report.set("programs", total);
    report.set("distinct_nontrivial", nontrivial);
    report.set("exhaustive", !capped);
    report.set("wall_cap_hit", capped);
    report.set(
        "rule",
        "every well-typed GL-core term with host effect `eff`, `error`, discarded bindings and arithmetic \
         faults up to size_bound_completed, plus the full product {16 dead/live positions} x {14 effectful/failing \
         expressions reached directly, through record fields, closures, partial applications and an imported \
         module} and ordered pairs of those; each compiled optimize=off and optimize=on on the real pipeline and \
         compared on (value | failure, eff-call log). Non-trivial = contains an effect or an explicit failure; \
         each program is enumerated once",
    );
    for i in [0, fams.len() / 2, fams.len() - 1] {
        report.sample(json!({"family": fams[i].0, "source": program(Dialect::Bare, &fams[i].1)}));
    }
    report.assume("permitted difference decided exactly: the optimised run must equal the reference semantics with the first j failing built-in arithmetic operations skipped, for some j for which none of the skipped results is ever used");
    report.assume("harness profile: opt-level 2 with debug-assertions and overflow-checks on");
    report
}

pub fn replay(v: &Value) -> Report {
    let mut report = Report::new("C04", "quick", "exploration");
    let src = v["source"].as_str().unwrap_or("").to_string();
    // modules are embedded in the effect templates; rebuild vmod when the source imports it
    let vmod = if src.contains("import! vmod") {
        vmod_source(Dialect::Bare, &templates::effect_env(Term::Int(0)))
    } else {
        None
    };
    let mut p = Pair::new();
    let (a, la) = run_with(&mut p.off, &src, &vmod);
    let (b2, lb) = run_with(&mut p.on, &src, &vmod);
    println!("source:\n{}", src);
    println!("unoptimised: {:?} log={:?}", a, la);
    println!("optimised:   {:?} log={:?}", b2, lb);
    if a != b2 || la != lb {
        report.violation("replay", "optimised and unoptimised runs differ", v.clone());
    }
    report
}
