//! C10 — the formatter preserves meaning and comments and is idempotent.
//!
//! Bounded-exhaustive exploration driving gluon's real formatter (`ThreadExt::format_expr`):
//!  (asts)  every harness AST up to a size bound (`syntax::ExGen`) printed in concrete styles
//!          (`syntax::Style`: explicit `in`, layout styles, doc / attribute lines, CRLF), with short
//!          and with 30-character names (so that the 100-column printer has to break lines);
//!  (gaps)  every such AST up to a smaller bound, with one comment / blank line inserted into every
//!          token gap of the printed text, one at a time (`Pert`, `apply_pert`), LF and CRLF;
//!  (wide)  each list-like construct (arguments, operator chains, record fields, tuple / array
//!          elements, lambda / function arguments, patterns, types, if / let / do chains, ..) with
//!          k = 1..K items of several widths in one-hole contexts (`wide_families`, `wide_contexts`);
//!  (lit)   every literal value x spelling of C08's family plus multi-line string literals;
//!  (files) every `.glu` file of the repository and every program quoted in
//!          format/tests/pretty_print.rs, unperturbed and under every single whitespace
//!          perturbation of every token gap.
//!
//! Oracle (`observe`) on every input that gluon's parser accepts: `format_expr` returns `Ok` without
//! panicking; the output parses; the literal token texts, the parse trees (gluon's own AST with
//! positions erased, `dump_expr`) and the comment sequences (reference lexer `lex`) of input and
//! output are equal; formatting the output again changes nothing.
//!
//! A violation key is `c10:<class>:<locus>`: the class of the failed demand and where it failed
//! (for comments: kind of the comment and the gap that holds it = classes of the two neighbouring
//! tokens + innermost tree node; for trees / fixed points: the tree node; for outputs that do not
//! parse: where the tokens of the output stop following the input's, or the token the layout
//! breaks at). Failures an unperturbed input has by itself are not filed again for its
//! perturbations. A `format_expr` call that does not return is caught by a watchdog thread
//! (`start_watchdog`) and replayed in a child process (`gv worker c10`).
//!
//! Knobs (exploration only): VERIF_C10_PROBE=file (format snippets separated by `====` lines and
//! print every observation; VERIF_C10_PRELUDE=1 for the implicit prelude), VERIF_C10_SIZE /
//! _SIZE_FEW / _GAP_SIZE / _GAP_SIZE_ONE / _WIDE / _FILE_BYTES (bounds), VERIF_C10_FILES=substr
//! (file filter), VERIF_C10_PARTS=lit,wide,ast,gaps,files, VERIF_C10_DUMP=1 (print every failing
//! key with its smallest case), VERIF_C10_VERBOSE=1 with --replay.
use crate::par;
use crate::report::Report;
use crate::syntax::*;
use gluon_base::ast::{self as gast, Expr, Pattern, PatternField, SpannedExpr, SpannedPattern, ValueBinding, ValueBindings};
use gluon_base::kind::Kind;
use gluon_base::metadata::{BaseMetadata, CommentType, Metadata};
use gluon_base::pos::{BytePos, HasSpan, Span};
use gluon_base::types::{Type, TypeCache};
use serde_json::{json, Value};
use std::collections::BTreeMap;

// ---------------------------------------------------------------------------------------------
// reference lexer (mirrors parser/src/token.rs for the inputs it accepts; anything it does not
// model makes the input "unsupported", which is counted and skipped)

#[derive(Clone, Copy, Debug, PartialEq, Eq)]
pub enum TK {
    LineComment,
    BlockComment,
    DocLine,
    DocBlock,
    Str,
    RawStr,
    Char,
    Int,
    Float,
    Byte,
    Ident,
    Keyword,
    Op,
    Punct,
    AttrOpen,
    Shebang,
}

#[derive(Clone, Debug)]
pub struct Tok {
    pub kind: TK,
    pub lo: usize,
    pub hi: usize,
}

fn is_ident_start(c: u8) -> bool {
    c == b'_' || c.is_ascii_alphabetic()
}
fn is_ident_continue(c: u8) -> bool {
    is_ident_start(c) || c.is_ascii_digit() || c == b'\''
}
fn is_op(c: u8) -> bool {
    matches!(c, b'!' | b'#' | b'$' | b'%' | b'&' | b'*' | b'+' | b'-' | b'.' | b'/' | b'<' | b'=' | b'>' | b'?' | b'@' | b'\\' | b'^' | b'|' | b'~' | b':')
}

const KEYWORDS: &[&str] = &["rec", "else", "forall", "if", "in", "let", "do", "seq", "match", "then", "type", "with"];

pub fn lex(src: &str) -> Result<Vec<Tok>, String> {
    let (toks, err) = lex_lenient(src);
    match err {
        None => Ok(toks),
        Some(e) => Err(e),
    }
}

/// never fails: the first thing outside of the model is reported on the side and lexing goes on
/// with the next byte (used only to locate differences)
pub fn lex_lenient(src: &str) -> (Vec<Tok>, Option<String>) {
    let mut first_err: Option<String> = None;
    let mut from = 0;
    let mut all = Vec::new();
    while from <= src.len() {
        match lex_from(src, from, &mut all) {
            Ok(()) => break,
            Err((e, resume)) => {
                if first_err.is_none() {
                    first_err = Some(e);
                }
                from = resume.max(from + 1);
                while from < src.len() && !src.is_char_boundary(from) {
                    from += 1;
                }
            }
        }
    }
    (all, first_err)
}

fn lex_from(src: &str, from: usize, out: &mut Vec<Tok>) -> Result<(), (String, usize)> {
    let b = src.as_bytes();
    let n = b.len();
    let mut i = from;
    while i < n {
        let c = b[i];
        let start = i;
        let at = |k: usize| if k < n { Some(b[k]) } else { None };
        match c {
            b',' | b'\\' | b'{' | b'[' | b'(' | b'}' | b']' | b')' | b'?' => {
                i += 1;
                out.push(Tok { kind: TK::Punct, lo: start, hi: i });
            }
            b'r' if matches!(at(i + 1), Some(b'"') | Some(b'#')) => {
                i += 1;
                let mut delims = 0;
                loop {
                    match at(i) {
                        Some(b'#') => {
                            delims += 1;
                            i += 1
                        }
                        Some(b'"') => {
                            i += 1;
                            break;
                        }
                        _ => return Err(("invalid raw string delimiter".to_string(), i.max(start) + 1)),
                    }
                }
                // content up to `"` followed by `delims` hashes
                loop {
                    match at(i) {
                        None => return Err(("unterminated raw string".to_string(), i.max(start) + 1)),
                        Some(b'"') => {
                            let mut k = 0;
                            while k < delims && at(i + 1 + k) == Some(b'#') {
                                k += 1;
                            }
                            if k == delims {
                                i += 1 + delims;
                                break;
                            }
                            i += 1;
                        }
                        Some(_) => i += 1,
                    }
                }
                out.push(Tok { kind: TK::RawStr, lo: start, hi: i });
            }
            b'"' => {
                i += 1;
                loop {
                    match at(i) {
                        None => return Err(("unterminated string".to_string(), i.max(start) + 1)),
                        Some(b'\\') => {
                            match at(i + 1) {
                                Some(b'\'') | Some(b'"') | Some(b'\\') | Some(b'/') | Some(b'n') | Some(b'r') | Some(b't') => {}
                                _ => return Err(("unknown escape".to_string(), i.max(start) + 1)),
                            }
                            i += 2;
                        }
                        Some(b'"') => {
                            i += 1;
                            break;
                        }
                        Some(_) => i += 1,
                    }
                }
                out.push(Tok { kind: TK::Str, lo: start, hi: i });
            }
            b'\'' => {
                i += 1;
                match at(i) {
                    Some(b'\\') => {
                        match at(i + 1) {
                            Some(b'\'') | Some(b'"') | Some(b'\\') | Some(b'/') | Some(b'n') | Some(b'r') | Some(b't') => {}
                            _ => return Err(("unknown escape".to_string(), i.max(start) + 1)),
                        }
                        i += 2;
                    }
                    Some(b'\'') | None => return Err(("empty char literal".to_string(), i.max(start) + 1)),
                    Some(x) if x < 128 => i += 1,
                    Some(_) => return Err(("non-ascii char literal".to_string(), i.max(start) + 1)),
                }
                if at(i) != Some(b'\'') {
                    return Err(("unterminated char literal".to_string(), i.max(start) + 1));
                }
                i += 1;
                out.push(Tok { kind: TK::Char, lo: start, hi: i });
            }
            b'/' if at(i + 1) == Some(b'/') => {
                while i < n && b[i] != b'\n' {
                    i += 1;
                }
                let text = &src[start..i];
                out.push(Tok { kind: if text.starts_with("///") { TK::DocLine } else { TK::LineComment }, lo: start, hi: i });
            }
            b'/' if at(i + 1) == Some(b'*') => {
                // token.rs block_comment: skip the first `*`, then repeatedly run to the next `*`
                // and look at the byte after it
                i += 2;
                let star;
                loop {
                    while i < n && b[i] != b'*' {
                        i += 1;
                    }
                    if i >= n {
                        return Err(("unterminated block comment".to_string(), i.max(start) + 1));
                    }
                    if at(i + 1) == Some(b'/') {
                        star = i;
                        i += 2;
                        break;
                    }
                    if at(i + 1).is_none() {
                        return Err(("unterminated block comment".to_string(), i.max(start) + 1));
                    }
                    i += 1;
                }
                let before = &src[start..star];
                let doc = before.starts_with("/**") && before != "/**";
                out.push(Tok { kind: if doc { TK::DocBlock } else { TK::BlockComment }, lo: start, hi: i });
            }
            b'#' if start == 0 && at(1) == Some(b'!') => {
                while i < n && b[i] != b'\n' {
                    i += 1;
                }
                out.push(Tok { kind: TK::Shebang, lo: start, hi: i });
            }
            b'#' if at(i + 1) == Some(b'[') => {
                i += 2;
                out.push(Tok { kind: TK::AttrOpen, lo: start, hi: i });
            }
            c if is_ident_start(c) => {
                while i < n && is_ident_continue(b[i]) {
                    i += 1;
                }
                if at(i) == Some(b'!') {
                    i += 1;
                }
                let text = &src[start..i];
                out.push(Tok { kind: if KEYWORDS.contains(&text) { TK::Keyword } else { TK::Ident }, lo: start, hi: i });
            }
            c if c.is_ascii_digit() || (c == b'-' && at(i + 1).map_or(false, |d| d.is_ascii_digit())) => {
                i += 1;
                while i < n && b[i].is_ascii_digit() {
                    i += 1;
                }
                let int = &src[start..i];
                let kind;
                match at(i) {
                    Some(b'.') => {
                        i += 1;
                        while i < n && b[i].is_ascii_digit() {
                            i += 1;
                        }
                        kind = TK::Float;
                    }
                    Some(b'x') => {
                        if int != "0" && int != "-0" {
                            return Err(("hex literal with a wrong prefix".to_string(), i.max(start) + 1));
                        }
                        i += 1;
                        let h = i;
                        while i < n && b[i].is_ascii_hexdigit() {
                            i += 1;
                        }
                        if h == i {
                            return Err(("incomplete hex literal".to_string(), i.max(start) + 1));
                        }
                        kind = TK::Int;
                    }
                    Some(b'b') => {
                        i += 1;
                        kind = TK::Byte;
                    }
                    _ => kind = TK::Int,
                }
                out.push(Tok { kind, lo: start, hi: i });
                if at(i).map_or(false, is_ident_start) {
                    return Err(("identifier character directly after a number".to_string(), i));
                }
            }
            c if is_op(c) => {
                while i < n && is_op(b[i]) {
                    i += 1;
                }
                if &src[start..i] == "#" {
                    while i < n && is_ident_start(b[i]) {
                        i += 1;
                    }
                    while i < n && is_op(b[i]) {
                        i += 1;
                    }
                }
                out.push(Tok { kind: TK::Op, lo: start, hi: i });
            }
            b' ' | b'\t' | b'\n' | b'\r' | 0x0b | 0x0c => i += 1,
            _ => return Err((format!("character {:?} outside of strings and comments", src[start..].chars().next().unwrap()), start + 1)),
        }
    }
    Ok(())
}

fn is_comment(k: TK) -> bool {
    matches!(k, TK::LineComment | TK::BlockComment | TK::DocLine | TK::DocBlock)
}
fn is_literal(k: TK) -> bool {
    matches!(k, TK::Str | TK::RawStr | TK::Char | TK::Int | TK::Float | TK::Byte)
}

/// A comment as the property sees it. Ordinary comments: the text with CRLF -> LF and trailing
/// white space of every line removed. Documentation comments: consecutive doc-comment tokens
/// are one comment (parser/src/grammar.lalrpop DocComment); its content is what gluon's lexer
/// keeps (`///` and one optional space stripped; `/**` `*/` stripped and trimmed) with every
/// line trimmed at the end (line style) / on both sides (block style, which the formatter
/// re-indents by design: types/pretty_print.rs doc_comment).
#[derive(Clone, Debug, PartialEq, Eq)]
pub struct CommentItem {
    pub doc: Option<&'static str>,
    pub text: String,
    /// index of the token that precedes the comment (usize::MAX at the start)
    pub after_tok: usize,
    /// byte offset of the (first) comment token
    pub lo: usize,
}

fn norm_lines(s: &str, both: bool) -> String {
    let s = s.replace("\r\n", "\n");
    let v: Vec<&str> = s.split('\n').map(|l| if both { l.trim() } else { l.trim_end() }).collect();
    v.join("\n")
}

pub struct Lexed {
    pub toks: Vec<Tok>,
    /// indices into `toks` of non-comment tokens
    pub code: Vec<usize>,
    pub comments: Vec<CommentItem>,
    pub literals: Vec<String>,
}

pub fn lexed(src: &str) -> Result<Lexed, String> {
    let toks = lex(src)?;
    let mut code = Vec::new();
    let mut comments: Vec<CommentItem> = Vec::new();
    let mut literals = Vec::new();
    let mut last_was_doc = false;
    for (k, t) in toks.iter().enumerate() {
        let text = &src[t.lo..t.hi];
        let prev_code = code.len().wrapping_sub(1);
        match t.kind {
            TK::LineComment | TK::BlockComment => {
                comments.push(CommentItem { doc: None, text: norm_lines(text, false), after_tok: prev_code, lo: t.lo });
                last_was_doc = false;
            }
            TK::DocLine | TK::DocBlock => {
                let (style, content) = if t.kind == TK::DocLine {
                    let c = text.strip_prefix("/// ").or_else(|| text.strip_prefix("///")).unwrap();
                    ("line", norm_lines(c, false))
                } else {
                    let c = text[3..text.len() - 2].trim();
                    ("block", norm_lines(c, true))
                };
                if last_was_doc {
                    let last = comments.last_mut().unwrap();
                    last.text.push('\n');
                    last.text.push_str(&content);
                    last.doc = Some(style);
                } else {
                    comments.push(CommentItem { doc: Some(style), text: content, after_tok: prev_code, lo: t.lo });
                }
                last_was_doc = true;
            }
            _ => {
                last_was_doc = false;
                if is_literal(t.kind) {
                    literals.push(text.to_string());
                }
                code.push(k);
            }
        }
    }
    // a block-style documentation comment is compared with every line trimmed
    for c in comments.iter_mut() {
        if c.doc == Some("block") {
            c.text = norm_lines(&c.text, true);
        }
    }
    Ok(Lexed { toks, code, comments, literals })
}

/// class of a token for violation keys
pub fn tok_class(src: &str, t: &Tok) -> String {
    let text = &src[t.lo..t.hi];
    match t.kind {
        TK::Keyword | TK::Punct | TK::AttrOpen => text.to_string(),
        TK::Op => match text {
            "=" | "->" | "|" | ":" | "." | ".." | "@" => text.to_string(),
            _ => "op".to_string(),
        },
        TK::Ident => "atom".into(),
        TK::Str | TK::RawStr | TK::Char | TK::Int | TK::Float | TK::Byte => "atom".into(),
        TK::Shebang => "shebang".into(),
        _ => "comment".into(),
    }
}

// ---------------------------------------------------------------------------------------------
// gluon's AST with positions erased (a labelled tree; the spans are kept on the side to locate
// differences, never compared)

#[derive(Clone, Debug)]
pub struct D {
    pub label: String,
    pub lo: usize,
    pub hi: usize,
    pub kids: Vec<D>,
}

impl D {
    fn new(label: impl Into<String>, span: Span<BytePos>) -> D {
        // positions of `&str` sources start at 1
        D { label: label.into(), lo: (span.start().to_usize()).saturating_sub(1), hi: (span.end().to_usize()).saturating_sub(1), kids: Vec::new() }
    }
    fn leaf(label: impl Into<String>) -> D {
        D { label: label.into(), lo: usize::MAX, hi: 0, kids: Vec::new() }
    }
    fn with(mut self, kids: Vec<D>) -> D {
        self.kids = kids;
        self
    }
    pub fn same(&self, o: &D) -> bool {
        self.label == o.label && self.kids.len() == o.kids.len() && self.kids.iter().zip(o.kids.iter()).all(|(a, b)| a.same(b))
    }
    /// labels on the path to the first difference (kind names only) + a description
    pub fn first_diff(&self, o: &D, path: &mut Vec<String>) -> Option<String> {
        let kind = |l: &str| l.split(':').next().unwrap_or("").to_string();
        if self.label != o.label {
            // parent / kind of the node that differs
            let parent = path.last().cloned();
            path.clear();
            path.extend(parent);
            path.push(kind(&self.label));
            return Some(format!("{:?} became {:?}", self.label, o.label));
        }
        path.push(kind(&self.label));
        if self.kids.len() != o.kids.len() {
            // the node whose children differ
            let me = path.pop().unwrap();
            path.clear();
            path.push(me);
            return Some(format!("{} has {} children, then {}", self.label, self.kids.len(), o.kids.len()));
        }
        for (a, b) in self.kids.iter().zip(o.kids.iter()) {
            if let Some(d) = a.first_diff(b, path) {
                return Some(d);
            }
        }
        path.pop();
        None
    }
    pub fn show(&self, out: &mut String) {
        out.push('(');
        out.push_str(&self.label);
        for k in &self.kids {
            out.push(' ');
            k.show(out);
        }
        out.push(')');
    }
    /// kinds of the innermost nodes (at most `depth`) whose span contains [lo, hi]
    pub fn locate(&self, lo: usize, hi: usize, out: &mut Vec<String>) {
        // leaves (identifiers, literals, ..) are named only when nothing encloses them
        let kind = self.label.split(':').next().unwrap_or("");
        let leaf = matches!(kind, "ident" | "literal" | "p-ident" | "p-literal" | "p-error" | "error" | "arg" | "t-hole" | "t-opaque" | "t-error" | "t-builtin" | "t-ident" | "t-generic" | "t-projection" | "t-variable" | "t-alias" | "t-skolem" | "t-empty-row");
        if self.lo != usize::MAX && self.lo <= lo && hi <= self.hi && (!leaf || out.is_empty()) {
            out.push(kind.to_string());
        }
        // children may lie outside of the parent's span (bindings are siblings of the body)
        let mut best: Option<&D> = None;
        for k in &self.kids {
            if k.covers(lo, hi) {
                best = Some(k);
                break;
            }
        }
        if let Some(k) = best {
            k.locate(lo, hi, out);
        }
    }
    fn covers(&self, lo: usize, hi: usize) -> bool {
        (self.lo != usize::MAX && self.lo <= lo && hi <= self.hi) || self.kids.iter().any(|k| k.covers(lo, hi))
    }
}

fn kind_text(k: &Kind) -> String {
    match k {
        Kind::Hole => "_".into(),
        Kind::Error => "!".into(),
        Kind::Variable(v) => format!("v{}", v),
        Kind::Type => "Type".into(),
        Kind::Row => "Row".into(),
        Kind::Function(a, r) => format!("({} -> {})", kind_text(a), kind_text(r)),
    }
}

fn dump_meta(m: Option<&Metadata>, out: &mut Vec<D>) {
    if let Some(m) = m {
        if let Some(c) = &m.comment {
            let both = c.typ == CommentType::Block;
            // the style of a documentation comment and the indentation inside a block-style one
            // are compared through the comment sequence, see `CommentItem`
            out.push(D::leaf(format!("doc:{}", norm_lines(&c.content, both))));
        }
        for a in &m.attributes {
            out.push(D::leaf(format!("attribute:{}:{:?}", a.name, a.arguments)));
        }
    }
}

fn base_meta<'a>(m: &'a BaseMetadata<'_>) -> Option<&'a Metadata> {
    m.metadata.as_ref().map(|m| &**m)
}

type Ty<'a> = gast::AstType<'a, String>;

fn dump_generics(gs: &[gluon_base::types::Generic<String>]) -> Vec<D> {
    gs.iter().map(|g| D::leaf(format!("param:{}:{}", g.id, kind_text(&g.kind)))).collect()
}

pub fn dump_type(t: &Ty<'_>) -> D {
    use gluon_base::ast::HasMetadata;
    let mut kids = Vec::new();
    dump_meta(t.metadata(), &mut kids);
    let span = t.span();
    let mut d = match &**t {
        Type::Hole => D::new("t-hole", span),
        Type::Opaque => D::new("t-opaque", span),
        Type::Error => D::new("t-error", span),
        Type::Builtin(b) => D::new(format!("t-builtin:{}", b.to_str()), span),
        Type::Forall(params, inner) => {
            kids.extend(dump_generics(params));
            kids.push(dump_type(inner));
            D::new("t-forall", span)
        }
        Type::App(f, args) => {
            kids.push(dump_type(f));
            kids.extend(args.iter().map(dump_type));
            D::new("t-app", span)
        }
        Type::Function(at, a, r) => {
            kids.push(dump_type(a));
            kids.push(dump_type(r));
            D::new(format!("t-function:{:?}", at), span)
        }
        Type::Record(row) => {
            kids.push(dump_type(row));
            D::new("t-record", span)
        }
        Type::Variant(row) => {
            kids.push(dump_type(row));
            D::new("t-variant", span)
        }
        Type::Effect(row) => {
            kids.push(dump_type(row));
            D::new("t-effect", span)
        }
        Type::EmptyRow => D::new("t-empty-row", span),
        Type::ExtendRow { fields, rest } => {
            for f in fields.iter() {
                kids.push(D::new(format!("t-field:{}", f.name.value), f.name.span).with(vec![dump_type(&f.typ)]));
            }
            kids.push(dump_type(rest));
            D::new("t-row", span)
        }
        Type::ExtendTypeRow { types, rest } => {
            for f in types.iter() {
                let mut k = dump_generics(f.typ.params());
                k.push(dump_type(f.typ.unresolved_type()));
                kids.push(D::new(format!("t-type-field:{}:{}", f.name.value, f.typ.name), f.name.span).with(k));
            }
            kids.push(dump_type(rest));
            D::new("t-type-row", span)
        }
        Type::Ident(id) => D::new(format!("t-ident:{}:{}", id.name, kind_text(&id.typ)), span),
        Type::Projection(ids) => D::new(format!("t-projection:{}", ids.join(".")), span),
        Type::Variable(v) => D::new(format!("t-variable:{}", v.id), span),
        Type::Generic(g) => D::new(format!("t-generic:{}:{}", g.id, kind_text(&g.kind)), span),
        Type::Alias(a) => D::new(format!("t-alias:{}", a.name), span),
        Type::Skolem(s) => D::new(format!("t-skolem:{}", s.name), span),
    };
    d.kids = kids;
    d
}

fn lit_label(l: &gast::Literal) -> String {
    match l {
        gast::Literal::Byte(b) => format!("byte:{}", b),
        gast::Literal::Int(i) => format!("int:{}", i),
        gast::Literal::Float(f) => format!("float:{:016x}", f.into_inner().to_bits()),
        gast::Literal::String(s) => format!("string:{:?}", s),
        gast::Literal::Char(c) => format!("char:{:?}", c),
    }
}

pub fn dump_pat(p: &SpannedPattern<'_, String>) -> D {
    let d = D::new("", p.span);
    match &p.value {
        Pattern::As(id, inner) => D { label: format!("p-as:{}", id.value), ..d }.with(vec![dump_pat(inner)]),
        Pattern::Constructor(id, args) => D { label: format!("p-constructor:{}", id.name), ..d }.with(args.iter().map(dump_pat).collect()),
        Pattern::Ident(id) => D { label: format!("p-ident:{}", id.name), ..d },
        Pattern::Record { fields, implicit_import, .. } => {
            let mut kids = Vec::new();
            for f in fields.iter() {
                match f {
                    PatternField::Type { name } => kids.push(D::new(format!("p-type-field:{}", name.value), name.span)),
                    PatternField::Value { name, value } => kids.push(D::new(format!("p-field:{}", name.value), name.span).with(value.iter().map(dump_pat).collect())),
                }
            }
            if let Some(i) = implicit_import {
                // the parser names the implicit import after its position
                kids.push(D::new("p-implicit-import", i.span));
            }
            D { label: "p-record".into(), ..d }.with(kids)
        }
        Pattern::Tuple { elems, .. } => D { label: "p-tuple".into(), ..d }.with(elems.iter().map(dump_pat).collect()),
        Pattern::Literal(l) => D { label: format!("p-literal:{}", lit_label(l)), ..d },
        Pattern::Error => D { label: "p-error".into(), ..d },
    }
}

fn dump_args(args: &[gast::Argument<gast::SpannedIdent<String>>]) -> Vec<D> {
    args.iter().map(|a| D::new(format!("arg:{:?}:{}", a.arg_type, a.name.value.name), a.name.span)).collect()
}

fn dump_binding(b: &ValueBinding<'_, String>) -> D {
    let mut kids = Vec::new();
    dump_meta(base_meta(&b.metadata), &mut kids);
    kids.push(dump_pat(&b.name));
    kids.extend(dump_args(b.args));
    if let Some(t) = &b.typ {
        kids.push(D::leaf("annotation").with(vec![dump_type(t)]));
    }
    kids.push(dump_expr(&b.expr));
    D::new("binding", b.span()).with(kids)
}

pub fn dump_expr(e: &SpannedExpr<'_, String>) -> D {
    let d = D::new("", e.span);
    let lab = |s: &str, kids: Vec<D>| D { label: s.to_string(), ..d.clone() }.with(kids);
    match &e.value {
        Expr::Ident(id) => lab(&format!("ident:{}", id.name), vec![]),
        Expr::Literal(l) => lab(&format!("literal:{}", lit_label(l)), vec![]),
        Expr::App { func, implicit_args, args } => {
            let mut kids = vec![dump_expr(func)];
            kids.extend(implicit_args.iter().map(|a| D::leaf("implicit").with(vec![dump_expr(a)])));
            kids.extend(args.iter().map(dump_expr));
            lab("app", kids)
        }
        Expr::Lambda(l) => {
            let mut kids = dump_args(l.args);
            kids.push(dump_expr(l.body));
            lab("lambda", kids)
        }
        Expr::IfElse(c, a, b) => lab("if", vec![dump_expr(c), dump_expr(a), dump_expr(b)]),
        Expr::Match(s, alts) => {
            let mut kids = vec![dump_expr(s)];
            for alt in alts.iter() {
                let span = Span::new(alt.pattern.span.start(), alt.expr.span.end());
                kids.push(D::new("alternative", span).with(vec![dump_pat(&alt.pattern), dump_expr(&alt.expr)]));
            }
            lab("match", kids)
        }
        Expr::Infix { lhs, op, rhs, implicit_args } => {
            let mut kids = vec![dump_expr(lhs), dump_expr(rhs)];
            kids.extend(implicit_args.iter().map(|a| D::leaf("implicit").with(vec![dump_expr(a)])));
            lab(&format!("infix:{}", op.value.name), kids)
        }
        Expr::Projection(b, id, _) => lab(&format!("projection:{}", id), vec![dump_expr(b)]),
        Expr::Array(a) => lab("array", a.exprs.iter().map(dump_expr).collect()),
        Expr::Record { types, exprs, base, .. } => {
            let mut kids = Vec::new();
            for t in types.iter() {
                let mut k = Vec::new();
                dump_meta(base_meta(&t.metadata), &mut k);
                if t.value.is_some() {
                    k.push(D::leaf("has-type"));
                }
                kids.push(D::new(format!("type-field:{}", t.name.value), t.name.span).with(k));
            }
            for f in exprs.iter() {
                let mut k = Vec::new();
                dump_meta(base_meta(&f.metadata), &mut k);
                let mut span = f.name.span;
                if let Some(v) = &f.value {
                    span = Span::new(span.start(), v.span.end());
                    k.push(dump_expr(v));
                }
                kids.push(D::new(format!("field:{}", f.name.value), span).with(k));
            }
            if let Some(b) = base {
                kids.push(D::leaf("base").with(vec![dump_expr(b)]));
            }
            lab("record", kids)
        }
        Expr::Tuple { elems, .. } => {
            if elems.len() == 1 {
                lab("paren", vec![dump_expr(&elems[0])])
            } else {
                lab("tuple", elems.iter().map(dump_expr).collect())
            }
        }
        Expr::LetBindings(bs, body) => {
            let mut kids = Vec::new();
            let label = match bs {
                ValueBindings::Plain(b) => {
                    kids.push(dump_binding(b));
                    "let"
                }
                ValueBindings::Recursive(bs) => {
                    kids.extend(bs.iter().map(dump_binding));
                    "rec-let"
                }
            };
            kids.push(dump_expr(body));
            lab(label, kids)
        }
        Expr::TypeBindings(tbs, body) => {
            let mut kids = Vec::new();
            for tb in tbs.iter() {
                let mut k = Vec::new();
                dump_meta(base_meta(&tb.metadata), &mut k);
                k.extend(dump_generics(tb.alias.value.params()));
                if tb.alias.value.is_implicit() {
                    k.push(D::leaf("implicit-alias"));
                }
                k.push(dump_type(tb.alias.value.unresolved_type()));
                kids.push(D::new(format!("type-binding:{}:{}", tb.name.value, tb.alias.value.name), tb.span()).with(k));
            }
            kids.push(dump_expr(body));
            lab(if tbs.len() > 1 { "rec-type" } else { "type" }, kids)
        }
        Expr::Block(es) => {
            if es.len() == 1 {
                dump_expr(&es[0])
            } else {
                lab("block", es.iter().map(dump_expr).collect())
            }
        }
        Expr::Do(d_) => {
            let mut kids = Vec::new();
            if let Some(p) = &d_.id {
                kids.push(dump_pat(p));
            }
            if let Some(t) = &d_.typ {
                kids.push(D::leaf("annotation").with(vec![dump_type(t)]));
            }
            kids.push(dump_expr(d_.bound));
            kids.push(dump_expr(d_.body));
            // `seq a in b` and the block `a` / `b` are one tree in gluon
            lab(if d_.id.is_some() { "do" } else { "seq" }, kids)
        }
        Expr::MacroExpansion { original, .. } => dump_expr(original),
        Expr::Annotated(x, t) => {
            // the annotation is an `ArcType` without positions: compare its display form
            lab(&format!("annotated:{}", t), vec![dump_expr(x)])
        }
        Expr::Error(_) => lab("error", vec![]),
    }
}

#[derive(Clone, Debug)]
pub enum Raw {
    Ok(D),
    /// first error and its byte offset
    Err(String, usize),
    Panic(String),
}

/// gluon_parser::parse_partial_expr only (operators stay in the right-nested chain the grammar
/// builds: regrouping by fixity is a function of this tree and of the `#[infix]` attributes,
/// which are part of it)
pub fn parse_raw(src: &str) -> Raw {
    let r = std::panic::catch_unwind(|| {
        gluon_base::mk_ast_arena!(arena);
        let mut env = StrEnv;
        let tc: TypeCache<String, gluon_base::types::ArcType<String>> = TypeCache::default();
        match gluon_parser::parse_partial_expr((*arena).borrow(), &mut env, &tc, src) {
            Ok(e) => Raw::Ok(dump_expr(&e)),
            Err((_, errs)) => {
                let first = errs.into_iter().next();
                let pos = first.as_ref().map_or(0, |e| e.span.start().to_usize().saturating_sub(1));
                Raw::Err(first.map(|e| e.value.to_string()).unwrap_or_default(), pos)
            }
        }
    });
    match r {
        Ok(p) => p,
        Err(p) => Raw::Panic(crate::vmkit::panic_message(&p)),
    }
}

// ---------------------------------------------------------------------------------------------
// the subject

pub struct Fmt {
    vm: gluon::RootedThread,
    used: usize,
    pub formats: u64,
    /// implicit prelude on (what `gluon fmt` does; needed for files that use the prelude's operators)
    pub prelude: bool,
    id: u64,
}

#[derive(Clone, Debug, PartialEq)]
pub enum FmtOut {
    Ok(String),
    /// error class, text
    Err(String, String),
    Panic(String),
}

impl Fmt {
    pub fn new(prelude: bool) -> Fmt {
        Fmt { vm: make_fmt_vm(prelude), used: 0, formats: 0, prelude, id: NEXT_FMT_ID.fetch_add(1, std::sync::atomic::Ordering::Relaxed) }
    }
    pub fn fresh(&mut self) {
        self.vm = make_fmt_vm(self.prelude);
        self.used = 0;
    }
    pub fn format(&mut self, src: &str) -> FmtOut {
        use gluon::ThreadExt;
        self.used += 1;
        self.formats += 1;
        // every call adds a file to the VM's code map
        if self.used > 400 {
            self.fresh();
        }
        let vm = self.vm.clone();
        let name = format!("c10_{}", self.used);
        let tid = self.id;
        IN_FLIGHT.lock().unwrap().insert(tid, (std::time::Instant::now(), src.to_string(), self.prelude));
        let r = std::panic::catch_unwind(std::panic::AssertUnwindSafe(|| vm.format_expr(&mut gluon_format::Formatter::default(), &name, src)));
        IN_FLIGHT.lock().unwrap().remove(&tid);
        match r {
            Ok(Ok(s)) => FmtOut::Ok(s),
            Ok(Err(e)) => {
                let (k, _) = crate::vmkit::classify_error(&e);
                FmtOut::Err(format!("{:?}", k), e.to_string())
            }
            Err(p) => {
                let msg = crate::vmkit::panic_message(&p);
                self.fresh();
                FmtOut::Panic(format!("{} @ {}", msg, crate::vmkit::last_panic_loc()))
            }
        }
    }
}

static NEXT_FMT_ID: std::sync::atomic::AtomicU64 = std::sync::atomic::AtomicU64::new(0);
static IN_FLIGHT: std::sync::Mutex<BTreeMap<u64, (std::time::Instant, String, bool)>> = std::sync::Mutex::new(BTreeMap::new());

/// seconds after which a single format_expr call counts as not terminating
const HANG_S: u64 = 150;

/// A format_expr call that does not return cannot be interrupted in-process: the watchdog
/// reports it (with a replay artefact that is re-run in a child process) and ends the run.
fn start_watchdog(tier: &str) {
    let tier = tier.to_string();
    // (the override exists to exercise the watchdog itself)
    let limit_ms: u128 = std::env::var("VERIF_C10_HANG_MS").ok().and_then(|s| s.parse().ok()).unwrap_or(HANG_S as u128 * 1000);
    std::thread::spawn(move || loop {
        std::thread::sleep(std::time::Duration::from_millis(if limit_ms < 1000 { 1 } else { 1000 }));
        let stuck = IN_FLIGHT.lock().unwrap().values().find(|(t, _, _)| t.elapsed().as_millis() >= limit_ms).cloned();
        if let Some((_, src, prelude)) = stuck {
            let mut report = Report::new("C10", &tier, "exploration");
            report.set("evaluations", 0u64);
            report.set("distinct_nontrivial", 0u64);
            report.set("exhaustive", false);
            report.set("rule", "run ended by the watchdog: one format_expr call did not return");
            let v = json!({"source": src, "class": "format-hang", "key": "c10:format-hang", "prelude": prelude});
            report.violation("c10:format-hang", format!("format_expr did not return within {} ms -- input: {:?}", limit_ms, src), v);
            std::process::exit(crate::report::finish(report));
        }
    });
}

/// child-process side of the replay of a hang / crash: formats the payload's source once
pub fn worker(payload: &str) -> String {
    let v: Value = serde_json::from_str(payload).unwrap_or(Value::Null);
    let mut f = Fmt::new(v["prelude"].as_bool().unwrap_or(false));
    match f.format(v["source"].as_str().unwrap_or("")) {
        FmtOut::Ok(_) => "ok".into(),
        FmtOut::Err(..) => "err".into(),
        FmtOut::Panic(_) => "panic".into(),
    }
}

fn make_fmt_vm(prelude: bool) -> gluon::RootedThread {
    let vm = gluon::VmBuilder::new().import_paths(Some(vec!["/repo".into()])).build();
    let mut s = crate::vmkit::Settings::bare();
    s.implicit_prelude = prelude;
    crate::vmkit::apply_settings(&vm, s);
    vm
}

// ---------------------------------------------------------------------------------------------
// oracle

#[derive(Clone, Debug)]
pub struct Fail {
    /// failure class (first component of the key)
    pub class: String,
    /// class-specific locus used when the case has no perturbation locus of its own
    pub locus: String,
    pub detail: String,
}

#[derive(Clone, Debug, Default)]
pub struct Obs {
    pub formatted: Option<String>,
    pub changed_text: bool,
    pub comments: usize,
    pub fails: Vec<Fail>,
    /// the input does not parse / is outside of the reference lexer
    pub skipped: Option<String>,
}

fn squash(s: &str) -> String {
    // digits and quoted names out of a message
    let mut out = String::new();
    let mut last_digit = false;
    for c in s.chars() {
        if c.is_ascii_digit() {
            if !last_digit {
                out.push('N');
            }
            last_digit = true;
        } else {
            last_digit = false;
            out.push(c);
        }
    }
    crate::vmkit::first_line(&out)
}

/// `message @ file:line` -> `message (digits squashed, 60 characters)@file`
fn panic_locus(msg: &str) -> String {
    let (m, loc) = msg.rsplit_once(" @ ").unwrap_or((msg, ""));
    let file = loc.rsplit_once(':').map_or(loc, |x| x.0).trim_start_matches("/repo/");
    let m: String = squash(m).chars().take(60).collect();
    format!("{}@{}", m, file)
}

fn node_path(tree: &D, lo: usize, hi: usize) -> String {
    let mut v = Vec::new();
    tree.locate(lo, hi, &mut v);
    let n = v.len();
    let tail: Vec<String> = v.into_iter().skip(n.saturating_sub(1)).collect();
    if tail.is_empty() { "top".into() } else { tail.join("/") }
}

/// kind of comment `c` + description of the gap that holds it
fn gap_of_comment(src: &str, lx: &Lexed, tree: &D, c: &CommentItem) -> String {
    let kind = match c.doc {
        Some(_) => "doc",
        None if c.text.starts_with("//") => {
            // alone on its line?
            let line_start = src[..c.lo].rfind('\n').map_or(0, |p| p + 1);
            if src[line_start..c.lo].trim().is_empty() { "own-line" } else { "trailing-line" }
        }
        None => "block",
    };
    format!("{}:{}", kind, gap_of_comment_(src, lx, tree, c))
}

fn gap_of_comment_(src: &str, lx: &Lexed, tree: &D, c: &CommentItem) -> String {
    let a = if c.after_tok == usize::MAX { None } else { lx.code.get(c.after_tok).map(|k| &lx.toks[*k]) };
    let b = lx.code.get(c.after_tok.wrapping_add(1)).map(|k| &lx.toks[*k]);
    gap_desc(src, tree, a, b)
}

pub fn gap_desc(src: &str, tree: &D, a: Option<&Tok>, b: Option<&Tok>) -> String {
    // `x` = where an expression / pattern / type ends on the left or starts on the right
    let mut ca = a.map_or("start".to_string(), |t| tok_class(src, t));
    let mut cb = b.map_or("end".to_string(), |t| tok_class(src, t));
    if matches!(ca.as_str(), "atom" | ")" | "]" | "}") {
        ca = "x".into();
    }
    if matches!(cb.as_str(), "atom" | "(" | "[" | "{" | "\\" | "let" | "do" | "seq" | "if" | "match" | "rec" | "type") {
        cb = "x".into();
    }
    let node = match (a, b) {
        (Some(a), Some(b)) => node_path(tree, a.lo, b.hi),
        _ => "top".into(),
    };
    format!("between:{}:{}:in:{}", ca, cb, node)
}

/// Where the tokens of the output stop following the tokens of the input: the gap after the
/// first input token that the output does not spell, or the gap in front of the first token the
/// output leaves out (`in` and `,` may be left out / added by design).
fn divergence_locus(src: &str, lx: &Lexed, tree: &D, out: &str) -> Option<String> {
    let (otoks, _) = lex_lenient(out);
    let otext: Vec<&str> = otoks.iter().filter(|t| !is_comment(t.kind)).map(|t| &out[t.lo..t.hi]).collect();
    let code: Vec<&Tok> = lx.code.iter().map(|k| &lx.toks[*k]).collect();
    let optional = |t: &str| t == "in" || t == ",";
    let (mut i, mut j) = (0, 0);
    let mut first_dropped: Option<usize> = None;
    while i < code.len() {
        let t = &src[code[i].lo..code[i].hi];
        if j < otext.len() && otext[j] == t {
            i += 1;
            j += 1;
        } else if optional(t) {
            if first_dropped.is_none() {
                first_dropped = Some(i);
            }
            i += 1;
        } else if j < otext.len() && optional(otext[j]) {
            j += 1;
        } else {
            if let Some(next) = code.get(i + 1) {
                if &src[next.lo..next.hi] == "in" {
                    // the token runs into what follows the `in` keyword
                    return Some(format!("at-explicit-in:in:{}", node_path(tree, code[i].lo, next.hi)));
                }
            }
            return Some(gap_desc(src, tree, Some(code[i]), code.get(i + 1).cloned()));
        }
    }
    first_dropped.map(|i| {
        if &src[code[i].lo..code[i].hi] == "in" && i > 0 {
            format!("at-explicit-in:in:{}", node_path(tree, code[i - 1].lo, code[i].hi))
        } else {
            gap_desc(src, tree, if i > 0 { Some(code[i - 1]) } else { None }, Some(code[i]))
        }
    })
}

/// The output has the tokens of the input but does not parse at byte `pos`: the input token that
/// corresponds to the first output token at or after `pos`.
fn layout_locus(src: &str, lx: &Lexed, tree: &D, out: &str, pos: usize) -> Option<String> {
    let optional = |t: &str| t == "in" || t == ",";
    let (otoks, _) = lex_lenient(out);
    let j = otoks.iter().filter(|t| !is_comment(t.kind) && !optional(&out[t.lo..t.hi]) && t.hi <= pos).count();
    let code: Vec<&Tok> = lx.code.iter().map(|k| &lx.toks[*k]).filter(|t| !optional(&src[t.lo..t.hi])).collect();
    let t = code.get(j).or(code.last())?;
    // the innermost node that is not a pattern or a type
    let mut v = Vec::new();
    tree.locate(t.lo, t.hi, &mut v);
    let node = v.into_iter().filter(|k| !k.starts_with("p-") && !k.starts_with("t-")).last().unwrap_or_else(|| "top".into());
    Some(format!("layout:at:{}:in:{}", tok_class(src, t), node))
}

/// All checks on one input. `expect` = the tree the input must have (perturbations of an input
/// that change its tree are skipped: they are another program).
pub fn observe(f: &mut Fmt, src: &str, expect: Option<&D>) -> Obs {
    let mut o = Obs::default();
    let lx = match lexed(src) {
        Ok(l) => l,
        Err(e) => {
            o.skipped = Some(format!("lexer:{}", e));
            return o;
        }
    };
    let tree = match parse_raw(src) {
        Raw::Ok(t) => t,
        Raw::Err(..) => {
            o.skipped = Some("does-not-parse".into());
            return o;
        }
        Raw::Panic(_) => {
            o.skipped = Some("parser-panics".into());
            return o;
        }
    };
    if let Some(x) = expect {
        if !tree.same(x) {
            o.skipped = Some("perturbation-changes-the-tree".into());
            return o;
        }
    }
    o.comments = lx.comments.len();
    // An explicit `in` that follows a token on its line: the formatter relies on a line break in
    // front of the body, so the output runs the two neighbours of the `in` together. Whatever
    // follows from that (no parse / another tree / no fixed point) is filed under this locus.
    let explicit_in: Option<String> = lx.toks.windows(2).find_map(|w| {
        let (p, t) = (&w[0], &w[1]);
        if t.kind == TK::Keyword && &src[t.lo..t.hi] == "in" && !is_comment(p.kind) && !src[p.hi..t.lo].contains('\n') {
            Some(format!("at-explicit-in:in:{}", node_path(&tree, p.lo, t.hi)))
        } else {
            None
        }
    });
    let out = match f.format(src) {
        FmtOut::Ok(s) => s,
        FmtOut::Err(class, text) => {
            if text.contains("fixit") {
                // operators without a (common) fixity: the formatter refuses, as for a parse error
                o.skipped = Some("refused:fixity".into());
                return o;
            }
            o.fails.push(Fail { class: "format-error".into(), locus: format!("{}:{}", class, squash(&text)), detail: text });
            return o;
        }
        FmtOut::Panic(msg) => {
            o.fails.push(Fail { class: "format-panic".into(), locus: panic_locus(&msg), detail: msg });
            return o;
        }
    };
    o.changed_text = out.trim_end() != src.trim_end();
    o.formatted = Some(out.clone());
    // the output parses ...
    let t2 = match parse_raw(&out) {
        Raw::Ok(t2) => t2,
        Raw::Err(e, pos) => {
            let locus = explicit_in.clone().or_else(|| divergence_locus(src, &lx, &tree, &out)).or_else(|| layout_locus(src, &lx, &tree, &out, pos)).unwrap_or_else(|| squash(&e));
            o.fails.push(Fail { class: "output-does-not-parse".into(), locus, detail: format!("{}; output {:?}", crate::vmkit::first_line(&e), out) });
            return o;
        }
        Raw::Panic(m) => {
            let locus = explicit_in.clone().or_else(|| divergence_locus(src, &lx, &tree, &out)).unwrap_or_else(|| squash(&m));
            o.fails.push(Fail { class: "output-does-not-parse".into(), locus, detail: format!("the parser panics: {}; output {:?}", m, out) });
            return o;
        }
    };
    let lo = match lexed(&out) {
        Ok(l) => l,
        Err(e) => {
            // gluon parses it, the reference lexer does not model it: nothing to compare with
            o.skipped = Some(format!("output-outside-reference-lexer:{}", e));
            return o;
        }
    };
    // ... with the same literal texts
    let mut literal_changed = false;
    if lx.literals != lo.literals {
        literal_changed = true;
        let k = lx.literals.iter().zip(lo.literals.iter()).position(|(x, y)| x != y).unwrap_or(lx.literals.len().min(lo.literals.len()));
        let kind = lx.literals.get(k).map_or("none", |t| {
            if t.starts_with('"') {
                if t.contains('\n') { "multi-line-string" } else { "string" }
            } else if t.starts_with('r') {
                if t.contains('\n') { "multi-line-raw-string" } else { "raw-string" }
            } else if t.starts_with('\'') {
                "char"
            } else if t.contains('.') {
                "float"
            } else if t.ends_with('b') && !t.contains('x') {
                "byte"
            } else {
                "int"
            }
        });
        o.fails.push(Fail { class: "literal-changed".into(), locus: kind.into(), detail: format!("literal {:?} became {:?}; output {:?}", lx.literals.get(k), lo.literals.get(k), out) });
    }
    let comments_in: Vec<(&Option<&str>, &String)> = lx.comments.iter().map(|c| (&c.doc, &c.text)).collect();
    let comments_out: Vec<(&Option<&str>, &String)> = lo.comments.iter().map(|c| (&c.doc, &c.text)).collect();
    // ... to the same tree (a changed literal is reported once, above; a changed documentation
    // comment once, below)
    if !literal_changed {
        let mut path = Vec::new();
        let diff = tree.first_diff(&t2, &mut path);
        let doc_only = comments_in != comments_out && diff.as_ref().map_or(false, |d| d.starts_with("\"doc:") || d.contains("became \"doc:"));
        if let (Some(d), false) = (diff, doc_only) {
            let n = path.len();
            let tail: Vec<String> = path.into_iter().skip(n.saturating_sub(2)).collect();
            o.fails.push(Fail { class: "ast-changed".into(), locus: explicit_in.clone().unwrap_or_else(|| format!("in:{}", tail.join("/"))), detail: format!("{}; output {:?}", d, out) });
        }
    }
    // ... with the same comments
    {
        let (a, b) = (comments_in, comments_out);
        if a != b {
            let k = a.iter().zip(b.iter()).position(|(x, y)| x != y).unwrap_or(a.len().min(b.len()));
            let sorted_same = {
                let mut x = a.clone();
                let mut y = b.clone();
                x.sort();
                y.sort();
                x == y
            };
            let class = if b.len() < a.len() {
                "comment-dropped"
            } else if b.len() > a.len() {
                "comment-duplicated"
            } else if sorted_same {
                "comments-reordered"
            } else {
                "comment-changed"
            };
            let locus = if k < a.len() {
                gap_of_comment(src, &lx, &tree, &lx.comments[k])
            } else {
                // an extra comment after the last one: the input comment it repeats
                match b.get(k).and_then(|x| a.iter().rposition(|y| y == x)) {
                    Some(j) => gap_of_comment(src, &lx, &tree, &lx.comments[j]),
                    None => "at-end".to_string(),
                }
            };
            o.fails.push(Fail { class: class.into(), locus, detail: format!("comments of the input {:?}, of the output {:?}; output {:?}", a, b, out) });
        }
    }
    // ... and is a fixed point
    match f.format(&out) {
        FmtOut::Ok(again) => {
            if again != out {
                let p = out.bytes().zip(again.bytes()).position(|(a, b)| a != b).unwrap_or(out.len().min(again.len()));
                let p = p.min(out.len().saturating_sub(1));
                let nl = |s: &str| s.replace("\r\n", "\n");
                let (o1, o2) = (nl(&out), nl(&again));
                let q = o1.bytes().zip(o2.bytes()).position(|(a, b)| a != b).unwrap_or(o1.len().min(o2.len()));
                let how = if o2.len() == o1.len() + 1 && o2[..q] == o1[..q] && o2[q..].starts_with('\n') && o2[q + 1..] == o1[q..] {
                    "blank-line-added"
                } else if o1.len() == o2.len() + 1 && o1[q..].starts_with('\n') && o1[q + 1..] == o2[q..] {
                    "blank-line-removed"
                } else {
                    "reflowed"
                };
                o.fails.push(Fail { class: "not-idempotent".into(), locus: explicit_in.clone().unwrap_or_else(|| format!("{}:in:{}", how, node_path(&t2, p, p))), detail: format!("formatted once: {:?}; formatted twice: {:?}", out, again) });
            }
        }
        FmtOut::Err(class, text) => o.fails.push(Fail { class: "second-format-error".into(), locus: format!("{}:{}", class, squash(&text)), detail: format!("formatted once: {:?}; then: {}", out, text) }),
        FmtOut::Panic(msg) => o.fails.push(Fail { class: "second-format-panic".into(), locus: panic_locus(&msg), detail: format!("formatted once: {:?}; then: {}", out, msg) }),
    }
    o
}

// ---------------------------------------------------------------------------------------------
// perturbations of a token gap

#[derive(Clone, Copy, Debug, PartialEq, Eq, PartialOrd, Ord)]
pub enum Pert {
    /// ` /* c10 */ ` after the left token
    Block,
    /// ` // c10` after the left token; the rest of the line continues on the next line with every
    /// token on the column it had
    LineEol,
    /// `// c10` on a line of its own at the column of the right token
    OwnLine,
    BlankLine,
    /// `/// d10` on a line of its own (parses only in front of bindings, fields, variants)
    Doc,
    /// `/** d10 */` on a line of its own
    DocBlock,
    AddSpace,
    RemoveSpace,
    /// the line break(s) of the gap replaced by one space
    Join,
    /// a line break; the right token keeps its column
    SplitKeep,
    /// a line break; the right token goes to the indentation of its line + 4
    SplitIndent,
}

pub const COMMENT_PERTS: &[Pert] = &[Pert::Block, Pert::LineEol, Pert::OwnLine, Pert::BlankLine, Pert::Doc, Pert::DocBlock];
pub const SPACE_PERTS: &[Pert] = &[Pert::AddSpace, Pert::RemoveSpace, Pert::Join, Pert::SplitKeep, Pert::SplitIndent];

pub fn pert_name(p: Pert) -> &'static str {
    match p {
        Pert::Block => "block-comment",
        Pert::LineEol => "line-comment",
        Pert::OwnLine => "own-line-comment",
        Pert::BlankLine => "blank-line",
        Pert::Doc => "doc-comment",
        Pert::DocBlock => "block-doc-comment",
        Pert::AddSpace => "add-space",
        Pert::RemoveSpace => "remove-space",
        Pert::Join => "join-lines",
        Pert::SplitKeep => "split-line-keep-column",
        Pert::SplitIndent => "split-line-indent",
    }
}

pub fn pert_by_name(n: &str) -> Option<Pert> {
    COMMENT_PERTS.iter().chain(SPACE_PERTS.iter()).cloned().find(|p| pert_name(*p) == n)
}

pub struct Base {
    pub src: String,
    pub toks: Vec<Tok>,
    pub tree: D,
}

pub fn make_base(src: &str) -> Result<Base, String> {
    let toks = lex(src).map_err(|e| format!("lexer:{}", e))?;
    match parse_raw(src) {
        Raw::Ok(tree) => Ok(Base { src: src.to_string(), toks, tree }),
        Raw::Err(..) => Err("does-not-parse".into()),
        Raw::Panic(_) => Err("parser-panics".into()),
    }
}

fn col_at(src: &str, pos: usize) -> usize {
    match src[..pos].rfind('\n') {
        Some(p) => pos - p - 1,
        None => pos,
    }
}

fn line_indent_at(src: &str, pos: usize) -> usize {
    let start = src[..pos].rfind('\n').map_or(0, |p| p + 1);
    src[start..].bytes().take_while(|b| *b == b' ').count()
}

fn spaces(n: usize) -> String {
    " ".repeat(n)
}

pub fn to_crlf(s: &str) -> String {
    s.replace("\r\n", "\n").replace('\n', "\r\n")
}

const C_BLOCK: &str = "/* c10 */";
const C_LINE: &str = "// c10";
const C_DOC: &str = "/// d10";
const C_DOCBLOCK: &str = "/** d10 */";

/// gap `g` of a source with n tokens: 0 = before the first token, n = after the last one
pub fn apply_pert(b: &Base, g: usize, p: Pert) -> Option<String> {
    let src = &b.src;
    let n = b.toks.len();
    if n == 0 || g > n {
        return None;
    }
    let lo = if g == 0 { 0 } else { b.toks[g - 1].hi };
    let hi = if g == n { src.len() } else { b.toks[g].lo };
    let ws = &src[lo..hi];
    let has_nl = ws.contains('\n');
    let col_b = if g == n { 0 } else { col_at(src, hi) };
    let shebang = b.toks[0].kind == TK::Shebang;
    if g == 0 && shebang {
        return None;
    }
    let own_line = |text: &str| -> Option<String> {
        if g == 0 {
            Some(format!("{}\n{}", text, src))
        } else if g == n {
            Some(format!("{}{}{}\n", src, if src.ends_with('\n') { "" } else { "\n" }, text))
        } else if has_nl {
            let p = ws.rfind('\n').unwrap();
            Some(format!("{}{}\n{}{}{}{}", &src[..lo], &ws[..p], spaces(col_b), text, &ws[p..], &src[hi..]))
        } else {
            Some(format!("{}\n{}{}\n{}{}", &src[..lo], spaces(col_b), text, spaces(col_b), &src[hi..]))
        }
    };
    match p {
        Pert::Block => {
            if g == 0 {
                Some(format!("{}\n{}", C_BLOCK, src))
            } else if g == n || has_nl {
                Some(format!("{} {}{}", &src[..lo], C_BLOCK, &src[lo..]))
            } else {
                Some(format!("{} {} {}", &src[..lo], C_BLOCK, &src[hi..]))
            }
        }
        Pert::LineEol => {
            if g == 0 {
                Some(format!("{}\n{}", C_LINE, src))
            } else if g == n || has_nl {
                Some(format!("{} {}{}", &src[..lo], C_LINE, &src[lo..]))
            } else {
                Some(format!("{} {}\n{}{}", &src[..lo], C_LINE, spaces(col_b), &src[hi..]))
            }
        }
        Pert::OwnLine => {
            if g == 0 {
                None
            } else {
                own_line(C_LINE)
            }
        }
        Pert::Doc => own_line(C_DOC),
        Pert::DocBlock => own_line(C_DOCBLOCK),
        Pert::BlankLine => {
            if has_nl && g > 0 && g < n {
                let p = lo + ws.find('\n').unwrap() + 1;
                Some(format!("{}\n{}", &src[..p], &src[p..]))
            } else {
                None
            }
        }
        Pert::AddSpace => {
            if g > 0 && g < n {
                Some(format!("{} {}", &src[..hi], &src[hi..]))
            } else {
                None
            }
        }
        Pert::RemoveSpace => {
            if g > 0 && g < n && ws.ends_with(' ') {
                Some(format!("{}{}", &src[..hi - 1], &src[hi..]))
            } else {
                None
            }
        }
        Pert::Join => {
            if g > 0 && g < n && has_nl {
                Some(format!("{} {}", &src[..lo], &src[hi..]))
            } else {
                None
            }
        }
        Pert::SplitKeep => {
            if g > 0 && g < n && !has_nl {
                Some(format!("{}\n{}{}", &src[..lo], spaces(col_b), &src[hi..]))
            } else {
                None
            }
        }
        Pert::SplitIndent => {
            if g > 0 && g < n && !has_nl {
                let c = line_indent_at(src, lo) + 4;
                if c == col_b {
                    return None;
                }
                Some(format!("{}\n{}{}", &src[..lo], spaces(c), &src[hi..]))
            } else {
                None
            }
        }
    }
}

pub fn gap_locus(b: &Base, g: usize) -> String {
    let n = b.toks.len();
    let a = if g == 0 { None } else { b.toks.get(g - 1) };
    let t = if g >= n { None } else { b.toks.get(g) };
    gap_desc(&b.src, &b.tree, a, t)
}

// ---------------------------------------------------------------------------------------------
// accumulation

pub struct Found {
    /// cases by perturbation kind (diagnostics)
    kinds: BTreeMap<String, u64>,
    count: u64,
    src: String,
    what: String,
    replay: Value,
}

#[derive(Default)]
pub struct Acc {
    cases: u64,
    formatted: u64,
    changed: u64,
    with_comments: u64,
    nontrivial: u64,
    skipped: BTreeMap<String, u64>,
    by_part: BTreeMap<String, u64>,
    found: BTreeMap<String, Found>,
    dropped: u64,
    samples: Vec<Value>,
    slowest_ms: f64,
    slowest: String,
}

pub struct Ctx<'a> {
    pub part: &'a str,
    /// label of the case family (style, variant) for messages
    pub label: String,
    /// unperturbed input and the failure classes it has by itself
    pub base: Option<(&'a Base, &'a std::collections::BTreeSet<String>)>,
    /// (gap, perturbation)
    pub pert: Option<(usize, Pert)>,
    pub crlf: bool,
    /// the perturbed input must have the tree of the base
    pub same_tree: bool,
    /// suffix for keys of failures that only this variant has
    pub key_suffix: &'a str,
}

/// runs the oracle on one input and files the failures; returns the failure classes seen
pub fn check(acc: &mut Acc, f: &mut Fmt, cx: &Ctx, src: &str) -> std::collections::BTreeSet<String> {
    let t0 = std::time::Instant::now();
    let expect = if cx.same_tree { cx.base.map(|b| &b.0.tree) } else { None };
    let o = observe(f, src, expect);
    let ms = t0.elapsed().as_secs_f64() * 1000.0;
    if ms > acc.slowest_ms {
        acc.slowest_ms = ms;
        acc.slowest = src.chars().take(200).collect();
    }
    let mut classes = std::collections::BTreeSet::new();
    if let Some(r) = &o.skipped {
        *acc.skipped.entry(format!("{}:{}", cx.part, r)).or_insert(0) += 1;
        return classes;
    }
    acc.cases += 1;
    *acc.by_part.entry(cx.part.to_string()).or_insert(0) += 1;
    if o.formatted.is_some() {
        acc.formatted += 1;
    }
    if o.changed_text {
        acc.changed += 1;
    }
    if o.comments > 0 {
        acc.with_comments += 1;
    }
    if o.changed_text || o.comments > 0 {
        acc.nontrivial += 1;
        if acc.samples.len() < 3 && o.fails.is_empty() && (acc.cases % 997 == 5) {
            acc.samples.push(json!({"part": cx.part, "case": cx.label, "input": src, "formatted": o.formatted}));
        }
    }
    for fl in &o.fails {
        classes.insert(fl.class.clone());
        if let Some((_, base_classes)) = cx.base {
            if base_classes.contains(&fl.class) {
                continue;
            }
        }
        let key = format!("c10:{}:{}{}", fl.class, fl.locus, cx.key_suffix);
        if !acc.found.contains_key(&key) && acc.found.len() >= 3000 {
            acc.dropped += 1;
            continue;
        }
        let e = acc.found.entry(key.clone()).or_insert(Found { kinds: BTreeMap::new(), count: 0, src: String::new(), what: String::new(), replay: Value::Null });
        e.count += 1;
        *e.kinds.entry(cx.pert.map_or("unperturbed", |p| pert_name(p.1)).to_string()).or_insert(0) += 1;
        if e.src.is_empty() || (src.len(), src) < (e.src.len(), e.src.as_str()) {
            e.src = src.to_string();
            let pert = match (cx.base, cx.pert) {
                (Some((b, _)), Some((g, p))) => format!(" + {} in gap {} ({})", pert_name(p), g, gap_locus(b, g)),
                _ => String::new(),
            };
            e.what = format!("[{} {}{}{}] {}: {} -- input: {:?}", cx.part, cx.label, pert, if cx.crlf { " (CRLF)" } else { "" }, fl.class, fl.detail, src);
            e.replay = json!({
                "source": src,
                "base": cx.base.map(|b| b.0.src.clone()),
                "same_tree": cx.same_tree,
                "class": fl.class,
                "key": key,
                "prelude": f.prelude,
            });
        }
    }
    classes
}

fn merge(total: &mut Acc, a: Acc) {
    total.cases += a.cases;
    total.formatted += a.formatted;
    total.changed += a.changed;
    total.with_comments += a.with_comments;
    total.nontrivial += a.nontrivial;
    total.dropped += a.dropped;
    for (k, v) in a.skipped {
        *total.skipped.entry(k).or_insert(0) += v;
    }
    for (k, v) in a.by_part {
        *total.by_part.entry(k).or_insert(0) += v;
    }
    if a.slowest_ms > total.slowest_ms {
        total.slowest_ms = a.slowest_ms;
        total.slowest = a.slowest;
    }
    for (k, v) in a.found {
        match total.found.get_mut(&k) {
            Some(e) => {
                e.count += v.count;
                for (k, n) in v.kinds {
                    *e.kinds.entry(k).or_insert(0) += n;
                }
                if (v.src.len(), &v.src) < (e.src.len(), &e.src) {
                    e.src = v.src;
                    e.what = v.what;
                    e.replay = v.replay;
                }
            }
            None => {
                total.found.insert(k, v);
            }
        }
    }
    if total.samples.len() < 8 {
        total.samples.extend(a.samples.into_iter().take(1));
    }
}

/// the unperturbed input, then every requested perturbation of every gap (LF, and CRLF on request)
pub fn check_with_gaps(acc: &mut Acc, f: &mut Fmt, part: &str, label: &str, src: &str, perts: &[Pert], crlf: bool) {
    let cx0 = Ctx { part, label: label.to_string(), base: None, pert: None, crlf: false, same_tree: false, key_suffix: "" };
    let base_classes = check(acc, f, &cx0, src);
    let base = match make_base(src) {
        Ok(b) => b,
        Err(_) => return,
    };
    if crlf && src.contains('\n') {
        let cx = Ctx { part, label: label.to_string(), base: Some((&base, &base_classes)), pert: None, crlf: true, same_tree: true, key_suffix: ":crlf" };
        check(acc, f, &cx, &to_crlf(src));
    }
    for g in 0..=base.toks.len() {
        for p in perts {
            let text = match apply_pert(&base, g, *p) {
                Some(t) => t,
                None => continue,
            };
            let same_tree = !matches!(p, Pert::Doc | Pert::DocBlock);
            let cx = Ctx { part, label: label.to_string(), base: Some((&base, &base_classes)), pert: Some((g, *p)), crlf: false, same_tree, key_suffix: "" };
            let lf_classes = check(acc, f, &cx, &text);
            if crlf {
                let mut both = base_classes.clone();
                both.extend(lf_classes);
                let cx = Ctx { part, label: label.to_string(), base: Some((&base, &both)), pert: Some((g, *p)), crlf: true, same_tree, key_suffix: ":crlf" };
                check(acc, f, &cx, &to_crlf(&text));
            }
        }
    }
}

// ---------------------------------------------------------------------------------------------
// generated inputs

fn rename_pat(p: &Pat, f: &dyn Fn(&str) -> String) -> Pat {
    match p {
        Pat::Ident(n) => Pat::Ident(f(n)),
        Pat::Ctor(c, args) => Pat::Ctor(f(c), args.iter().map(|a| rename_pat(a, f)).collect()),
        Pat::Lit(l) => Pat::Lit(l.clone()),
        Pat::Tuple(ps) => Pat::Tuple(ps.iter().map(|a| rename_pat(a, f)).collect()),
        Pat::Record(fs, imp) => Pat::Record(
            fs.iter()
                .map(|x| match x {
                    PField::Type(n) => PField::Type(n.clone()),
                    PField::Value(n, v) => PField::Value(f(n), v.as_ref().map(|v| rename_pat(v, f))),
                })
                .collect(),
            *imp,
        ),
        Pat::As(n, q) => Pat::As(f(n), Box::new(rename_pat(q, f))),
        Pat::Error => Pat::Error,
    }
}

fn rename_bind(b: &Bind, f: &dyn Fn(&str) -> String) -> Bind {
    Bind { name: rename_pat(&b.name, f), args: b.args.iter().map(|(i, n)| (*i, f(n))).collect(), typ: b.typ.clone(), expr: rename(&b.expr, f) }
}

/// every value-level name (identifiers, fields, constructors in patterns) through `f`
pub fn rename(e: &Ex, f: &dyn Fn(&str) -> String) -> Ex {
    let r = |x: &Ex| rename(x, f);
    let rb = |x: &Ex| Box::new(rename(x, f));
    match e {
        Ex::Ident(n) => Ex::Ident(f(n)),
        Ex::Lit(l) => Ex::Lit(l.clone()),
        Ex::App(g, ia, xs) => Ex::App(rb(g), ia.iter().map(r).collect(), xs.iter().map(r).collect()),
        Ex::Infix(l, op, rr) => Ex::Infix(rb(l), op.clone(), rb(rr)),
        Ex::Lambda(args, b) => Ex::Lambda(args.iter().map(|a| f(a)).collect(), rb(b)),
        Ex::Let(b, body) => Ex::Let(Box::new(rename_bind(b, f)), rb(body)),
        Ex::LetRec(bs, body) => Ex::LetRec(bs.iter().map(|b| rename_bind(b, f)).collect(), rb(body)),
        Ex::Type(tbs, body) => Ex::Type(tbs.clone(), rb(body)),
        Ex::If(a, b, c) => Ex::If(rb(a), rb(b), rb(c)),
        Ex::Match(s, arms) => Ex::Match(rb(s), arms.iter().map(|(p, x)| (rename_pat(p, f), r(x))).collect()),
        Ex::Record(ts, fs, base) => Ex::Record(ts.clone(), fs.iter().map(|(n, v)| (f(n), v.as_ref().map(r))).collect(), base.as_ref().map(|b| rb(b))),
        Ex::Tuple(xs) => Ex::Tuple(xs.iter().map(r).collect()),
        Ex::Array(xs) => Ex::Array(xs.iter().map(r).collect()),
        Ex::Proj(b, n) => Ex::Proj(rb(b), f(n)),
        Ex::Do(p, t, a, b) => Ex::Do(rename_pat(p, f), t.clone(), rb(a), rb(b)),
        Ex::Seq(a, b) => Ex::Seq(rb(a), rb(b)),
        Ex::Error => Ex::Error,
    }
}

/// pads a name to `w` characters (operators and `_` stay)
pub fn widen(n: &str, w: usize) -> String {
    if n == "_" || n.starts_with(gast::is_operator_char) || n.len() >= w {
        return n.to_string();
    }
    let pad = if n.starts_with(char::is_uppercase) { "X" } else { "x" };
    format!("{}_{}", n, pad.repeat(w - n.len() - 1))
}

fn id(n: &str) -> Ex {
    Ex::Ident(n.to_string())
}
fn bx(e: Ex) -> Box<Ex> {
    Box::new(e)
}
fn plain(name: &str, e: Ex) -> Box<Bind> {
    Box::new(Bind { name: Pat::Ident(name.into()), args: vec![], typ: None, expr: e })
}

/// k names of width w with prefix p
fn names(p: &str, k: usize, w: usize) -> Vec<String> {
    (0..k).map(|i| widen(&format!("{}{}", p, i), w)).collect()
}

pub fn wide_families() -> Vec<(&'static str, fn(usize, usize) -> Option<Ex>)> {
    fn ids(p: &str, k: usize, w: usize) -> Vec<Ex> {
        names(p, k, w).into_iter().map(Ex::Ident).collect()
    }
    fn chain(op: &'static [&'static str]) -> impl Fn(usize, usize) -> Option<Ex> {
        move |k, w| {
            if k < 2 {
                return None;
            }
            // left-nested chain of operators of one precedence level / mixed levels
            let xs = ids("a", k, w);
            let mut it = xs.into_iter();
            let mut e = it.next().unwrap();
            for (i, x) in it.enumerate() {
                e = Ex::Infix(bx(e), op[i % op.len()].to_string(), bx(x));
            }
            Some(e)
        }
    }
    fn int_ty() -> Ty_ {
        Ty_::Name("Int".into())
    }
    type Ty_ = crate::syntax::Ty;
    vec![
        ("application", |k, w| Some(Ex::App(bx(id("f")), vec![], ids("a", k, w)))),
        ("application-of-applications", |k, w| Some(Ex::App(bx(id("f")), vec![], ids("a", k, w).into_iter().map(|a| Ex::App(bx(id("g")), vec![], vec![a, id("z")])).collect()))),
        ("implicit-arguments", |k, w| Some(Ex::App(bx(id("f")), ids("i", k, w), vec![id("x")]))),
        ("operator-chain-plus", |k, w| chain(&["#Int+"])(k, w)),
        ("operator-chain-mixed", |k, w| chain(&["#Int+", "#Int*"])(k, w)),
        ("operator-chain-or", |k, w| {
            if k < 2 {
                return None;
            }
            // right-nested
            let mut xs = ids("a", k, w);
            let mut e = xs.pop().unwrap();
            while let Some(x) = xs.pop() {
                e = Ex::Infix(bx(x), "||".into(), bx(e));
            }
            Some(e)
        }),
        ("record", |k, w| Some(Ex::Record(vec![], names("f", k, w).into_iter().enumerate().map(|(i, n)| (n, Some(Ex::Lit(Lit::Int(i as i64))))).collect(), None))),
        ("record-shorthand", |k, w| Some(Ex::Record(vec![], names("f", k, w).into_iter().map(|n| (n, None)).collect(), None))),
        ("record-with-base", |k, w| Some(Ex::Record(vec![], names("f", k, w).into_iter().map(|n| (n, Some(id("v")))).collect(), Some(bx(id("base")))))),
        ("record-type-fields", |k, w| Some(Ex::Record(names("T", k, w), vec![("x".into(), None)], None))),
        ("tuple", |k, w| if k < 2 { None } else { Some(Ex::Tuple(ids("a", k, w))) }),
        ("array", |k, w| Some(Ex::Array(ids("a", k, w)))),
        ("lambda-arguments", |k, w| Some(Ex::Lambda(names("p", k, w), bx(id("body"))))),
        ("function-binding", |k, w| Some(Ex::Let(Box::new(Bind { name: Pat::Ident("f".into()), args: names("p", k, w).into_iter().map(|n| (false, n)).collect(), typ: None, expr: id("body") }), bx(id("f"))))),
        ("constructor-pattern", |k, w| Some(Ex::Match(bx(id("s")), vec![(Pat::Ctor("C".into(), names("p", k, w).into_iter().map(Pat::Ident).collect()), id("r")), (Pat::Ident("_".into()), id("d"))]))),
        ("record-pattern", |k, w| Some(Ex::Let(Box::new(Bind { name: Pat::Record(names("p", k, w).into_iter().map(|n| PField::Value(n, None)).collect(), false), args: vec![], typ: None, expr: id("r") }), bx(id("b"))))),
        ("record-pattern-renaming", |k, w| Some(Ex::Match(bx(id("s")), vec![(Pat::Record(names("p", k, w).into_iter().map(|n| PField::Value(n.clone(), Some(Pat::Ident(format!("{}'", n))))).collect(), false), id("r"))]))),
        ("tuple-pattern", |k, w| if k < 2 { None } else { Some(Ex::Match(bx(id("s")), vec![(Pat::Tuple(names("p", k, w).into_iter().map(Pat::Ident).collect()), id("r"))])) }),
        ("match-alternatives", |k, w| Some(Ex::Match(bx(id("s")), names("C", k, w).into_iter().map(|c| (Pat::Ctor(c, vec![Pat::Ident("x".into())]), id("x"))).collect()))),
        ("if-chain", |k, w| {
            let cs = ids("c", k, w);
            let mut e = id("otherwise");
            for c in cs.into_iter().rev() {
                e = Ex::If(bx(c), bx(id("t")), bx(e));
            }
            Some(e)
        }),
        ("let-chain", |k, w| {
            let mut e = id("result");
            for n in names("v", k, w).into_iter().rev() {
                e = Ex::Let(plain(&n, id("x")), bx(e));
            }
            Some(e)
        }),
        ("do-chain", |k, w| {
            let mut e = id("result");
            for n in names("v", k, w).into_iter().rev() {
                e = Ex::Do(Pat::Ident(n), None, bx(id("m")), bx(e));
            }
            Some(e)
        }),
        ("statement-sequence", |k, w| {
            let mut e = id("result");
            for n in names("s", k, w).into_iter().rev() {
                e = Ex::Seq(bx(Ex::App(bx(id("f")), vec![], vec![Ex::Ident(n)])), bx(e));
            }
            Some(e)
        }),
        ("projection-chain", |k, w| {
            let mut e = id("r");
            for n in names("f", k, w) {
                e = Ex::Proj(bx(e), n);
            }
            Some(e)
        }),
        ("nested-lambdas", |k, w| {
            let mut e = id("body");
            for n in names("p", k, w).into_iter().rev() {
                e = Ex::Lambda(vec![n], bx(e));
            }
            Some(e)
        }),
        ("nested-parentheses-application", |k, w| {
            let mut e = id("x");
            for n in names("f", k, w).into_iter().rev() {
                e = Ex::App(bx(Ex::Ident(n)), vec![], vec![e]);
            }
            Some(e)
        }),
        ("long-string", |k, w| Some(Ex::App(bx(id("f")), vec![], vec![Ex::Lit(Lit::Str("w".repeat(k * w))), id("x")]))),
        ("function-type", |k, _w| {
            let mut t = int_ty();
            for _ in 0..k {
                t = Ty_::Fun(Box::new(Ty_::App(Box::new(Ty_::Name("Option".into())), vec![int_ty()])), Box::new(t));
            }
            Some(Ex::Let(Box::new(Bind { name: Pat::Ident("f".into()), args: vec![], typ: Some(t), expr: id("g") }), bx(id("f"))))
        }),
        ("annotated-do", |k, _w| {
            let mut t = int_ty();
            for _ in 1..k {
                t = Ty_::Fun(Box::new(int_ty()), Box::new(t));
            }
            Some(Ex::Do(Pat::Ident("d".into()), Some(t), bx(id("m")), bx(id("d"))))
        }),
        ("implicit-function-arguments", |k, w| Some(Ex::Let(Box::new(Bind { name: Pat::Ident("f".into()), args: names("i", k, w).into_iter().map(|n| (true, n)).chain(Some((false, "x".to_string()))).collect(), typ: None, expr: id("x") }), bx(id("f"))))),
        ("record-type", |k, w| Some(Ex::Type(vec![TBind { name: "R".into(), params: vec![], body: Ty_::Record(names("f", k, w).into_iter().map(|n| (n, int_ty())).collect()) }], bx(id("x"))))),
        ("variant-type", |k, w| Some(Ex::Type(vec![TBind { name: "V".into(), params: vec!["a".into()], body: Ty_::Variant(names("C", k, w).into_iter().map(|n| (n, vec![Ty_::Var("a".into()), int_ty()])).collect()) }], bx(id("x"))))),
        ("type-parameters", |k, w| Some(Ex::Type(vec![TBind { name: "P".into(), params: names("p", k, w), body: int_ty() }], bx(id("x"))))),
        ("type-application", |k, w| Some(Ex::Let(Box::new(Bind { name: Pat::Ident("f".into()), args: vec![], typ: Some(Ty_::App(Box::new(Ty_::Name("F".into())), names("t", k, w).into_iter().map(Ty_::Var).collect())), expr: id("g") }), bx(id("f"))))),
        ("rec-bindings", |k, w| Some(Ex::LetRec(names("f", k, w).into_iter().map(|n| Bind { name: Pat::Ident(n), args: vec![(false, "x".into())], typ: None, expr: id("x") }).collect(), bx(id("r"))))),
        ("rec-types", |k, w| if k < 2 { None } else { Some(Ex::Type(names("T", k, w).into_iter().map(|n| TBind { name: n, params: vec![], body: int_ty() }).collect(), bx(id("r")))) }),
    ]
}

pub fn wide_contexts() -> Vec<(&'static str, fn(Ex) -> Ex)> {
    vec![
        ("top", |e| e),
        ("let-value", |e| Ex::Let(plain("v", e), bx(id("v")))),
        ("let-body", |e| Ex::Let(plain("v", Ex::Lit(Lit::Int(1))), bx(e))),
        ("lambda-body", |e| Ex::Lambda(vec!["q".into()], bx(e))),
        ("match-alternative", |e| Ex::Match(bx(id("s")), vec![(Pat::Ctor("A".into(), vec![Pat::Ident("q".into())]), e), (Pat::Ident("_".into()), id("d"))])),
        ("record-field", |e| Ex::Record(vec![], vec![("r".into(), Some(e)), ("s".into(), None)], None)),
        ("argument", |e| Ex::App(bx(id("g")), vec![], vec![e, id("t")])),
        ("operand", |e| Ex::Infix(bx(id("u")), "#Int+".into(), bx(e))),
        ("then-branch", |e| Ex::If(bx(id("c")), bx(e), bx(id("e")))),
        ("array-element", |e| Ex::Array(vec![e, id("e")])),
        ("do-value", |e| Ex::Do(Pat::Ident("d".into()), None, bx(e), bx(id("d")))),
        ("statement", |e| Ex::Seq(bx(e), bx(id("r")))),
    ]
}

fn extra_literals() -> Vec<(Lit, Vec<Option<String>>)> {
    let s = |x: &str| Some(x.to_string());
    vec![
        // line breaks inside a string literal
        (Lit::Str("a\nb".into()), vec![s("\"a\nb\"")]),
        (Lit::Str("a  \nb".into()), vec![s("\"a  \nb\""), s("r\"a  \nb\""), None]),
        (Lit::Str("a\t\nb".into()), vec![s("\"a\t\nb\"")]),
        (Lit::Str(" \n \n".into()), vec![s("\" \n \n\""), s("r#\" \n \n\"#")]),
        (Lit::Str("a\r\nb".into()), vec![s("\"a\r\nb\""), s("r\"a\r\nb\""), None]),
        (Lit::Str("a\n        indented".into()), vec![s("\"a\n        indented\""), s("r\"a\n        indented\"")]),
        (Lit::Str("x".repeat(120)), vec![None]),
        (Lit::Str("trailing ".into()), vec![None, s("r\"trailing \"")]),
        (Lit::Int(1000000), vec![None, s("0xF4240")]),
    ]
}

fn literal_contexts(l: &Lit) -> Vec<(&'static str, Ex)> {
    let hole = Ex::Lit(l.clone());
    let p = Pat::Lit(l.clone());
    let mut v = vec![
        ("top", hole.clone()),
        ("argument", Ex::App(bx(id("f")), vec![], vec![hole.clone(), id("x")])),
        ("operand", Ex::Infix(bx(hole.clone()), "#Int+".into(), bx(id("x")))),
        ("let-value", Ex::Let(plain("x", hole.clone()), bx(id("x")))),
        ("let-body", Ex::Let(plain("x", id("y")), bx(hole.clone()))),
        ("array-element", Ex::Array(vec![hole.clone(), id("x")])),
        ("tuple-element", Ex::Tuple(vec![id("x"), hole.clone()])),
        ("record-field", Ex::Record(vec![], vec![("a".into(), Some(hole.clone())), ("b".into(), None)], None)),
        ("lambda-body", Ex::Lambda(vec!["x".into()], bx(hole.clone()))),
        ("then-branch", Ex::If(bx(id("c")), bx(hole.clone()), bx(id("x")))),
        ("scrutinee", Ex::Match(bx(hole.clone()), vec![(Pat::Ident("_".into()), id("x"))])),
        ("statement", Ex::Seq(bx(hole.clone()), bx(id("x")))),
    ];
    if !matches!(l, Lit::Float(_)) || true {
        v.push(("pattern", Ex::Match(bx(id("s")), vec![(p.clone(), id("x")), (Pat::Ident("_".into()), id("y"))])));
        v.push(("constructor-pattern-argument", Ex::Match(bx(id("s")), vec![(Pat::Ctor("A".into(), vec![p.clone(), Pat::Ident("z".into())]), id("x"))])));
        v.push(("record-pattern-field", Ex::Match(bx(id("s")), vec![(Pat::Record(vec![PField::Value("a".into(), Some(p.clone()))], false), id("x"))])));
    }
    v
}

// ---------------------------------------------------------------------------------------------
// repository files

pub struct CorpusFile {
    pub name: String,
    pub text: String,
}

fn walk(dir: &std::path::Path, out: &mut Vec<std::path::PathBuf>) {
    if let Ok(rd) = std::fs::read_dir(dir) {
        let mut entries: Vec<_> = rd.filter_map(|e| e.ok()).map(|e| e.path()).collect();
        entries.sort();
        for p in entries {
            if p.is_dir() {
                walk(&p, out);
            } else if p.extension().and_then(|e| e.to_str()) == Some("glu") {
                out.push(p);
            }
        }
    }
}

/// every `.glu` file under std, examples, tests/pass, tests/fail, format/tests, repl + the gluon
/// programs quoted as raw strings in format/tests/pretty_print.rs
pub fn corpus() -> Vec<CorpusFile> {
    let mut paths = Vec::new();
    for d in ["std", "examples", "tests/pass", "tests/fail", "format/tests", "repl/src"] {
        walk(&std::path::Path::new("/repo").join(d), &mut paths);
    }
    let mut out = Vec::new();
    for p in paths {
        if let Ok(text) = std::fs::read_to_string(&p) {
            out.push(CorpusFile { name: p.strip_prefix("/repo").unwrap().display().to_string(), text });
        }
    }
    if let Ok(text) = std::fs::read_to_string("/repo/format/tests/pretty_print.rs") {
        let mut k = 0;
        let mut rest = &text[..];
        let mut offset = 0;
        while let Some(p) = rest.find("r#") {
            let start = p;
            let hashes = rest[start + 1..].bytes().take_while(|b| *b == b'#').count();
            let open = start + 1 + hashes;
            if rest[open..].starts_with('"') {
                let close = format!("\"{}", "#".repeat(hashes));
                if let Some(q) = rest[open + 1..].find(&close) {
                    let body = &rest[open + 1..open + 1 + q];
                    out.push(CorpusFile { name: format!("format/tests/pretty_print.rs#{}@{}", k, offset + start), text: body.to_string() });
                    k += 1;
                    let adv = open + 1 + q + close.len();
                    offset += adv;
                    rest = &rest[adv..];
                    continue;
                }
            }
            offset += open;
            rest = &rest[open..];
        }
    }
    out
}

// ---------------------------------------------------------------------------------------------
// the engine

pub fn probe(text: &str) {
    let mut f = Fmt::new(std::env::var_os("VERIF_C10_PRELUDE").is_some());
    for chunk in text.split("\n====\n") {
        let src = chunk.replace("\\r", "\r");
        println!("--- input: {:?}", src);
        match parse_raw(&src) {
            Raw::Ok(t) => {
                let mut s = String::new();
                t.show(&mut s);
                println!("tree: {}", s);
            }
            other => println!("parse: {:?}", other),
        }
        let t = std::time::Instant::now();
        let o = observe(&mut f, &src, None);
        println!("({:?})", t.elapsed());
        if let Some(s) = &o.skipped {
            println!("skipped: {}", s);
        }
        if let Some(s) = &o.formatted {
            println!("formatted: {:?}\n{}", s, s);
        }
        for x in &o.fails {
            println!("FAIL {}:{} -- {}", x.class, x.locus, x.detail);
        }
    }
}

fn gap_styles(tier: &str) -> Vec<Style> {
    let all = crate::engines::c08::base_styles("thorough");
    let want: &[&str] = if tier == "quick" { &["oneline", "block2", "expanded4"] } else { &["oneline", "block2", "expanded4", "in-own-line2", "in-with-body4", "expanded2-args"] };
    all.into_iter().filter(|s| want.contains(&s.name)).collect()
}

pub fn run(tier: &str) -> Report {
    let mut report = Report::new("C10", tier, "exploration");
    if let Ok(p) = std::env::var("VERIF_C10_PROBE") {
        let text = std::fs::read_to_string(&p).unwrap();
        probe(text.trim_end_matches('\n'));
        std::process::exit(0);
    }
    start_watchdog(tier);
    let quick = tier == "quick";
    let env_usize = |k: &str, d: usize| std::env::var(k).ok().and_then(|s| s.parse().ok()).unwrap_or(d);
    let parts: Vec<String> = std::env::var("VERIF_C10_PARTS").map(|s| s.split(',').map(|x| x.to_string()).collect()).unwrap_or_else(|_| vec!["lit".into(), "wide".into(), "ast".into(), "gaps".into(), "files".into()]);
    let on = |p: &str| parts.iter().any(|x| x == p);
    let deadline = par::deadline_for(tier, 34, 1380);
    let mut capped = false;
    let mut total = Acc::default();
    let mut formats = 0u64;
    let styles = crate::engines::c08::base_styles(tier);

    // (3) literals
    if on("lit") {
        let mut cases: Vec<(String, String)> = Vec::new();
        let lit_styles: Vec<Style> = styles.iter().filter(|s| ["oneline", "block2", "expanded4"].contains(&s.name)).cloned().collect();
        let mut family = crate::engines::c08::literal_family();
        family.extend(extra_literals());
        let mut values = 0u64;
        for (l, spellings) in &family {
            values += 1;
            for sp in spellings {
                for (cname, e) in literal_contexts(l) {
                    for st in &lit_styles {
                        let multi = sp.as_ref().map_or(false, |s| s.contains('\n'));
                        if multi && st.name != "oneline" {
                            continue;
                        }
                        let altf = |x: &Lit| if x == l { sp.clone() } else { None };
                        let printed = print_with(&e, st, &altf);
                        cases.push((format!("{} literal {:?} in {}", st.name, sp.clone().unwrap_or_else(|| lit_text(l)), cname), printed.src));
                    }
                }
            }
        }
        cases.sort();
        cases.dedup_by(|a, b| a.1 == b.1);
        let cref = &cases;
        let sweep = par::sweep(cases.len(), 8, Some(deadline), |_| Fmt::new(false), |f, acc: &mut (Acc, u64), i| {
            let (label, src) = &cref[i];
            let cx = Ctx { part: "literals", label: label.clone(), base: None, pert: None, crlf: false, same_tree: false, key_suffix: "" };
            check(&mut acc.0, f, &cx, src);
            acc.1 = f.formats;
        });
        capped |= sweep.capped;
        for (a, n) in sweep.results {
            merge(&mut total, a);
            formats += n;
        }
        report.set("literals.values", values);
        report.set("literals.inputs", cases.len() as u64);
    }

    // (2) wide families
    if on("wide") {
        let fams = wide_families();
        let ctxs = wide_contexts();
        let kmax = env_usize("VERIF_C10_WIDE", if quick { 9 } else { 16 });
        let widths: Vec<usize> = if quick { vec![1, 12, 30] } else { vec![1, 6, 12, 20, 30, 45] };
        let wide_styles: Vec<Style> = crate::engines::c08::base_styles("thorough").into_iter().filter(|s| if quick { ["block2", "expanded4"].contains(&s.name) } else { ["block2", "expanded4", "block4", "in-own-line2", "block2-crlf", "expanded2-args"].contains(&s.name) }).collect();
        let depth2 = !quick;
        // (family, k, width, context, outer context or none)
        let mut idx: Vec<(usize, usize, usize, usize, usize)> = Vec::new();
        for fi in 0..fams.len() {
            for k in 1..=kmax {
                for w in &widths {
                    for c in 0..ctxs.len() {
                        idx.push((fi, k, *w, c, 0));
                        if depth2 {
                            for c2 in 1..ctxs.len() {
                                idx.push((fi, k, *w, c, c2));
                            }
                        }
                    }
                }
            }
        }
        let (fr, cr, sr, ir) = (&fams, &ctxs, &wide_styles, &idx);
        let sweep = par::sweep(idx.len(), 4, Some(deadline), |_| Fmt::new(false), |f, acc: &mut (Acc, u64), i| {
            let (fi, k, w, c, c2) = ir[i];
            let inner = match (fr[fi].1)(k, w) {
                Some(e) => e,
                None => return,
            };
            let mut e = (cr[c].1)(inner);
            if c2 > 0 {
                e = (cr[c2].1)(e);
            }
            let mut seen = std::collections::BTreeSet::new();
            for st in sr.iter() {
                let printed = print(&e, st);
                if !seen.insert(printed.src.clone()) {
                    continue;
                }
                let label = format!("{} {} k={} width={} in {}{}", st.name, fr[fi].0, k, w, cr[c].0, if c2 > 0 { format!(" in {}", cr[c2].0) } else { String::new() });
                let cx = Ctx { part: "wide", label, base: None, pert: None, crlf: st.crlf, same_tree: false, key_suffix: "" };
                check(&mut acc.0, f, &cx, &printed.src);
            }
            acc.1 = f.formats;
        });
        capped |= sweep.capped;
        for (a, n) in sweep.results {
            merge(&mut total, a);
            formats += n;
        }
        report.set("wide.families", fams.len() as u64);
        report.set("wide.contexts", ctxs.len() as u64);
        report.set("wide.max_items", kmax as u64);
        report.set("wide.item_widths", json!(widths));
        report.set("wide.context_depth", if depth2 { 2 } else { 1 });
        report.set("wide.asts_in_space", idx.len() as u64);
        report.set("wide.asts_checked", sweep.done as u64);
    }

    // (4) repository files
    if on("files") {
        let mut files = corpus();
        if let Ok(only) = std::env::var("VERIF_C10_FILES") {
            files.retain(|f| f.name.contains(&only));
        }
        report.set("files.found", files.len() as u64);
        // unperturbed, in parallel; then all perturbations over one flat index space
        let fref = &files;
        let sweep = par::sweep(files.len(), 1, Some(deadline), |_| Fmt::new(true), |f, acc: &mut (Acc, u64, Vec<(usize, Result<Base, String>, std::collections::BTreeSet<String>)>), i| {
            let file = &fref[i];
            let cx = Ctx { part: "files", label: file.name.clone(), base: None, pert: None, crlf: false, same_tree: false, key_suffix: "" };
            let classes = check(&mut acc.0, f, &cx, &file.text);
            acc.2.push((i, make_base(&file.text), classes));
            acc.1 = f.formats;
        });
        capped |= sweep.capped;
        let mut bases: Vec<Option<(Base, std::collections::BTreeSet<String>)>> = (0..files.len()).map(|_| None).collect();
        let mut unusable: BTreeMap<String, u64> = BTreeMap::new();
        for (a, n, bs) in sweep.results {
            merge(&mut total, a);
            formats += n;
            for (i, b, classes) in bs {
                match b {
                    Ok(b) => bases[i] = Some((b, classes)),
                    Err(e) => *unusable.entry(e).or_insert(0) += 1,
                }
            }
        }
        report.set("files.not_usable", json!(unusable));
        let max_bytes = env_usize("VERIF_C10_FILE_BYTES", if quick { 1200 } else { usize::MAX });
        let perts: Vec<Pert> = if quick { vec![Pert::AddSpace, Pert::RemoveSpace, Pert::Join, Pert::SplitKeep] } else { SPACE_PERTS.to_vec() };
        let mut flat: Vec<(usize, usize)> = Vec::new();
        let mut perturbed_files = 0u64;
        // large files last so that a wall-clock cap cuts whole files
        let mut order: Vec<usize> = (0..files.len()).filter(|i| bases[*i].is_some()).collect();
        order.sort_by_key(|i| (files[*i].text.len(), files[*i].name.clone()));
        for i in order {
            if files[i].text.len() > max_bytes {
                continue;
            }
            perturbed_files += 1;
            let n = bases[i].as_ref().unwrap().0.toks.len();
            for g in 1..n {
                flat.push((i, g));
            }
        }
        let (bref, pref, flat_ref) = (&bases, &perts, &flat);
        let sweep = par::sweep(flat.len(), 16, Some(deadline), |_| Fmt::new(true), |f, acc: &mut (Acc, u64), j| {
            let (i, g) = flat_ref[j];
            let (base, classes) = bref[i].as_ref().unwrap();
            for p in pref.iter() {
                if let Some(text) = apply_pert(base, g, *p) {
                    let cx = Ctx { part: "file-perturbations", label: format!("{}", fref[i].name), base: Some((base, classes)), pert: Some((g, *p)), crlf: false, same_tree: true, key_suffix: "" };
                    check(&mut acc.0, f, &cx, &text);
                }
            }
            acc.1 = f.formats;
        });
        capped |= sweep.capped;
        for (a, n) in sweep.results {
            merge(&mut total, a);
            formats += n;
        }
        report.set("files.perturbed", perturbed_files);
        report.set("files.perturbed_max_bytes", if max_bytes == usize::MAX { json!("unbounded") } else { json!(max_bytes) });
        report.set("files.gaps_in_space", flat.len() as u64);
        report.set("files.gaps_checked", sweep.done as u64);
        report.set("files.perturbations", json!(perts.iter().map(|p| pert_name(*p)).collect::<Vec<_>>()));
    }

    // (1) every AST up to the size bound x styles x {short, long names}; comments in every gap
    if on("ast") || on("gaps") {
        // sizes up to `size`: every style; up to `size_few`: two styles
        let size = env_usize("VERIF_C10_SIZE", if quick { 4 } else { 5 });
        let size_few = env_usize("VERIF_C10_SIZE_FEW", if quick { 5 } else { 6 });
        // comments in every gap: sizes up to `gap_size` in every gap style (+ CRLF), up to `gap_size_one` in one style
        let gap_size = env_usize("VERIF_C10_GAP_SIZE", if quick { 3 } else { 4 });
        let gap_size_one = env_usize("VERIF_C10_GAP_SIZE_ONE", if quick { 4 } else { 5 });
        let gstyles = gap_styles(tier);
        let few: Vec<Style> = styles.iter().filter(|s| ["block2", "expanded4"].contains(&s.name)).cloned().collect();
        let gone: Vec<Style> = gstyles.iter().filter(|s| s.name == "block2").cloned().collect();
        let mut g = ExGen::new(GenCfg::quick());
        let mut completed = 0;
        for n in 1..=size.max(size_few).max(gap_size).max(gap_size_one) {
            let t0 = std::time::Instant::now();
            let xs = g.exprs(n);
            let xs_ref = &xs;
            let ast_styles: &Vec<Style> = if n <= size { &styles } else { &few };
            let gap_styles_n: &Vec<Style> = if n <= gap_size { &gstyles } else { &gone };
            let do_ast = on("ast") && n <= size.max(size_few);
            let do_gaps = on("gaps") && n <= gap_size.max(gap_size_one);
            let with_crlf = n <= gap_size;
            let sweep = par::sweep(xs.len(), 8, Some(deadline), |_| Fmt::new(false), |f, acc: &mut (Acc, u64), i| {
                let ast = named(&xs_ref[i]);
                let mut seen = std::collections::BTreeSet::new();
                if do_ast {
                    let long = rename(&ast, &|n| widen(n, 30));
                    for (variant, e) in [("short", &ast), ("long-names", &long)] {
                        for st in ast_styles.iter() {
                            let printed = print(e, st);
                            if !seen.insert(printed.src.clone()) {
                                continue;
                            }
                            let cx = Ctx { part: "asts", label: format!("{} {}", st.name, variant), base: None, pert: None, crlf: st.crlf, same_tree: false, key_suffix: "" };
                            check(&mut acc.0, f, &cx, &printed.src);
                        }
                    }
                }
                if do_gaps {
                    let mut seen = std::collections::BTreeSet::new();
                    for st in gap_styles_n.iter() {
                        let printed = print(&ast, st);
                        if !seen.insert(printed.src.clone()) {
                            continue;
                        }
                        let crlf = with_crlf && st.name == "block2";
                        check_with_gaps(&mut acc.0, f, "gaps", st.name, &printed.src, COMMENT_PERTS, crlf);
                    }
                }
                acc.1 = f.formats;
            });
            let was_capped = sweep.capped;
            report.set(&format!("asts.size{}.in_space", n), xs.len() as u64);
            report.set(&format!("asts.size{}.checked", n), sweep.done as u64);
            report.set(&format!("asts.size{}.styles", n), if do_ast { json!(ast_styles.iter().map(|s| s.name).collect::<Vec<_>>()) } else { json!([]) });
            report.set(&format!("asts.size{}.comment_in_every_gap_styles", n), if do_gaps { json!(gap_styles_n.iter().map(|s| s.name).collect::<Vec<_>>()) } else { json!([]) });
            report.set(&format!("asts.size{}.wall_s", n), (t0.elapsed().as_secs_f64() * 10.0).round() / 10.0);
            for (a, k) in sweep.results {
                merge(&mut total, a);
                formats += k;
            }
            if was_capped {
                capped = true;
                break;
            }
            completed = n;
        }
        report.set("asts.size_bound_completed", completed as u64);
    }

    report.set("inputs_checked_by_part", json!(total.by_part));
    report.set("inputs_skipped_by_reason", json!(total.skipped));
    report.set("format_expr_calls", formats);
    report.set("inputs_formatted", total.formatted);
    report.set("inputs_whose_text_changed", total.changed);
    report.set("inputs_with_comments", total.with_comments);
    report.set("slowest_case_ms", (total.slowest_ms * 10.0).round() / 10.0);
    report.set("slowest_case", total.slowest.clone());
    for s in total.samples.iter().take(6) {
        report.sample(s.clone());
    }
    if std::env::var_os("VERIF_C10_DUMP").is_some() {
        for (key, f) in &total.found {
            eprintln!("FOUND {} x{} {:?}\n{}\n", key, f.count, f.kinds, f.what);
        }
    }
    let mut classes = BTreeMap::new();
    for (key, f) in &total.found {
        classes.insert(key.clone(), f.count);
        let again = replay(&f.replay);
        if again.violations.is_empty() {
            report.machinery(format!("case {} did not reproduce on replay: {}", key, f.what));
            continue;
        }
        report.violation(key.clone(), format!("{} case(s); smallest: {}", f.count, f.what), f.replay.clone());
    }
    report.set("failing_cases_by_key", json!(classes));
    report.set("failing_cases_beyond_key_table", total.dropped);
    report.set("evaluations", total.cases);
    report.set("distinct_nontrivial", total.nontrivial);
    report.set("exhaustive", !capped);
    report.set("wall_cap_hit", capped);
    report.set(
        "rule",
        "every input of five finite families is formatted with ThreadExt::format_expr (Formatter::default(), width 100) and checked: \
         (asts) every expression AST with exactly n nodes (n = 1..size bound; syntax::ExGen: identifiers, literals, application incl. \
         implicit arguments, infix, lambda, let (pattern / function / annotated), rec groups, type bindings (alias, variant, record, rec \
         group), if, match, records (shorthand, type fields, base), tuples, arrays, projection, do, seq/blocks) x concrete styles \
         (one line with explicit `in`; std-like layout with indent 1/2/4, compact or expanded, implicit in / `in` on its own line / \
         `in` + body, doc comment and attribute lines, else-if chains, arguments on their own lines, CRLF) x {1-character, 30-character \
         names}; (gaps) every such AST up to the gap size bound printed in the gap styles, and for every gap between two adjacent tokens \
         (and before the first / after the last token) one insertion at a time of: a block comment, a line comment (rest of the line \
         continued on the next line, columns kept), a line comment on its own line, a blank line, a `///` and a `/** */` \
         documentation comment on its own line, in LF and (one style) CRLF; (wide) each of 36 list-like constructs with k = 1..K \
         items of each width in each one-hole context (depth 1; 2 in the thorough tier); (literals) every value x spelling of C08's \
         literal family + strings with line breaks / trailing blanks / CRLF inside, in 15 contexts; (files) every .glu file under std, \
         examples, tests/pass, tests/fail, repl and every gluon program quoted in format/tests/pretty_print.rs, unperturbed (implicit \
         prelude on, as `gluon fmt`), and under every single whitespace perturbation of every token gap (one space added / removed, \
         line break(s) replaced by a space, a line break inserted keeping the column / at indent + 4). Inputs that gluon's parser \
         rejects, that the reference lexer does not model, or (perturbations) whose tree differs from the unperturbed input's are \
         skipped and counted. non-trivial = the formatted text differs from the input (beyond the final line break) or the input \
         contains at least one comment",
    );
    report.assume("`parses` = gluon_parser::parse_partial_expr succeeds; when format_expr then refuses because an operator has no / a conflicting fixity (an error of the later reparse stage, reported as a parse error) the input is counted as refused, not as a violation");
    report.assume("same AST = gluon's own tree as produced by parse_partial_expr (before operators are regrouped by fixity: the regrouping is a function of this tree and of the #[infix] attributes in it) with every position erased; parentheses are nodes of it (1-tuples), `seq a in b` and the block `a` / `b` are the same tree by construction of the parser");
    report.assume("same comments = the sequence of comment tokens found by a reference lexer that mirrors parser/src/token.rs; texts compared after CRLF -> LF and removal of trailing white space of every line; consecutive documentation-comment tokens are one comment (the grammar joins them) compared by the content gluon keeps (`///` + one optional space stripped; block style: every line trimmed, since the formatter re-indents block documentation comments by design)");
    report.assume("literals byte-for-byte = the texts of the int/float/byte/char/string/raw-string tokens, in order");
    report.assume("the width is fixed to 100 columns by Formatter::pretty_expr; `varied widths` is realised by varying the width of the input (name lengths, item counts)");
    report.assume("failures of an unperturbed input are not reported again for its perturbations; a violation key names the failure class and the token gap (classes of the two tokens, innermost tree node) or tree node, never the input");
    report.assume("generated programs are formatted by a VM with the implicit prelude off (they use only built-in operators); repository files by a VM with the implicit prelude on and import path /repo (import! is expanded by the formatter)");
    report
}

pub fn replay(v: &Value) -> Report {
    let mut report = Report::new("C10", "quick", "exploration");
    let src = match v["source"].as_str() {
        Some(s) => s,
        None => {
            report.machinery("replay without a source");
            return report;
        }
    };
    let class = v["class"].as_str().unwrap_or("");
    let key = v["key"].as_str().unwrap_or("");
    if class == "format-hang" {
        let payload = json!({"source": src, "prelude": v["prelude"].as_bool().unwrap_or(false)}).to_string();
        let iso = crate::isolate::run_isolated("c10", &[payload], 1, std::time::Duration::from_secs(HANG_S), None);
        match iso.outcomes.get(0).cloned().flatten() {
            Some(crate::isolate::CaseOutcome::Done(_)) => {}
            Some(other) => report.violation(key.to_string(), format!("format_expr in a child process: {:?} -- input: {:?}", other, src), v.clone()),
            None => report.machinery("the child process was not run"),
        }
        return report;
    }
    let mut f = Fmt::new(v["prelude"].as_bool().unwrap_or(false));
    let mut base_classes = std::collections::BTreeSet::new();
    let mut expect = None;
    if let Some(b) = v["base"].as_str() {
        let o = observe(&mut f, b, None);
        for x in &o.fails {
            base_classes.insert(x.class.clone());
        }
        if v["same_tree"].as_bool().unwrap_or(false) {
            if let Ok(b) = make_base(b) {
                expect = Some(b.tree);
            }
        }
    }
    f.fresh();
    let o = observe(&mut f, src, expect.as_ref());
    if std::env::var_os("VERIF_C10_VERBOSE").is_some() {
        eprintln!("input:\n{}\nformatted:\n{}\nskipped: {:?}", src, o.formatted.clone().unwrap_or_default(), o.skipped);
        for x in &o.fails {
            eprintln!("FAIL {}:{} -- {}", x.class, x.locus, x.detail);
        }
    }
    for x in &o.fails {
        if x.class == class && !base_classes.contains(&x.class) && (key.is_empty() || key.starts_with(&format!("c10:{}:{}", x.class, x.locus))) {
            report.violation(key.to_string(), format!("{}: {} -- input: {:?}", x.class, x.detail, src), v.clone());
        }
    }
    report
}
