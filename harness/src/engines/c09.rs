//! C09 — the front end is total: any text yields a result or renderable errors.
//!
//! Subject: `gluon::ThreadExt::typecheck_str(file, text, None)` (lexer, layout, parser, macro
//! expansion, renaming, typechecking, metadata) and the bare `gluon_parser::parse_partial_expr`.
//! Oracle on every input text:
//!   1. the call returns within the per-case wall cap and the process survives (no native stack
//!      overflow / abort) — decided by the parent process watching a child worker process;
//!   2. no Rust panic (caught in the worker, keyed by message and source file);
//!   3. on `Err`: every `Spanned` error resolves (through the error's own `CodeMap`, exactly like
//!      `InFile::emit` does) to a file, `0 <= start <= end <= len` of that file, both offsets on
//!      char boundaries; a span that resolves to the file under test must see exactly the text
//!      that was passed in; the same for every label of the rendered diagnostic;
//!   4. `Error::emit_string()` is `Ok`.
//! Input space (bounded, enumerated completely, see `Space`): token sequences x indentation
//! patterns, character sequences, every first-order mutant of a corpus of real programs, nesting
//! ramps up to depth 256.
//!
//! Process layout: `gv C09 <tier>` (parent) spawns `gv c09-worker <tier>` children. A child gets
//! jobs (`section lo hi`) on stdin, prints `B <idx>` before each case, `V <json>` per violation,
//! `R <json>` at the end of the job. The parent attributes a dead or silent child to the case
//! announced last, records it, restarts the child behind that case.

use crate::lang::templates;
use crate::lang::term::{program, Dialect};
use crate::par;
use crate::report::Report;
use crate::vmkit::{self, Settings};
use gluon::base::error::{AsDiagnostic, InFile};
use gluon::base::pos::BytePos;
use gluon::base::source::CodeMap;
use gluon::{RootedThread, ThreadExt};
use serde_json::{json, Value};
use std::collections::{BTreeMap, HashMap, VecDeque};
use std::io::{BufRead, BufReader, Write};
use std::panic::{catch_unwind, AssertUnwindSafe};
use std::process::{Child, ChildStdin, Command, Stdio};
use std::sync::mpsc::{channel, Receiver, RecvTimeoutError};
use std::sync::Mutex;
use std::time::{Duration, Instant};

/// module / file name under which every text is checked
const FILE: &str = "c09case";
/// per-case wall cap (oracle 1)
const CASE_CAP: Duration = Duration::from_millis(5000);
/// cap used when a suspected hang is re-run for confirmation
const CONFIRM_CAP: Duration = Duration::from_millis(20000);
/// native stack of the thread running the cases ("moderate nesting" must fit in this)
const CASE_STACK: usize = 8 << 20;
/// the VM of a worker is recycled after this many cases (its code map only ever grows)
const VM_RECYCLE: usize = 400;
const MAX_DEPTH: usize = 256;
/// a stack overflow is re-run with this much native stack to tell unbounded recursion from a
/// recursion that is merely deeper than the 8 MiB allow
const BIG_STACK_MB: usize = 128;

// ---------------------------------------------------------------------------------------------
// the input space

const ALPHABETS: &[[&str; 16]] = &[
    // expressions
    ["let", "rec", "=", "in", "if", "then", "else", "(", ")", "\\", "->", "x", "1", "match", "with", "|"],
    // types, records, arrays, patterns
    ["let", "type", "=", "in", "{", "}", "[", "]", ",", ".", ":", "x", "A", "\"s\"", "|", "->"],
    // do / attributes / implicits / operators / forall
    ["let", "=", "in", "do", "@", "?", "#[", "]", "(", ")", "x", "A", "forall", ".", ":", "+"],
    // macro applications (import! / lift_io! / convert_effect!) with explicit, implicit, string and path arguments
    ["import!", "lift_io!", "convert_effect!", "?", "x", "std", ".", "int", "\"f.glu\"", "(", ")", "1", "let", "=", "in", "lift"],
];

const CHARS: &[char] = &[
    '"', '\'', '\\', '/', '*', '#', '[', 'r', '0', 'x', '.', 'e', '-', '_', ' ', '\n', '\t', '\r',
    'é', '€', '𝕏', 'b', '@', '(', '{', '`', '|', '!',
];

const RAMP_SHAPES: &[&str] = &[
    "parens", "app", "binop_nested", "binop_flat_prim", "binop_flat_undefined_op", "lambda",
    "let_seq", "let_nested_rhs", "if_else", "if_cond", "record", "array", "tuple", "match",
    "type_parens", "type_arrows", "type_record", "projection", "block_comment", "app_flat",
    "open_parens", "open_records", "open_arrays", "open_lets", "open_lambdas", "open_ifs",
    "open_matches", "close_parens", "record_pattern", "do_seq",
];

fn ramp_text(shape: &str, d: usize) -> String {
    let rep = |s: &str, n: usize| s.repeat(n);
    match shape {
        "parens" => format!("{}1{}", rep("(", d), rep(")", d)),
        "app" => format!("let f x = x\n{}1{}", rep("f (", d), rep(")", d)),
        "binop_nested" => format!("{}1{}", rep("1 #Int+ (", d), rep(")", d)),
        "binop_flat_prim" => format!("1{}", rep(" #Int+ 1", d)),
        "binop_flat_undefined_op" => format!("1{}", rep(" + 1", d)),
        "lambda" => format!("{}x", rep("\\x -> ", d)),
        "let_seq" => format!("{}x", rep("let x = 1\n", d)),
        "let_nested_rhs" => format!("{}1{}", rep("let x = ", d), rep(" in x", d)),
        "if_else" => format!("{}0", rep("if 1 #Int< 2 then 1 else ", d)),
        "if_cond" => format!("{}1 #Int< 2{}", rep("if ", d), rep(" then 1 #Int< 2 else 1 #Int< 2", d)),
        "record" => format!("{}1{}", rep("{ a = ", d), rep(" }", d)),
        "array" => format!("{}{}", rep("[", d), rep("]", d)),
        "tuple" => format!("{}1{}", rep("(1, ", d), rep(")", d)),
        "match" => {
            let mut s = String::new();
            for i in 0..d {
                s.push_str(&" ".repeat(i));
                s.push_str("match 1 with\n");
                s.push_str(&" ".repeat(i));
                s.push_str("| x ->\n");
            }
            s.push_str(&" ".repeat(d));
            s.push('x');
            s
        }
        "type_parens" => format!("let x : {}Int{} = 1\nx", rep("(", d), rep(")", d)),
        "type_arrows" => format!("type T = {}Int\n1", rep("Int -> ", d)),
        "type_record" => format!("type T = {}Int{}\n1", rep("{ a : ", d), rep(" }", d)),
        "projection" => format!("let r = {{ a = 1 }}\nr{}", rep(".a", d)),
        "block_comment" => format!("{}{}1", rep("/* ", d), rep(" */", d)),
        "app_flat" => format!("let f x = f\nf{}", rep(" 1", d)),
        "open_parens" => rep("(", d),
        "open_records" => rep("{ a = ", d),
        "open_arrays" => rep("[", d),
        "open_lets" => rep("let x = ", d),
        "open_lambdas" => rep("\\x -> ", d),
        "open_ifs" => rep("if ", d),
        "open_matches" => rep("match ", d),
        "close_parens" => format!("1{}", rep(")", d)),
        "record_pattern" => format!("let {}x{} = 1\nx", rep("{ a = ", d), rep(" }", d)),
        "do_seq" => format!("{}x", rep("do x = 1\n", d)),
        _ => unreachable!(),
    }
}

#[derive(Clone, Copy, Debug)]
struct Tok {
    lo: usize,
    hi: usize,
}

fn is_op_char(c: u8) -> bool {
    b"!#$%&*+-./<=>?@\\^|~:".contains(&c)
}

/// A deliberately simple tokenizer of the harness' own (only used to choose mutation points; any
/// partition of the text into pieces gives a valid, complete mutant space).
fn tokenize(s: &str) -> Vec<Tok> {
    let b = s.as_bytes();
    let n = b.len();
    let mut out = Vec::new();
    let mut i = 0;
    while i < n {
        let c = b[i];
        if c.is_ascii_whitespace() {
            i += 1;
            continue;
        }
        let lo = i;
        if c == b'/' && b.get(i + 1) == Some(&b'/') {
            while i < n && b[i] != b'\n' {
                i += 1;
            }
        } else if c == b'/' && b.get(i + 1) == Some(&b'*') {
            i = match s[i + 2..].find("*/") {
                Some(p) => i + 2 + p + 2,
                None => n,
            };
        } else if c == b'"' {
            i += 1;
            while i < n {
                if b[i] == b'\\' {
                    i += 2;
                    continue;
                }
                if b[i] == b'"' {
                    i += 1;
                    break;
                }
                i += 1;
            }
        } else if c == b'\'' {
            // char literal: ' (\)? . '
            let mut j = i + 1;
            if j < n && b[j] == b'\\' {
                j += 1;
            }
            if j < n {
                j += s[j..].chars().next().map(|c| c.len_utf8()).unwrap_or(1);
            }
            if j < n && b[j] == b'\'' {
                i = j + 1;
            } else {
                i += 1;
            }
        } else if c == b'r' && (b.get(i + 1) == Some(&b'"') || b.get(i + 1) == Some(&b'#')) {
            let mut j = i + 1;
            let mut hashes = 0;
            while j < n && b[j] == b'#' {
                hashes += 1;
                j += 1;
            }
            if j < n && b[j] == b'"' {
                let close = format!("\"{}", "#".repeat(hashes));
                i = match s[j + 1..].find(&close) {
                    Some(p) => j + 1 + p + close.len(),
                    None => n,
                };
            } else {
                i += 1;
            }
        } else if c.is_ascii_alphabetic() || c == b'_' || c >= 0x80 {
            while i < n && (b[i].is_ascii_alphanumeric() || b[i] == b'_' || b[i] == b'\'' || b[i] >= 0x80) {
                i += 1;
            }
        } else if c.is_ascii_digit() {
            while i < n && (b[i].is_ascii_alphanumeric() || b[i] == b'_') {
                i += 1;
            }
            if i + 1 < n && b[i] == b'.' && b[i + 1].is_ascii_digit() {
                i += 1;
                while i < n && (b[i].is_ascii_alphanumeric() || b[i] == b'_') {
                    i += 1;
                }
            }
        } else if is_op_char(c) {
            while i < n && is_op_char(b[i]) {
                if i > lo && b[i] == b'/' && (b.get(i + 1) == Some(&b'/') || b.get(i + 1) == Some(&b'*')) {
                    break;
                }
                i += 1;
            }
        } else {
            i += 1;
        }
        i = i.min(n);
        while !s.is_char_boundary(i) {
            i += 1;
        }
        out.push(Tok { lo, hi: i });
    }
    out
}

struct CorpusFile {
    name: String,
    text: String,
    toks: Vec<Tok>,
    /// byte offsets at which the file is truncated (all char boundaries for the thorough tier;
    /// those inside string/char literals, comments and tokens with multi-byte chars for quick)
    trunc: Vec<usize>,
    /// (line start, number of leading spaces) of non-blank lines
    lines: Vec<(usize, usize)>,
    /// cumulative mutant counts: [1 original, del, dup, swap, trunc_tok, trunc_byte, reindent]
    cum: [usize; 8],
}

impl CorpusFile {
    fn new(name: String, text: String, all_bytes: bool) -> CorpusFile {
        let toks = tokenize(&text);
        let mut trunc = Vec::new();
        if all_bytes {
            for (i, _) in text.char_indices() {
                trunc.push(i);
            }
        } else {
            for t in &toks {
                let piece = &text[t.lo..t.hi];
                let special = !piece.is_ascii()
                    || piece.starts_with('"')
                    || piece.starts_with('\'')
                    || piece.starts_with("r\"")
                    || piece.starts_with("r#");
                if special {
                    for (i, _) in piece.char_indices().skip(1) {
                        trunc.push(t.lo + i);
                    }
                }
            }
        }
        let mut lines = Vec::new();
        let mut start = 0;
        for l in text.split_inclusive('\n') {
            let lead = l.bytes().take_while(|&c| c == b' ').count();
            if !l.trim().is_empty() {
                lines.push((start, lead));
            }
            start += l.len();
        }
        let n = toks.len();
        let counts = [1, n, n, n.saturating_sub(1), n, trunc.len(), 4 * lines.len()];
        let mut cum = [0usize; 8];
        for i in 0..7 {
            cum[i + 1] = cum[i] + counts[i];
        }
        CorpusFile { name, text, toks, trunc, lines, cum }
    }
    fn n_mutants(&self) -> usize {
        self.cum[7]
    }
    /// the `k`-th mutant: (description, text); `None` when the edit is a no-op
    fn mutant(&self, k: usize) -> Option<(String, String)> {
        let t = &self.text;
        let kind = (0..7).find(|&i| k < self.cum[i + 1])?;
        let i = k - self.cum[kind];
        Some(match kind {
            0 => ("original".to_string(), t.clone()),
            1 => {
                let a = self.toks[i];
                (format!("delete token {} {:?}", i, clip(&t[a.lo..a.hi], 20)), format!("{}{}", &t[..a.lo], &t[a.hi..]))
            }
            2 => {
                let a = self.toks[i];
                (
                    format!("duplicate token {} {:?}", i, clip(&t[a.lo..a.hi], 20)),
                    format!("{} {}{}", &t[..a.hi], &t[a.lo..a.hi], &t[a.hi..]),
                )
            }
            3 => {
                let a = self.toks[i];
                let b = self.toks[i + 1];
                if t[a.lo..a.hi] == t[b.lo..b.hi] {
                    return None;
                }
                (
                    format!("swap tokens {},{}", i, i + 1),
                    format!("{}{}{}{}{}", &t[..a.lo], &t[b.lo..b.hi], &t[a.hi..b.lo], &t[a.lo..a.hi], &t[b.hi..]),
                )
            }
            4 => (format!("truncate after token {}", i), t[..self.toks[i].hi].to_string()),
            5 => (format!("truncate at byte {}", self.trunc[i]), t[..self.trunc[i]].to_string()),
            _ => {
                let (start, lead) = self.lines[i / 4];
                let delta: isize = [1, -1, 4, -4][i % 4];
                if delta > 0 {
                    (
                        format!("re-indent line at byte {} by +{}", start, delta),
                        format!("{}{}{}", &t[..start], " ".repeat(delta as usize), &t[start..]),
                    )
                } else {
                    let cut = lead.min((-delta) as usize);
                    if cut == 0 || (delta == -4 && cut <= 1) {
                        // nothing to remove / same as the -1 mutant
                        return None;
                    }
                    (format!("re-indent line at byte {} by -{}", start, cut), format!("{}{}", &t[..start], &t[start + cut..]))
                }
            }
        })
    }
}

fn clip(s: &str, n: usize) -> String {
    if s.chars().count() <= n {
        s.to_string()
    } else {
        format!("{}…", s.chars().take(n).collect::<String>())
    }
}

fn glu_files(dir: &str, out: &mut Vec<String>) {
    let mut entries: Vec<_> = match std::fs::read_dir(dir) {
        Ok(rd) => rd.filter_map(|e| e.ok()).map(|e| e.path()).collect(),
        Err(_) => return,
    };
    entries.sort();
    for p in entries {
        if p.is_dir() {
            glu_files(&p.to_string_lossy(), out);
        } else if p.extension().map(|e| e == "glu").unwrap_or(false) {
            out.push(p.to_string_lossy().to_string());
        }
    }
}

/// One addressable section of the space: cases `0..len`
#[derive(Clone, Debug)]
struct Section {
    id: String,
    len: usize,
}

struct Space {
    tier: String,
    seq_len: usize,
    chars_len: usize,
    depths: Vec<usize>,
    files: Vec<CorpusFile>,
    /// corpus files that were left out of the quick tier (size cap)
    skipped_files: usize,
    sections: Vec<Section>,
}

fn pow(b: usize, e: usize) -> usize {
    (0..e).fold(1, |a, _| a * b)
}

impl Space {
    /// the corpus texts (name, text) and the number of files left out by the quick size cap
    fn build_corpus(tier: &str) -> (Vec<(String, String)>, usize) {
        let thorough = tier == "thorough";
        let file_cap = if thorough { usize::MAX } else { quick_file_cap() };
        let mut paths = Vec::new();
        for d in ["/repo/std", "/repo/examples", "/repo/tests/pass", "/repo/tests/fail"] {
            glu_files(d, &mut paths);
        }
        let mut files = Vec::new();
        let mut skipped_files = 0;
        for p in paths {
            if let Ok(text) = std::fs::read_to_string(&p) {
                if text.len() > file_cap {
                    skipped_files += 1;
                    continue;
                }
                files.push((p, text));
            }
        }
        let tpl = templates::all("quick");
        let n_tpl = if thorough { 200 } else { quick_templates() };
        let stride = (tpl.len() / n_tpl.max(1)).max(1);
        for (i, (label, t)) in tpl.iter().enumerate() {
            if i % stride == 0 && i / stride < n_tpl {
                files.push((format!("template:{}:{}", i, label), program(Dialect::Bare, t)));
            }
        }
        (files, skipped_files)
    }

    fn new(tier: &str, corpus: Vec<(String, String)>, skipped_files: usize) -> Space {
        let thorough = tier == "thorough";
        let seq_len = if thorough { 5 } else { 4 };
        let chars_len = if thorough { 4 } else { 3 };
        let depths: Vec<usize> = if thorough {
            (1..=MAX_DEPTH).collect()
        } else {
            let mut d: Vec<usize> = (1..=8).collect();
            d.extend([12, 16, 24, 32, 48, 64, 96, 128, 192, 256]);
            d
        };
        let files: Vec<CorpusFile> = corpus.into_iter().map(|(n, t)| CorpusFile::new(n, t, thorough)).collect();
        let mut sections = Vec::new();
        sections.push(Section { id: "ramp".into(), len: RAMP_SHAPES.len() * depths.len() });
        sections.push(Section { id: "chars".into(), len: (0..=chars_len).map(|l| pow(CHARS.len(), l)).sum() });
        for a in 0..ALPHABETS.len() {
            // lengths 0 and 1: one layout; longer: three layouts
            let mut n = if a == 0 { 1 } else { 0 };
            n += 16;
            for l in 2..=seq_len {
                n += 3 * pow(16, l);
            }
            sections.push(Section { id: format!("seq{}", a), len: n });
        }
        for (i, f) in files.iter().enumerate() {
            sections.push(Section { id: format!("mut{}", i), len: f.n_mutants() });
        }
        // the same mutants through `typecheck_str` (about 50 ms each with the implicit prelude):
        // the original and the token-level mutants of the smaller files
        let mts_cap = if thorough { 4096 } else { quick_mts_cap() };
        for (i, f) in files.iter().enumerate() {
            if f.text.len() <= mts_cap && !f.name.starts_with("template:") {
                sections.push(Section { id: format!("mts{}", i), len: f.cum[5] });
            }
        }
        Space { tier: tier.to_string(), seq_len, chars_len, depths, files, skipped_files, sections }
    }

    /// (description, text) of case `idx` of section `sec`
    fn case(&self, sec: &str, idx: usize) -> Option<(String, String)> {
        if sec == "ramp" {
            let shape = RAMP_SHAPES[idx / self.depths.len()];
            let d = self.depths[idx % self.depths.len()];
            return Some((format!("ramp {} depth {}", shape, d), ramp_text(shape, d)));
        }
        if sec == "chars" {
            let mut k = idx;
            for l in 0..=self.chars_len {
                let n = pow(CHARS.len(), l);
                if k < n {
                    let mut s = String::new();
                    for _ in 0..l {
                        s.push(CHARS[k % CHARS.len()]);
                        k /= CHARS.len();
                    }
                    return Some((format!("chars len {}", l), s));
                }
                k -= n;
            }
            return None;
        }
        if let Some(a) = sec.strip_prefix("seq") {
            let a: usize = a.parse().ok()?;
            let alpha = &ALPHABETS[a];
            let mut k = idx;
            if a == 0 {
                if k == 0 {
                    return Some(("empty text".into(), String::new()));
                }
                k -= 1;
            }
            if k < 16 {
                return Some((format!("tokens a{} len 1", a), alpha[k].to_string()));
            }
            k -= 16;
            for l in 2..=self.seq_len {
                let n = 3 * pow(16, l);
                if k < n {
                    let layout = k % 3;
                    let mut q = k / 3;
                    let mut s = String::new();
                    for i in 0..l {
                        let t = alpha[q % 16];
                        q /= 16;
                        if i > 0 {
                            match layout {
                                0 => s.push(' '),
                                1 => s.push('\n'),
                                _ => {
                                    s.push('\n');
                                    s.push_str(&" ".repeat(i));
                                }
                            }
                        }
                        s.push_str(t);
                    }
                    let lname = ["one line", "column 0", "staircase"][layout];
                    return Some((format!("tokens a{} len {} {}", a, l, lname), s));
                }
                k -= n;
            }
            return None;
        }
        if let Some(f) = sec.strip_prefix("mut").or_else(|| sec.strip_prefix("mts")) {
            let f: usize = f.parse().ok()?;
            let file = self.files.get(f)?;
            return file.mutant(idx).map(|(d, t)| (format!("{}: {}", file.name, d), t));
        }
        None
    }
}

fn quick_file_cap() -> usize {
    std::env::var("C09_QUICK_FILE_CAP").ok().and_then(|s| s.parse().ok()).unwrap_or(1500)
}
fn quick_mts_cap() -> usize {
    std::env::var("C09_QUICK_MTS_CAP").ok().and_then(|s| s.parse().ok()).unwrap_or(160)
}
fn quick_templates() -> usize {
    std::env::var("C09_QUICK_TEMPLATES").ok().and_then(|s| s.parse().ok()).unwrap_or(24)
}

// ---------------------------------------------------------------------------------------------
// the oracle (runs inside a worker process)

#[derive(Default, Debug)]
struct CaseOut {
    /// "ok" | "parse" | "typecheck" | "macro" | "multiple(..)" | "other" | "panic"
    class: String,
    spans_checked: u64,
    labels_checked: u64,
    spans_in_other_files: u64,
    spanless: Vec<String>,
    /// (key, what)
    violations: Vec<(String, String)>,
}

fn normalize_msg(m: &str) -> String {
    // digits -> N, quoted / backticked pieces dropped, clipped: keys must not depend on the input
    let m = m.split(" Please report an issue").next().unwrap_or(m);
    let m = if m.starts_with("Source file does not exist in associated code map") { "Source file does not exist in associated code map" } else { m };
    let m = match m.find(" is not a char boundary") {
        Some(p) => &m[..p + " is not a char boundary".len()],
        None => m,
    };
    let mut out = String::new();
    let mut prev_digit = false;
    let mut quote: Option<char> = None;
    for c in m.chars() {
        if let Some(q) = quote {
            if c == q {
                quote = None;
                out.push(c);
            }
            continue;
        }
        if c == '`' || c == '"' {
            quote = Some(c);
            out.push(c);
            prev_digit = false;
            continue;
        }
        if c.is_ascii_digit() {
            if !prev_digit {
                out.push('N');
            }
            prev_digit = true;
        } else {
            prev_digit = false;
            out.push(if c == '\n' { ' ' } else { c });
        }
        if out.len() > 120 {
            break;
        }
    }
    out
}

fn strip_line(loc: &str) -> String {
    // "/repo/check/src/typecheck.rs:123" -> "check/src/typecheck.rs"
    let f = loc.rsplit_once(':').map(|x| x.0).unwrap_or(loc);
    let f = f.strip_prefix("/repo/").unwrap_or(f);
    match f.find("/.cargo/registry/src/") {
        Some(p) => f[p..].splitn(6, '/').last().unwrap_or(f).to_string(),
        None => f.to_string(),
    }
}

fn variant_name<T: std::fmt::Debug>(v: &T) -> String {
    // leading identifier path of the Debug image, e.g. "Help { error: UndefinedVariable(" -> keep idents
    let d = format!("{:?}", v);
    let mut names = Vec::new();
    let mut cur = String::new();
    for c in d.chars() {
        if c.is_alphanumeric() || c == '_' {
            cur.push(c);
        } else {
            if !cur.is_empty() {
                if cur.chars().next().unwrap().is_uppercase() {
                    names.push(cur.clone());
                }
                cur.clear();
            }
            if names.len() >= 3 || c == '"' {
                break;
            }
        }
    }
    names.join(".")
}

fn check_pos(
    out: &mut CaseOut,
    stage: &str,
    what_kind: &str,
    variant: &str,
    map: &CodeMap,
    file_id: BytePos,
    lo: i64,
    hi: i64,
    text: &str,
) {
    // lo/hi are offsets relative to the start of the file that `file_id` resolves to
    let file = match map.get(file_id) {
        Some(f) => f,
        None => {
            out.violations.push((
                format!("span:{}:{}:no-file:{}", stage, what_kind, variant),
                format!("position {} does not resolve to any file of the error's code map", file_id),
            ));
            return;
        }
    };
    let src = file.source();
    if file.name() == FILE {
        if src != text {
            out.violations.push((
                format!("span:{}:{}:stale-file:{}", stage, what_kind, variant),
                format!("the span resolves to an older text registered under the same file name ({} bytes, current text {} bytes)", src.len(), text.len()),
            ));
            return;
        }
    } else {
        out.spans_in_other_files += 1;
    }
    let len = src.len() as i64;
    let problem = if lo < 0 || hi < 0 {
        Some("negative")
    } else if lo > hi {
        Some("inverted")
    } else if hi > len {
        Some("beyond-end")
    } else if !src.is_char_boundary(lo as usize) || !src.is_char_boundary(hi as usize) {
        Some("not-char-boundary")
    } else {
        None
    };
    if let Some(p) = problem {
        out.violations.push((
            format!("span:{}:{}:{}:{}", stage, what_kind, p, variant),
            format!("offsets {}..{} in file {:?} of {} bytes", lo, hi, file.name(), len),
        ));
    }
}

fn check_infile<E>(out: &mut CaseOut, stage: &str, inf: &InFile<E>, text: &str)
where
    E: std::fmt::Display + std::fmt::Debug + AsDiagnostic,
{
    let map = inf.source();
    for err in inf.errors().iter() {
        let variant = variant_name(&err.value);
        let start = err.span.start();
        let end = err.span.end();
        out.spans_checked += 1;
        match map.get(start) {
            Some(file) => {
                let base = file.span().start().to_usize() as i64;
                check_pos(out, stage, "span", &variant, map, start, start.to_usize() as i64 - base, end.to_usize() as i64 - base, text);
            }
            None => out.violations.push((
                format!("span:{}:span:no-file:{}", stage, variant),
                format!("span {}..{} does not start in any file of the error's code map (error: {})", start, end, clip(&err.value.to_string(), 120)),
            )),
        }
        // what the renderer will actually be asked to draw
        let diag = catch_unwind(AssertUnwindSafe(|| err.as_diagnostic(map)));
        match diag {
            Ok(d) => {
                for l in &d.labels {
                    out.labels_checked += 1;
                    check_pos(out, stage, "label", &variant, map, l.file_id, l.range.start as i64, l.range.end as i64, text);
                }
            }
            Err(p) => out.violations.push((
                format!("panic-diagnostic:{}@{}", normalize_msg(&vmkit::panic_message(&p)), strip_line(&vmkit::last_panic_loc())),
                format!("as_diagnostic panicked at {}", vmkit::last_panic_loc()),
            )),
        }
    }
}

fn walk_error(out: &mut CaseOut, e: &gluon::Error, text: &str, classes: &mut Vec<&'static str>) {
    use gluon::Error as E;
    match e {
        E::Parse(inf) => {
            classes.push("parse");
            check_infile(out, "parse", inf, text)
        }
        E::Typecheck(inf) => {
            classes.push("typecheck");
            check_infile(out, "typecheck", inf, text)
        }
        E::Macro(inf) => {
            classes.push("macro");
            check_infile(out, "macro", inf, text)
        }
        E::Multiple(es) => {
            for e in es.iter() {
                walk_error(out, e, text, classes);
            }
        }
        E::IO(e) => {
            classes.push("io");
            out.spanless.push(format!("IO: {}", normalize_msg(&vmkit::first_line(&e.to_string()))));
        }
        E::VM(e) => {
            classes.push("vm");
            out.spanless.push(format!("VM: {}", normalize_msg(&vmkit::first_line(&e.to_string()))));
        }
        E::Other(e) => {
            classes.push("other");
            out.spanless.push(format!("Other: {}", normalize_msg(&vmkit::first_line(&e.to_string()))));
        }
    }
}

/// `prelude == false`: no implicit prelude (nothing but the text is in play);
/// `prelude == true`: gluon's default settings — needed for the corpus, whose imports of `std.*`
/// only compile with the implicit prelude (the setting is per VM, not per file).
fn new_vm(prelude: bool) -> RootedThread {
    vmkit::make_vm_with_prim(Settings { implicit_prelude: prelude, ..Settings::bare() })
}

/// Oracle clauses 2–4 for `typecheck_str`, plus the bare parser.
/// `pipeline == false`: `ThreadExt::typecheck_str` (registers the text as a module of the
/// compiler database, then the `typechecked_source_module`, `module_type`, `module_metadata`
/// queries); `pipeline == true`: the same front end (`compiler_pipeline::Typecheckable` for
/// `&str`, which is what `typechecked_source_module` itself calls) without the database
/// registration — two orders of magnitude cheaper once `std` modules are loaded, because no
/// database revision is started.
fn check_text(vm: &RootedThread, text: &str, pipeline: bool) -> CaseOut {
    let mut out = CaseOut::default();
    let r = catch_unwind(AssertUnwindSafe(|| {
        if pipeline {
            use gluon::compiler_pipeline::Typecheckable;
            let mut db = vm.get_database();
            let mut compiler = vm.module_compiler(&mut db);
            futures::executor::block_on(text.typecheck_expected(&mut compiler, vm, FILE, text, None))
                .map(|_| ())
                .map_err(|salvage| salvage.error)
        } else {
            vm.typecheck_str(FILE, text, None).map(|_| ())
        }
    }));
    match r {
        Err(p) => {
            out.class = "panic".into();
            let loc = vmkit::last_panic_loc();
            out.violations.push((
                format!("panic:{}@{}", normalize_msg(&vmkit::panic_message(&p)), strip_line(&loc)),
                format!("{} panicked: {} at {}", if pipeline { "<&str as Typecheckable>::typecheck_expected" } else { "typecheck_str" }, clip(&vmkit::panic_message(&p), 200), loc),
            ));
        }
        Ok(Ok(_)) => out.class = "ok".into(),
        Ok(Err(e)) => {
            let mut classes = Vec::new();
            walk_error(&mut out, &e, text, &mut classes);
            classes.dedup();
            out.class = classes.join("+");
            match catch_unwind(AssertUnwindSafe(|| e.emit_string())) {
                Ok(Ok(_)) => {}
                Ok(Err(err)) => out.violations.push((
                    format!("emit:{}:{}", out.class, normalize_msg(&err.to_string())),
                    format!("Error::emit_string() returned Err({})", err),
                )),
                Err(p) => {
                    let loc = vmkit::last_panic_loc();
                    out.violations.push((
                        format!("panic-emit:{}@{}", normalize_msg(&vmkit::panic_message(&p)), strip_line(&loc)),
                        format!("Error::emit_string() panicked: {} at {}", clip(&vmkit::panic_message(&p), 200), loc),
                    ));
                }
            }
        }
    }
    check_parser(&mut out, text);
    out
}

/// The bare parser entry point: spans are relative to `BytePos(1)` for a `&str` source.
fn check_parser(out: &mut CaseOut, text: &str) {
    use gluon::base::symbol::{SymbolModule, Symbols};
    use gluon::base::types::TypeCache;
    let r = catch_unwind(AssertUnwindSafe(|| {
        let mut symbols = Symbols::new();
        let mut module = SymbolModule::new(FILE.into(), &mut symbols);
        match gluon::parser::parse_partial_root_expr(&mut module, &TypeCache::new(), text) {
            Ok(_) => Vec::new(),
            Err((_, errs)) => errs.iter().map(|e| (variant_name(&e.value), e.span.start().to_usize() as i64 - 1, e.span.end().to_usize() as i64 - 1)).collect(),
        }
    }));
    match r {
        Err(p) => {
            let loc = vmkit::last_panic_loc();
            let same = format!("panic:{}@{}", normalize_msg(&vmkit::panic_message(&p)), strip_line(&loc));
            if out.violations.iter().any(|(k, _)| *k == same) {
                // the same panic already reported through typecheck_str
                return;
            }
            out.violations.push((
                format!("panic-parser:{}@{}", normalize_msg(&vmkit::panic_message(&p)), strip_line(&loc)),
                format!("parse_partial_root_expr panicked: {} at {}", clip(&vmkit::panic_message(&p), 200), loc),
            ));
        }
        Ok(spans) => {
            let len = text.len() as i64;
            for (variant, lo, hi) in spans {
                out.spans_checked += 1;
                let problem = if lo < 0 || hi < 0 {
                    Some("negative")
                } else if lo > hi {
                    Some("inverted")
                } else if hi > len {
                    Some("beyond-end")
                } else if !text.is_char_boundary(lo as usize) || !text.is_char_boundary(hi as usize) {
                    Some("not-char-boundary")
                } else {
                    None
                };
                if let Some(p) = problem {
                    out.violations.push((
                        format!("span:parser-only:span:{}:{}", p, variant),
                        format!("parse_partial_root_expr error span {}..{} in a text of {} bytes", lo, hi, len),
                    ));
                }
            }
        }
    }
}

/// (implicit prelude, pipeline entry) used for a section
fn mode_of(sec: &str) -> (bool, bool) {
    if sec.starts_with("mut") {
        (true, true)
    } else if sec.starts_with("mts") {
        (true, false)
    } else {
        (false, false)
    }
}

fn mode_json(m: (bool, bool)) -> Value {
    json!({"prelude": m.0, "pipeline": m.1})
}

fn mode_from(v: &Value) -> (bool, bool) {
    (v["prelude"].as_bool().unwrap_or(false), v["pipeline"].as_bool().unwrap_or(false))
}

fn fnv(s: &str) -> u64 {
    let mut h: u64 = 0xcbf29ce484222325;
    for b in s.bytes() {
        h ^= b as u64;
        h = h.wrapping_mul(0x100000001b3);
    }
    h
}

/// Greedy shrink of `text`: remove runs of tokens (run length halving down to 1) as long as
/// `still` holds; finally trim surrounding whitespace. Deterministic for a deterministic `still`.
fn shrink(text: &str, budget: Duration, still: &mut dyn FnMut(&str) -> bool) -> String {
    let t0 = Instant::now();
    let mut cur = text.to_string();
    let mut chunk = (tokenize(&cur).len() / 2).max(1);
    loop {
        let mut progress = false;
        let mut i = 0;
        loop {
            let toks = tokenize(&cur);
            if i >= toks.len() {
                break;
            }
            if t0.elapsed() > budget {
                return cur;
            }
            let hi = (i + chunk).min(toks.len());
            let cand = format!("{}{}", &cur[..toks[i].lo], &cur[toks[hi - 1].hi..]);
            if cand.len() < cur.len() && still(&cand) {
                cur = cand;
                progress = true;
            } else {
                i += chunk;
            }
        }
        if chunk > 1 {
            chunk /= 2;
        } else if !progress {
            break;
        }
    }
    // blank lines and trailing whitespace
    let squeezed: String = cur.lines().filter(|l| !l.trim().is_empty()).map(|l| l.trim_end()).collect::<Vec<_>>().join("\n");
    if squeezed.len() < cur.len() && t0.elapsed() <= budget && still(&squeezed) {
        cur = squeezed;
    }
    cur
}

/// Shrinks `text` preserving a (non-fatal) violation with key `key`; the result is confirmed on a
/// fresh VM (else the original text is returned).
fn minimise_in_process(text: &str, key: &str, mode: (bool, bool), budget: Duration) -> String {
    let mut vm = new_vm(mode.0);
    let mut still = |s: &str| -> bool {
        let out = check_text(&vm, s, mode.1);
        if out.class == "panic" {
            vm = new_vm(mode.0);
        }
        out.violations.iter().any(|(k, _)| k == key)
    };
    let m = shrink(text, budget, &mut still);
    let fresh = new_vm(mode.0);
    if check_text(&fresh, &m, mode.1).violations.iter().any(|(k, _)| k == key) {
        m
    } else {
        text.to_string()
    }
}

/// Entry point of `gv c09-worker <tier>`
pub fn worker_main(tier: &str, corpus_path: Option<&str>) {
    vmkit::record_panics();
    let tier = tier.to_string();
    let corpus_path = corpus_path.map(|s| s.to_string());
    let h = std::thread::Builder::new()
        .name("c09-cases".into())
        .stack_size(std::env::var("C09_STACK_MB").ok().and_then(|s| s.parse::<usize>().ok()).map(|mb| mb << 20).unwrap_or(CASE_STACK))
        .spawn(move || worker_loop(&tier, corpus_path.as_deref()))
        .unwrap();
    let _ = h.join();
}

fn say(line: &str) {
    let out = std::io::stdout();
    let mut o = out.lock();
    let _ = o.write_all(line.as_bytes());
    let _ = o.write_all(b"\n");
    let _ = o.flush();
}

fn load_space(tier: &str, corpus_path: Option<&str>) -> Space {
    let corpus: Vec<(String, String)> = corpus_path
        .and_then(|p| std::fs::read_to_string(p).ok())
        .and_then(|t| serde_json::from_str(&t).ok())
        .unwrap_or_default();
    Space::new(tier, corpus, 0)
}

fn worker_loop(tier: &str, corpus_path: Option<&str>) {
    let mut space: Option<Space> = None;
    let mut vms: [Option<RootedThread>; 4] = [None, None, None, None];
    let mut vm_cases = [0usize; 4];
    let mut reported: HashMap<String, u32> = HashMap::new();
    let stdin = std::io::stdin();
    let mut line = String::new();
    loop {
        line.clear();
        match stdin.lock().read_line(&mut line) {
            Ok(0) | Err(_) => return,
            Ok(_) => {}
        }
        let job: Value = match serde_json::from_str(line.trim()) {
            Ok(v) => v,
            Err(_) => continue,
        };
        let kind = job["t"].as_str().unwrap_or("");
        if kind == "min" {
            let text = job["text"].as_str().unwrap_or("");
            let key = job["key"].as_str().unwrap_or("");
            let ms = job["budget_ms"].as_u64().unwrap_or(2000);
            say("B 0");
            let m = minimise_in_process(text, key, mode_from(&job["mode"]), Duration::from_millis(ms));
            say(&format!("R {}", json!({"min": m})));
            continue;
        }
        // a list of cases: either one literal text or a range of a section
        let (sec, lo, hi) = if kind == "text" {
            ("text".to_string(), 0usize, 1usize)
        } else {
            (
                job["sec"].as_str().unwrap_or("").to_string(),
                job["lo"].as_u64().unwrap_or(0) as usize,
                job["hi"].as_u64().unwrap_or(0) as usize,
            )
        };
        if kind != "text" && space.is_none() {
            space = Some(load_space(tier, corpus_path));
        }
        let fresh_each = job["fresh"].as_bool().unwrap_or(false);
        let mode = if kind == "text" { mode_from(&job["mode"]) } else { mode_of(&sec) };
        let (prelude, pipeline) = mode;
        let m = prelude as usize + 2 * pipeline as usize;
        let mut cases = 0u64;
        let mut noop = 0u64;
        let mut classes: BTreeMap<String, u64> = BTreeMap::new();
        let mut spans = 0u64;
        let mut labels = 0u64;
        let mut other_files = 0u64;
        let mut spanless: BTreeMap<String, u64> = BTreeMap::new();
        let mut vcounts: BTreeMap<String, u64> = BTreeMap::new();
        let mut unconfirmed = 0u64;
        let mut hashes = String::new();
        let mut slowest = (0u128, 0usize);
        for idx in lo..hi {
            let (desc, text) = if kind == "text" {
                ("literal".to_string(), job["text"].as_str().unwrap_or("").to_string())
            } else {
                match space.as_ref().unwrap().case(&sec, idx) {
                    Some(c) => c,
                    None => {
                        noop += 1;
                        continue;
                    }
                }
            };
            say(&format!("B {}", idx));
            if fresh_each || vm_cases[m] >= VM_RECYCLE || vms[m].is_none() {
                vms[m] = Some(new_vm(prelude));
                vm_cases[m] = 0;
            }
            vm_cases[m] += 1;
            let t0 = Instant::now();
            let out = check_text(vms[m].as_ref().unwrap(), &text, pipeline);
            let el = t0.elapsed().as_micros();
            if el > slowest.0 {
                slowest = (el, idx);
            }
            cases += 1;
            *classes.entry(out.class.clone()).or_insert(0) += 1;
            spans += out.spans_checked;
            labels += out.labels_checked;
            other_files += out.spans_in_other_files;
            for s in &out.spanless {
                *spanless.entry(s.clone()).or_insert(0) += 1;
            }
            if out.spans_checked > 0 {
                hashes.push_str(&format!("{:016x}", fnv(&text)));
            }
            if out.class == "panic" {
                // locks may be poisoned
                vms[m] = None;
            }
            for (key, what) in &out.violations {
                *vcounts.entry(key.clone()).or_insert(0) += 1;
                let n = reported.entry(key.clone()).or_insert(0);
                if *n >= 3 {
                    continue;
                }
                // reproduce on a fresh VM before reporting
                let fresh = new_vm(prelude);
                let again = check_text(&fresh, &text, pipeline);
                if again.violations.iter().any(|(k, _)| k == key) {
                    *n += 1;
                    say(&format!("V {}", json!({"sec": sec, "idx": idx, "desc": desc, "key": key, "what": what, "text": text, "mode": mode_json(mode)})));
                } else {
                    unconfirmed += 1;
                    say(&format!("U {}", json!({"sec": sec, "idx": idx, "desc": desc, "key": key, "what": what, "text": text})));
                }
            }
        }
        say(&format!(
            "R {}",
            json!({"cases": cases, "noop": noop, "classes": classes, "spans": spans, "labels": labels,
                   "other_files": other_files, "spanless": spanless, "vcounts": vcounts,
                   "unconfirmed": unconfirmed, "hashes": hashes,
                   "slowest_us": slowest.0 as u64, "slowest_idx": slowest.1})
        ));
    }
}

// ---------------------------------------------------------------------------------------------
// parent side: worker processes, watchdog, attribution

struct Proc {
    child: Child,
    stdin: ChildStdin,
    rx: Receiver<String>,
    errfile: std::path::PathBuf,
}

fn scratch_dir() -> std::path::PathBuf {
    let d = std::env::temp_dir().join(format!("gv-c09-{}", std::process::id()));
    let _ = std::fs::create_dir_all(&d);
    d
}

impl Proc {
    fn spawn(tier: &str, slot: usize) -> Result<Proc, String> {
        Proc::spawn_with_stack(tier, slot, CASE_STACK >> 20)
    }
    fn spawn_with_stack(tier: &str, slot: usize, stack_mb: usize) -> Result<Proc, String> {
        let exe = std::env::current_exe().map_err(|e| e.to_string())?;
        let errfile = scratch_dir().join(format!("w{}.err", slot));
        let err = std::fs::File::create(&errfile).map_err(|e| e.to_string())?;
        let mut child = Command::new(exe)
            .arg("c09-worker")
            .arg(tier)
            .arg(scratch_dir().join("corpus.json"))
            .env("C09_STACK_MB", stack_mb.to_string())
            .stdin(Stdio::piped())
            .stdout(Stdio::piped())
            .stderr(err)
            .spawn()
            .map_err(|e| e.to_string())?;
        let stdin = child.stdin.take().unwrap();
        let stdout = child.stdout.take().unwrap();
        let (tx, rx) = channel();
        std::thread::spawn(move || {
            let r = BufReader::new(stdout);
            for l in r.lines() {
                match l {
                    Ok(l) => {
                        if tx.send(l).is_err() {
                            break;
                        }
                    }
                    Err(_) => break,
                }
            }
        });
        Ok(Proc { child, stdin, rx, errfile })
    }
    fn kill(mut self) -> (String, String) {
        let _ = self.child.kill();
        let status = self.child.wait().map(|s| describe_status(&s)).unwrap_or_else(|e| e.to_string());
        let err = std::fs::read_to_string(&self.errfile).unwrap_or_default();
        let tail: Vec<&str> = err.lines().rev().take(3).collect();
        (status, tail.into_iter().rev().collect::<Vec<_>>().join(" | "))
    }
    /// wait for a child that closed its stdout
    fn reap(mut self) -> (String, String) {
        let t0 = Instant::now();
        loop {
            match self.child.try_wait() {
                Ok(Some(s)) => {
                    let err = std::fs::read_to_string(&self.errfile).unwrap_or_default();
                    let tail: Vec<&str> = err.lines().rev().take(3).collect();
                    return (describe_status(&s), tail.into_iter().rev().collect::<Vec<_>>().join(" | "));
                }
                Ok(None) if t0.elapsed() < Duration::from_secs(2) => std::thread::sleep(Duration::from_millis(2)),
                _ => return self.kill(),
            }
        }
    }
}

fn describe_status(s: &std::process::ExitStatus) -> String {
    use std::os::unix::process::ExitStatusExt;
    match (s.code(), s.signal()) {
        (Some(c), _) => format!("exit code {}", c),
        (None, Some(6)) => "signal 6 (SIGABRT)".to_string(),
        (None, Some(11)) => "signal 11 (SIGSEGV)".to_string(),
        (None, Some(9)) => "signal 9 (SIGKILL)".to_string(),
        (None, Some(n)) => format!("signal {}", n),
        _ => "unknown".to_string(),
    }
}

#[derive(Clone, Debug)]
struct Fatal {
    sec: String,
    idx: usize,
    /// "hang" or "crash"
    kind: &'static str,
    detail: String,
}

#[derive(Default)]
struct Agg {
    cases: u64,
    noop: u64,
    lost: u64,
    classes: BTreeMap<String, u64>,
    spans: u64,
    labels: u64,
    other_files: u64,
    spanless: BTreeMap<String, u64>,
    vcounts: BTreeMap<String, u64>,
    unconfirmed: u64,
    unconfirmed_samples: Vec<Value>,
    hashes: Vec<u64>,
    violations: Vec<Value>,
    fatals: Vec<Fatal>,
    machinery: Vec<String>,
    per_section: BTreeMap<String, u64>,
    slowest: (u64, String, usize),
    restarts: u64,
}

impl Agg {
    fn merge_r(&mut self, sec: &str, r: &Value) {
        let c = r["cases"].as_u64().unwrap_or(0);
        self.cases += c;
        let group = sec.trim_end_matches(|c: char| c.is_ascii_digit()).to_string();
        *self.per_section.entry(group).or_insert(0) += c;
        self.noop += r["noop"].as_u64().unwrap_or(0);
        self.spans += r["spans"].as_u64().unwrap_or(0);
        self.labels += r["labels"].as_u64().unwrap_or(0);
        self.other_files += r["other_files"].as_u64().unwrap_or(0);
        self.unconfirmed += r["unconfirmed"].as_u64().unwrap_or(0);
        for (name, field) in [("classes", 0), ("spanless", 1), ("vcounts", 2)] {
            if let Some(m) = r[name].as_object() {
                for (k, v) in m {
                    let tgt = match field {
                        0 => &mut self.classes,
                        1 => &mut self.spanless,
                        _ => &mut self.vcounts,
                    };
                    *tgt.entry(k.clone()).or_insert(0) += v.as_u64().unwrap_or(0);
                }
            }
        }
        if let Some(h) = r["hashes"].as_str() {
            let b = h.as_bytes();
            for ch in b.chunks(16) {
                if let Ok(s) = std::str::from_utf8(ch) {
                    if let Ok(x) = u64::from_str_radix(s, 16) {
                        self.hashes.push(x);
                    }
                }
            }
        }
        let sl = r["slowest_us"].as_u64().unwrap_or(0);
        if sl > self.slowest.0 {
            self.slowest = (sl, sec.to_string(), r["slowest_idx"].as_u64().unwrap_or(0) as usize);
        }
    }
    fn absorb(&mut self, o: Agg) {
        self.cases += o.cases;
        self.noop += o.noop;
        self.lost += o.lost;
        self.spans += o.spans;
        self.labels += o.labels;
        self.other_files += o.other_files;
        self.unconfirmed += o.unconfirmed;
        self.restarts += o.restarts;
        for (k, v) in o.classes {
            *self.classes.entry(k).or_insert(0) += v;
        }
        for (k, v) in o.spanless {
            *self.spanless.entry(k).or_insert(0) += v;
        }
        for (k, v) in o.vcounts {
            *self.vcounts.entry(k).or_insert(0) += v;
        }
        for (k, v) in o.per_section {
            *self.per_section.entry(k).or_insert(0) += v;
        }
        self.hashes.extend(o.hashes);
        self.violations.extend(o.violations);
        self.unconfirmed_samples.extend(o.unconfirmed_samples);
        self.fatals.extend(o.fatals);
        self.machinery.extend(o.machinery);
        if o.slowest.0 > self.slowest.0 {
            self.slowest = o.slowest;
        }
    }
}

#[derive(Clone, Debug)]
struct Job {
    sec: String,
    lo: usize,
    hi: usize,
}

/// Result of running one job line on a worker process
enum JobEnd {
    Done(Value),
    /// the child died or went silent; `inflight` = the case announced last
    Fatal { inflight: Option<usize>, kind: &'static str, detail: String },
}

/// Sends one job line, collects V/U lines into `agg`, returns at R / death / silence.
fn drive(proc_: &mut Option<Proc>, tier: &str, slot: usize, line: &str, cap: Duration, agg: &mut Agg) -> JobEnd {
    if proc_.is_none() {
        match Proc::spawn(tier, slot) {
            Ok(p) => *proc_ = Some(p),
            Err(e) => return JobEnd::Fatal { inflight: None, kind: "spawn", detail: e },
        }
    }
    let p = proc_.as_mut().unwrap();
    if writeln!(p.stdin, "{}", line).and_then(|_| p.stdin.flush()).is_err() {
        let (st, err) = proc_.take().unwrap().kill();
        return JobEnd::Fatal { inflight: None, kind: "spawn", detail: format!("cannot write to worker ({}; {})", st, err) };
    }
    let mut inflight: Option<usize> = None;
    // Watchdog. The cap is on the CPU time the worker consumes without printing a line (so that
    // a machine loaded by other jobs cannot turn a slow case into a "hang"); a wall cap of 12x
    // (plus a start-up allowance before the first line) backs it up for a worker that sleeps.
    let tick = Duration::from_millis(250);
    let mut last_line = Instant::now();
    let mut cpu_base: Option<Duration> = None;
    let mut started = false;
    loop {
        match p.rx.recv_timeout(tick) {
            Ok(l) => {
                last_line = Instant::now();
                cpu_base = None;
                started = true;
                if let Some(rest) = l.strip_prefix("B ") {
                    inflight = rest.trim().parse().ok();
                } else if let Some(rest) = l.strip_prefix("V ") {
                    if let Ok(v) = serde_json::from_str::<Value>(rest) {
                        agg.violations.push(v);
                    }
                } else if let Some(rest) = l.strip_prefix("U ") {
                    if let Ok(v) = serde_json::from_str::<Value>(rest) {
                        if agg.unconfirmed_samples.len() < 5 {
                            agg.unconfirmed_samples.push(v);
                        }
                    }
                } else if let Some(rest) = l.strip_prefix("R ") {
                    return match serde_json::from_str::<Value>(rest) {
                        Ok(v) => JobEnd::Done(v),
                        Err(e) => JobEnd::Fatal { inflight, kind: "protocol", detail: e.to_string() },
                    };
                }
            }
            Err(RecvTimeoutError::Timeout) => {
                let wall = last_line.elapsed();
                let used = match (proc_cpu(p.child.id()), cpu_base) {
                    (Some(c), Some(b)) => c.saturating_sub(b),
                    (Some(c), None) => {
                        cpu_base = Some(c);
                        Duration::ZERO
                    }
                    (None, _) => wall,
                };
                let wall_cap = cap * 12 + if started { Duration::ZERO } else { Duration::from_secs(60) };
                if used >= cap || wall >= wall_cap {
                    let (_, err) = proc_.take().unwrap().kill();
                    agg.restarts += 1;
                    return JobEnd::Fatal {
                        inflight,
                        kind: "hang",
                        detail: format!("no answer after {:.1} s of CPU time ({:.1} s wall); stderr: {}", used.as_secs_f64(), wall.as_secs_f64(), err),
                    };
                }
            }
            Err(RecvTimeoutError::Disconnected) => {
                let (st, err) = proc_.take().unwrap().reap();
                agg.restarts += 1;
                return JobEnd::Fatal { inflight, kind: "crash", detail: format!("{}; stderr: {}", st, clip(&err, 300)) };
            }
        }
    }
}

/// user + system CPU time consumed so far by process `pid`
fn proc_cpu(pid: u32) -> Option<Duration> {
    let s = std::fs::read_to_string(format!("/proc/{}/stat", pid)).ok()?;
    let rest = s.get(s.rfind(')')? + 2..)?;
    let f: Vec<&str> = rest.split(' ').collect();
    // `rest` starts at field 3 (state); utime and stime are fields 14 and 15
    let ticks = f.get(11)?.parse::<u64>().ok()? + f.get(12)?.parse::<u64>().ok()?;
    let hz = unsafe { libc::sysconf(libc::_SC_CLK_TCK) };
    let hz = if hz > 0 { hz as u64 } else { 100 };
    Some(Duration::from_millis(ticks * 1000 / hz))
}

/// Runs a literal text in a fresh worker process. Returns (fatal kind+detail | None, violation keys, class)
fn run_text_isolated(tier: &str, slot: usize, text: &str, mode: (bool, bool), cap: Duration) -> (Option<(&'static str, String)>, Vec<(String, String)>, String) {
    run_text_in(None, tier, slot, text, mode, cap)
}

/// the same on a case thread with a native stack of `BIG_STACK_MB`
fn run_text_big_stack(tier: &str, slot: usize, text: &str, mode: (bool, bool), cap: Duration) -> (Option<(&'static str, String)>, Vec<(String, String)>, String) {
    match Proc::spawn_with_stack(tier, slot, BIG_STACK_MB) {
        Ok(p) => run_text_in(Some(p), tier, slot, text, mode, cap),
        Err(e) => (Some(("spawn", e)), Vec::new(), String::new()),
    }
}

fn run_text_in(p: Option<Proc>, tier: &str, slot: usize, text: &str, mode: (bool, bool), cap: Duration) -> (Option<(&'static str, String)>, Vec<(String, String)>, String) {
    let mut p = p;
    let mut agg = Agg::default();
    let line = json!({"t": "text", "text": text, "fresh": true, "mode": mode_json(mode)}).to_string();
    let end = drive(&mut p, tier, slot, &line, cap, &mut agg);
    if let Some(p) = p {
        p.kill();
    }
    match end {
        JobEnd::Done(r) => {
            let class = r["classes"].as_object().and_then(|m| m.keys().next().cloned()).unwrap_or_default();
            let v = agg
                .violations
                .iter()
                .map(|v| (v["key"].as_str().unwrap_or("").to_string(), v["what"].as_str().unwrap_or("").to_string()))
                .collect();
            (None, v, class)
        }
        JobEnd::Fatal { kind, detail, .. } => (Some((kind, detail)), Vec::new(), String::new()),
    }
}

fn fatal_class(kind: &str, detail: &str) -> String {
    if kind == "hang" {
        "hang".to_string()
    } else if detail.contains("overflowed its stack") {
        "stack-overflow".to_string()
    } else if detail.contains("SIGSEGV") {
        "crash-sigsegv".to_string()
    } else if detail.contains("SIGABRT") {
        "crash-abort".to_string()
    } else {
        format!("crash-{}", kind)
    }
}

/// Greedy shrink of a text that kills / hangs the worker. Attempts run on a fresh VM in a worker
/// process that is replaced whenever an attempt kills it.
fn minimise_fatal(tier: &str, slot: usize, text: &str, mode: (bool, bool), class: &str, cap: Duration, budget: Duration) -> String {
    let mut p: Option<Proc> = None;
    let mut still = |s: &str| -> bool {
        let mut scratch = Agg::default();
        let line = json!({"t": "text", "text": s, "fresh": true, "mode": mode_json(mode)}).to_string();
        match drive(&mut p, tier, slot, &line, cap, &mut scratch) {
            JobEnd::Fatal { kind, detail, .. } => fatal_class(kind, &detail) == class,
            JobEnd::Done(_) => false,
        }
    };
    let m = shrink(text, budget, &mut still);
    if let Some(p) = p {
        p.kill();
    }
    m
}

pub fn run(tier: &str) -> Report {
    let mut report = Report::new("C09", tier, "exploration");
    let t_start = Instant::now();
    // quick: 40 s wall in total; 4 s are kept back for process start-up, evidence writing and a
    // case that is in flight when a deadline passes
    let hard = par::deadline_for(tier, 36, 1500);
    let total = hard.saturating_duration_since(Instant::now());
    // the sweep gets the larger part of the budget, confirmation + minimisation the rest
    let sweep_deadline = Instant::now() + total.mul_f64(if tier == "quick" { 0.5 } else { 0.85 });
    let (corpus, skipped) = Space::build_corpus(tier);
    if let Err(e) = std::fs::write(scratch_dir().join("corpus.json"), serde_json::to_string(&corpus).unwrap()) {
        report.machinery(format!("cannot write the corpus file: {}", e));
        return report;
    }
    let space = Space::new(tier, corpus, skipped);

    // jobs: sections cut into chunks; cheap sections first, the corpus (largest files last)
    let mut jobs: VecDeque<Job> = VecDeque::new();
    for s in &space.sections {
        let chunk = if s.id == "ramp" {
            8
        } else if s.id.starts_with("mut") {
            100
        } else if s.id.starts_with("mts") {
            10
        } else {
            1500
        };
        let mut lo = 0;
        while lo < s.len {
            let hi = (lo + chunk).min(s.len);
            jobs.push_back(Job { sec: s.id.clone(), lo, hi });
            lo = hi;
        }
    }
    let planned: usize = space.sections.iter().map(|s| s.len).sum();
    let queue = Mutex::new(jobs);
    let capped = std::sync::atomic::AtomicBool::new(false);
    let workers = par::n_workers();
    let aggs: Mutex<Vec<Agg>> = Mutex::new(Vec::new());
    std::thread::scope(|scope| {
        for slot in 0..workers {
            let queue = &queue;
            let capped = &capped;
            let aggs = &aggs;
            scope.spawn(move || {
                let mut agg = Agg::default();
                let mut p: Option<Proc> = None;
                loop {
                    let job = {
                        let mut q = queue.lock().unwrap();
                        if Instant::now() >= sweep_deadline {
                            if !q.is_empty() {
                                capped.store(true, std::sync::atomic::Ordering::Relaxed);
                            }
                            None
                        } else {
                            q.pop_front()
                        }
                    };
                    let job = match job {
                        Some(j) => j,
                        None => break,
                    };
                    let line = json!({"t": "range", "sec": job.sec, "lo": job.lo, "hi": job.hi}).to_string();
                    match drive(&mut p, tier, slot, &line, CASE_CAP, &mut agg) {
                        JobEnd::Done(r) => agg.merge_r(&job.sec, &r),
                        JobEnd::Fatal { inflight: Some(idx), kind, detail } if kind == "hang" || kind == "crash" => {
                            agg.lost += (idx - job.lo) as u64;
                            agg.fatals.push(Fatal { sec: job.sec.clone(), idx, kind, detail });
                            if idx + 1 < job.hi {
                                queue.lock().unwrap().push_front(Job { sec: job.sec.clone(), lo: idx + 1, hi: job.hi });
                            }
                        }
                        JobEnd::Fatal { kind, detail, .. } => {
                            agg.machinery.push(format!("worker {} failed outside a case ({}): {}", slot, kind, detail));
                            break;
                        }
                    }
                }
                if let Some(p) = p {
                    p.kill();
                }
                aggs.lock().unwrap().push(agg);
            });
        }
    });
    let mut agg = Agg::default();
    for a in aggs.into_inner().unwrap() {
        agg.absorb(a);
    }
    let sweep_s = t_start.elapsed().as_secs_f64();
    agg.hashes.sort_unstable();
    agg.hashes.dedup();

    // ---- confirmation and minimisation -------------------------------------------------------
    let post_deadline = hard;
    // (i) panics / span / emit violations: already reproduced on a fresh VM inside the worker
    let mut by_key: BTreeMap<String, Vec<Value>> = BTreeMap::new();
    for v in &agg.violations {
        by_key.entry(v["key"].as_str().unwrap_or("").to_string()).or_default().push(v.clone());
    }
    let n_keys = by_key.len().max(1);
    let mut minimiser: Option<Proc> = None;
    for (key, vs) in &by_key {
        // shortest inputs first
        let mut vs = vs.clone();
        vs.sort_by_key(|v| (v["text"].as_str().map(|s| s.len()).unwrap_or(0), v["sec"].as_str().unwrap_or("").to_string(), v["idx"].as_u64()));
        vs.dedup_by_key(|v| v["text"].as_str().unwrap_or("").to_string());
        for (n, v) in vs.iter().take(2).enumerate() {
            let text = v["text"].as_str().unwrap_or("").to_string();
            let mut minimal = text.clone();
            let left = post_deadline.saturating_duration_since(Instant::now());
            if n == 0 && left > Duration::from_secs(8) {
                let budget = ((left - Duration::from_secs(6)) / 2 / n_keys as u32).min(Duration::from_secs(if tier == "quick" { 2 } else { 30 }));
                let line = json!({"t": "min", "text": text, "key": key, "mode": v["mode"], "budget_ms": budget.as_millis() as u64}).to_string();
                let mut scratch = Agg::default();
                match drive(&mut minimiser, tier, 900, &line, budget + CASE_CAP, &mut scratch) {
                    JobEnd::Done(r) => {
                        if let Some(m) = r["min"].as_str() {
                            minimal = m.to_string();
                        }
                    }
                    JobEnd::Fatal { .. } => {}
                }
            }
            let total_cases = agg.vcounts.get(key).cloned().unwrap_or(1);
            let mode = mode_from(&v["mode"]);
            let via_str = if mode.1 && n == 0 && post_deadline.saturating_duration_since(Instant::now()) > Duration::from_secs(8) {
                let (fatal, viols, _) = run_text_isolated(tier, 905, &minimal, (mode.0, false), CASE_CAP);
                if fatal.is_none() && viols.iter().any(|(k, _)| k == key) {
                    " | ThreadExt::typecheck_str on the same text: same violation"
                } else {
                    " | ThreadExt::typecheck_str on the same text: not the same violation"
                }
            } else {
                ""
            };
            report.violation(
                key.clone(),
                format!(
                    "{} | case: {} | {} case(s) with this key in the sweep | minimised input: {:?}{}",
                    v["what"].as_str().unwrap_or(""),
                    v["desc"].as_str().unwrap_or(""),
                    total_cases,
                    clip(&minimal, 400),
                    via_str
                ),
                json!({"text": minimal, "original_text": text, "expect_key": key, "mode": v["mode"]}),
            );
        }
    }
    if let Some(p) = minimiser {
        p.kill();
    }
    // every case beyond the recorded artefacts still counts
    let extra: u64 = agg.vcounts.values().sum::<u64>().saturating_sub(report.get_u64("violating_cases_total"));
    report.add("violating_cases_total", extra);

    // (ii) crashes and hangs: reproduce in a fresh process, classify, group under a key that
    // names the kind of failure and the input family (not the shrunk text, which depends on the
    // time budget), shrink the first member of each group
    let mut fatals = agg.fatals.clone();
    fatals.sort_by_key(|f| (f.sec.clone(), f.idx));
    // group -> confirmed members (fatal, description, text)
    let mut fatal_groups: BTreeMap<String, Vec<(Fatal, String, String)>> = BTreeMap::new();
    let mut fatal_by_origin: BTreeMap<String, u64> = BTreeMap::new();
    let mut unconfirmed_fatals = 0u64;
    let mut unprocessed_fatals = 0u64;
    let mut seen_origins: HashMap<String, u32> = HashMap::new();
    for f in &fatals {
        let (desc, text) = match space.case(&f.sec, f.idx) {
            Some(c) => c,
            None => {
                report.machinery(format!("fatal case {}#{} cannot be regenerated", f.sec, f.idx));
                continue;
            }
        };
        let class = fatal_class(f.kind, &f.detail);
        let corpus = f.sec.starts_with('m');
        // where the input comes from: ramp shape / corpus file / the literal short text
        let origin = if f.sec == "ramp" {
            format!("ramp:{}", RAMP_SHAPES[f.idx / space.depths.len()])
        } else if corpus {
            let file = desc.split(": ").next().unwrap_or("");
            format!("mutant-of:{}", file.strip_prefix("/repo/").unwrap_or(file))
        } else {
            format!("{:?}", text)
        };
        *fatal_by_origin.entry(format!("{}:{}", class, origin)).or_insert(0) += 1;
        let seen = seen_origins.entry(format!("{}:{}", class, origin)).or_insert(0);
        *seen += 1;
        if *seen > 1 {
            // ramps: a deeper instance of a shape that already failed; corpus: one per file
            continue;
        }
        let confirmed_corpus: usize = fatal_groups.iter().filter(|(k, _)| k.starts_with(&class) && k.ends_with("corpus-mutant")).map(|(_, m)| m.len()).sum();
        if corpus && confirmed_corpus >= 3 {
            continue;
        }
        let left = post_deadline.saturating_duration_since(Instant::now());
        if left < Duration::from_secs(if f.kind == "hang" { 8 } else { 3 }) {
            unprocessed_fatals += 1;
            continue;
        }
        let cap = if f.kind == "hang" { CONFIRM_CAP } else { CASE_CAP };
        let mode = mode_of(&f.sec);
        match run_text_isolated(tier, 901, &text, mode, cap).0 {
            Some((k, d)) if fatal_class(k, &d) == class => {
                let group = format!("{}:{}", class, if corpus { "corpus-mutant" } else { &origin });
                fatal_groups.entry(group).or_default().push((f.clone(), desc, text));
            }
            other => {
                unconfirmed_fatals += 1;
                report.sample(json!({"unconfirmed_fatal": desc, "first": f.detail, "second": format!("{:?}", other)}));
            }
        }
    }
    let n_groups = fatal_groups.len().max(1) as u32;
    for (group, members) in &fatal_groups {
        for (n, (f, desc, text)) in members.iter().enumerate() {
            let class = fatal_class(f.kind, &f.detail);
            let mode = mode_of(&f.sec);
            let left = post_deadline.saturating_duration_since(Instant::now());
            // unbounded recursion, or just deeper than the 8 MiB allow? (informative, not in the key)
            let depth_note = if class == "stack-overflow" && n == 0 && left > Duration::from_secs(6) {
                match run_text_big_stack(tier, 906, text, mode, CASE_CAP).0 {
                    None => format!(" | with a {} MiB stack the same text is processed normally", BIG_STACK_MB),
                    Some((k, d)) if fatal_class(k, &d) == "stack-overflow" => format!(" | a {} MiB stack overflows as well (unbounded recursion)", BIG_STACK_MB),
                    Some(_) => String::new(),
                }
            } else {
                String::new()
            };
            let left = post_deadline.saturating_duration_since(Instant::now());
            let minimal = if f.sec != "ramp" && n == 0 && f.kind != "hang" && left > Duration::from_secs(5) {
                minimise_fatal(tier, 902, text, mode, &class, CASE_CAP, ((left - Duration::from_secs(3)) / 2 / n_groups).min(Duration::from_secs(if tier == "quick" { 4 } else { 120 })))
            } else {
                text.clone()
            };
            let via_str = if mode.1 && post_deadline.saturating_duration_since(Instant::now()) > Duration::from_secs(3) {
                match run_text_isolated(tier, 904, &minimal, (mode.0, false), CASE_CAP).0 {
                    Some((k, d)) if fatal_class(k, &d) == class => " | ThreadExt::typecheck_str on the same text: same outcome",
                    _ => " | ThreadExt::typecheck_str on the same text: different outcome",
                }
            } else {
                ""
            };
            let expectation = if f.kind == "hang" {
                format!("no return after {} s of CPU time (first run) nor after {} s (second run, fresh process): {}", CASE_CAP.as_secs(), CONFIRM_CAP.as_secs(), f.detail)
            } else {
                format!("the worker process died twice while checking this text: {}", f.detail)
            };
            report.violation(
                group.clone(),
                format!(
                    "{} | case: {} | input shrunk as far as the time budget allowed ({} bytes): {:?}{}{}",
                    expectation,
                    desc,
                    minimal.len(),
                    clip(&minimal, 400),
                    depth_note,
                    via_str
                ),
                json!({"text": minimal, "original_text": clip(text, 6000), "expect_fatal": class, "mode": mode_json(mode)}),
            );
        }
    }
    report.set("fatal_cases_by_origin", json!(fatal_by_origin));
    // ---- evidence ----------------------------------------------------------------------------
    let exhaustive = !capped.load(std::sync::atomic::Ordering::Relaxed) && agg.machinery.is_empty() && unprocessed_fatals == 0;
    report.set("evaluations", agg.cases + agg.fatals.len() as u64);
    report.set("distinct_nontrivial", agg.hashes.len() as u64);
    report.set("planned_cases", planned as u64);
    report.set("noop_mutants_skipped", agg.noop);
    report.set("cases_not_counted_after_worker_death", agg.lost);
    report.set("exhaustive", exhaustive);
    report.set(
        "rule",
        format!(
            "every case is one text given to the front end and to parse_partial_root_expr, \
             sections a,c,d: ThreadExt::typecheck_str on a VM without implicit prelude; \
             section b: gluon's default settings (implicit prelude unless the text starts with //@NO-IMPLICIT-PRELUDE; std imports need it), every mutant through <&str as Typecheckable>::typecheck_expected (the function typecheck_str's database query delegates to; ~1 ms per case) \
             and additionally through ThreadExt::typecheck_str itself (~50 ms per case: every call starts a new database revision) for the original and the token-level mutants of the {} corpus files of at most {} bytes; all in a child process with an 8 MiB case stack and a {} s per-case watchdog. \
             Enumerated completely: (a) all token sequences of length <= {} over each of {} 16-token alphabets x 3 layouts (one line / column 0 / staircase); \
             (d) all character strings of length <= {} over {} lexically interesting chars (incl. 2/3/4-byte UTF-8, CR, quotes, comment starts); \
             (b) for each of {} corpus texts ({} .glu files under /repo/std,/examples,/tests/pass,/tests/fail{} + {} printed template programs): the original and EVERY first-order mutant \
             (delete/duplicate token i, swap tokens i,i+1, truncate after token i, truncate at {} , re-indent line j by +1/-1/+4/-4); \
             (c) {} nesting shapes x depths {}. \
             non-trivial = distinct texts (by 64-bit hash, unioned over all workers) on which gluon reported at least one spanned error, i.e. the span and render clauses were exercised.",
            space.sections.iter().filter(|s| s.id.starts_with("mts")).count(),
            if space.tier == "thorough" { 4096 } else { quick_mts_cap() },
            CASE_CAP.as_secs(),
            space.seq_len,
            ALPHABETS.len(),
            space.chars_len,
            CHARS.len(),
            space.files.len(),
            space.files.iter().filter(|f| !f.name.starts_with("template:")).count(),
            if space.skipped_files > 0 { format!(" of at most {} bytes, {} larger files left to the thorough tier", quick_file_cap(), space.skipped_files) } else { String::new() },
            space.files.iter().filter(|f| f.name.starts_with("template:")).count(),
            if space.tier == "thorough" { "every char boundary of the file" } else { "every char boundary inside string/char literals and tokens containing multi-byte characters" },
            RAMP_SHAPES.len(),
            if space.tier == "thorough" { "1..=256".to_string() } else { format!("{:?}", space.depths) },
        ),
    );
    report.set("cases_per_section", json!(agg.per_section));
    report.set("result_classes", json!(agg.classes));
    report.set("error_spans_checked", agg.spans);
    report.set("diagnostic_labels_checked", agg.labels);
    report.set("spans_resolving_to_other_files", agg.other_files);
    report.set("spanless_errors", json!(agg.spanless));
    report.set("violation_cases_by_key", json!(agg.vcounts));
    report.set("not_reproduced_on_fresh_vm", agg.unconfirmed);
    report.set("worker_deaths_or_hangs", agg.fatals.len() as u64);
    report.set("fatal_not_reproduced", unconfirmed_fatals);
    report.set("fatal_not_processed", unprocessed_fatals);
    report.set("worker_processes", workers as u64);
    report.set("sweep_seconds", (sweep_s * 10.0).round() / 10.0);
    if agg.slowest.0 > 0 {
        let desc = space.case(&agg.slowest.1, agg.slowest.2).map(|c| c.0).unwrap_or_default();
        report.set("slowest_case", json!({"ms": agg.slowest.0 / 1000, "case": desc}));
    }
    for u in agg.unconfirmed_samples.iter().take(3) {
        report.sample(json!({"not_reproduced_on_fresh_vm": u}));
    }
    // samples: a few cases of each section with their observed class
    let mut sampler: Option<Proc> = None;
    for (sec, idx) in [("seq0", 70000usize), ("seq1", 50000), ("seq2", 12345), ("chars", 9000), ("ramp", 17), ("mut0", 3), ("mut1", 40)] {
        if let Some((desc, text)) = space.case(sec, idx) {
            let mut scratch = Agg::default();
            let line = json!({"t": "text", "text": text, "mode": mode_json(mode_of(sec))}).to_string();
            let class = if post_deadline.saturating_duration_since(Instant::now()) < Duration::from_secs(2) {
                "(not re-run: out of time)".to_string()
            } else {
                match drive(&mut sampler, tier, 903, &line, CASE_CAP, &mut scratch) {
                    JobEnd::Done(r) => r["classes"].as_object().and_then(|m| m.keys().next().cloned()).unwrap_or_default(),
                    JobEnd::Fatal { kind, .. } => kind.to_string(),
                }
            };
            report.sample(json!({"case": desc, "text": clip(&text, 120), "class": class, "violations": scratch.violations.len()}));
        }
    }
    if let Some(p) = sampler {
        p.kill();
    }
    for m in agg.machinery {
        report.machinery(m);
    }
    report.assume("Errors without any span (Error::VM / Error::IO / Error::Other) are counted under `spanless_errors` but not flagged: the property's span clause is applied to the errors that carry a span.");
    report.assume("A span may resolve to a file other than the text under test (an imported module, the implicit prelude); it is then checked against that file's text. Such spans are counted, not flagged.");
    report.assume(format!("'hang' means: the worker consumed {} s of CPU time on one case without returning (or {} s of wall time), and again {} s of CPU time in a fresh process; 'moderate nesting' means depth <= {} on an {} MiB native stack.", CASE_CAP.as_secs(), CASE_CAP.as_secs() * 12, CONFIRM_CAP.as_secs(), MAX_DEPTH, CASE_STACK >> 20));
    report.assume("The harness is built with debug assertions and overflow checks on; a panic that only a debug assertion produces is reported with that caveat in its description.");
    let _ = std::fs::remove_dir_all(scratch_dir());
    report
}

pub fn replay(v: &Value) -> Report {
    let mut report = Report::new("C09", "replay", "exploration");
    let text = v["text"].as_str().unwrap_or("");
    let cap = if v["expect_fatal"].as_str() == Some("hang") { CONFIRM_CAP } else { CASE_CAP };
    let (fatal, viols, class) = run_text_isolated("quick", 950, text, mode_from(&v["mode"]), cap);
    let _ = std::fs::remove_dir_all(scratch_dir());
    println!("text: {:?}", clip(text, 400));
    match fatal {
        Some((kind, detail)) => {
            println!("worker: {} — {}", kind, detail);
            let class = fatal_class(kind, &detail);
            if v["expect_fatal"].as_str().map(|e| e == class).unwrap_or(true) {
                report.violation(class, detail, v.clone());
            }
        }
        None => {
            println!("class: {}", class);
            for (k, w) in viols {
                println!("violation {} :: {}", k, w);
                if v["expect_key"].as_str().map(|e| e == k).unwrap_or(true) {
                    report.violation(k, w, v.clone());
                }
            }
        }
    }
    report
}
