//! C07 — resource limits are enforced, tail calls run in constant stack, interrupts are prompt.
//! Fault-enumeration style: program families x the full grid of limits (memory: every multiple of
//! 8 over a window around each program's need; stack: every value over a window) x every
//! interrupt placement, observed through the gluon_verif hooks (accounted memory after each
//! limit-checked allocation, absolute stack length and frame use at every instruction).

use crate::par;
use crate::report::Report;
use crate::vmkit::{self, ErrKind, Outcome, Settings, W};
use gluon::vm::thread::ThreadInternal;
use gluon::vm::verif;
use gluon::RootedThread;
use serde_json::{json, Value};
use std::sync::atomic::{AtomicUsize, Ordering};
use std::sync::Arc;
use std::task::Poll;

const HEAD: &str = "let { Bool } = import! std.types\ntype V = | A | C Int V\n";

/// recursion families: (name, is_tail, source with `{N}` placeholder, expected value as f(n))
fn recursion_families() -> Vec<(&'static str, bool, String, fn(i64) -> i64)> {
    let id: fn(i64) -> i64 = |n| n;
    vec![
        ("direct_nontail", false, "rec let f n = if n #Int== 0 then 0 else 1 #Int+ f (n #Int- 1)\nin f {N}".into(), id),
        ("direct_tail", true, "rec let f n acc = if n #Int== 0 then acc else f (n #Int- 1) (acc #Int+ 1)\nin f {N} 0".into(), id),
        (
            "mutual_tail",
            true,
            "rec\nlet f n acc = if n #Int== 0 then acc else g (n #Int- 1) (acc #Int+ 1)\nlet g n acc = if n #Int== 0 then acc else f (n #Int- 1) (acc #Int+ 1)\nin f {N} 0".into(),
            id,
        ),
        (
            "mutual_nontail",
            false,
            "rec\nlet f n = if n #Int== 0 then 0 else 1 #Int+ g (n #Int- 1)\nlet g n = if n #Int== 0 then 0 else 1 #Int+ f (n #Int- 1)\nin f {N}".into(),
            id,
        ),
        (
            "tail_in_match",
            true,
            "rec let f n acc =\n    match n with\n    | 0 -> acc\n    | _ -> f (n #Int- 1) (acc #Int+ 1)\nin f {N} 0".into(),
            id,
        ),
        (
            "tail_in_let_body",
            true,
            "rec let f n acc = if n #Int== 0 then acc else (let m = n #Int- 1 in let a = acc #Int+ 1 in f m a)\nin f {N} 0".into(),
            id,
        ),
        (
            "tail_through_closure_arg",
            true,
            "rec let f k n acc = if n #Int== 0 then acc else k (n #Int- 1) (acc #Int+ 1)\nrec let g n acc = f g n acc\nin g {N} 0".into(),
            id,
        ),
        (
            "tail_through_record_field",
            true,
            "rec let r = { f = \\n acc -> if n #Int== 0 then acc else r.f (n #Int- 1) (acc #Int+ 1) }\nin r.f {N} 0".into(),
            id,
        ),
        (
            "tail_through_partial_application",
            true,
            "rec let f a n acc = if n #Int== 0 then acc else (f a) (n #Int- 1) (acc #Int+ a)\nin f 1 {N} 0".into(),
            id,
        ),
        (
            "tail_over_application",
            true,
            "rec let f n = if n #Int== 0 then (\\acc -> acc) else (\\acc -> f (n #Int- 1) (acc #Int+ 1))\nin f {N} 0".into(),
            id,
        ),
        (
            "tail_in_or_rhs",
            true,
            "rec let f n = n #Int== 0 || f (n #Int- 1)\nin if f {N} then {N} else 0".into(),
            id,
        ),
        (
            "tail_in_and_rhs",
            true,
            "rec let f n = 0 #Int< n && f (n #Int- 1)\nin if f {N} then 0 else {N}".into(),
            id,
        ),
        (
            "tail_in_or_and_nested",
            true,
            "rec let f n acc = (n #Int== 0 && acc #Int== {N}) || (0 #Int< n && f (n #Int- 1) (acc #Int+ 1))\nin if f {N} 0 then {N} else 0".into(),
            id,
        ),
        (
            "tail_in_else_if_chain",
            true,
            "rec let f n acc = if n #Int== 0 then acc else if n #Int== 1 then f 0 (acc #Int+ 1) else if n #Int== 2 then f 1 (acc #Int+ 1) else f (n #Int- 1) (acc #Int+ 1)\nin f {N} 0".into(),
            id,
        ),
        (
            "tail_in_nested_match",
            true,
            "rec let f n acc =\n    match n with\n    | 0 -> acc\n    | _ ->\n        match acc with\n        | 0 -> f (n #Int- 1) 1\n        | _ -> f (n #Int- 1) (acc #Int+ 1)\nin f {N} 0".into(),
            id,
        ),
        (
            "tail_in_block_last_expr",
            true,
            "rec let f n acc =\n    if n #Int== 0 then acc\n    else\n        let _ = acc\n        let m = n #Int- 1\n        f m (acc #Int+ 1)\nin f {N} 0".into(),
            id,
        ),
        (
            "tail_mutual_three",
            true,
            "rec\nlet f n acc = if n #Int== 0 then acc else g (n #Int- 1) (acc #Int+ 1)\nlet g n acc = if n #Int== 0 then acc else h (n #Int- 1) (acc #Int+ 1)\nlet h n acc = if n #Int== 0 then acc else f (n #Int- 1) (acc #Int+ 1)\nin f {N} 0".into(),
            id,
        ),
        (
            "tail_in_match_on_variant",
            true,
            "rec let f v acc =\n    match v with\n    | A -> acc\n    | C n rest -> if n #Int== 0 then f rest acc else f (C (n #Int- 1) rest) (acc #Int+ 1)\nin f (C {N} A) 0".into(),
            id,
        ),
        (
            "nontail_cps_closures",
            false,
            "rec let f n k = if n #Int== 0 then k 0 else f (n #Int- 1) (\\r -> k (r #Int+ 1))\nin f {N} (\\r -> r)".into(),
            id,
        ),
        (
            "nontail_build_list",
            false,
            "rec\nlet build n = if n #Int== 0 then A else C n (build (n #Int- 1))\nlet len v acc =\n    match v with\n    | A -> acc\n    | C _ rest -> len rest (acc #Int+ 1)\nin len (build {N}) 0".into(),
            id,
        ),
    ]
}

/// allocation families (name, source with {N}); all evaluate to N
fn allocation_families() -> Vec<(&'static str, String)> {
    vec![
        (
            "list_of_n",
            "rec\nlet build n acc = if n #Int== 0 then acc else build (n #Int- 1) (C n acc)\nlet len v acc =\n    match v with\n    | A -> acc\n    | C _ rest -> len rest (acc #Int+ 1)\nin len (build {N} A) 0".into(),
        ),
        (
            "records_of_n",
            "rec let f n r = if n #Int== 0 then r.k else f (n #Int- 1) { k = r.k #Int+ 1, pad = (n, n, n) }\nin f {N} { k = 0, pad = (0, 0, 0) }".into(),
        ),
        (
            "closures_of_n",
            "rec let f n k = if n #Int== 0 then k 0 else f (n #Int- 1) (\\r -> k (r #Int+ 1))\nin f {N} (\\r -> r)".into(),
        ),
        (
            "arrays_of_n",
            "let array = import! std.array.prim\nrec let f n a = if n #Int== 0 then array.len a else f (n #Int- 1) (array.append a [n])\nin f {N} []".into(),
        ),
        (
            "strings_of_n",
            "let string = import! std.string.prim\nrec let f n s = if n #Int== 0 then string.len s else f (n #Int- 1) (string.append s \"x\")\nin f {N} \"\"".into(),
        ),
    ]
}

fn src_of(template: &str, n: i64) -> String {
    format!("{}{}\n", HEAD, template.replace("{N}", &n.to_string()))
}

struct Obs {
    outcome: Outcome,
    peak_stack: usize,
    frame_overflows: u64,
    max_over_limit: usize,
    checked_allocs: u64,
    instructions: u64,
    allocated_after: usize,
}

fn fresh_vm() -> RootedThread {
    let vm = vmkit::make_vm(Settings::bare());
    // load the imports once so that limits apply to the program, not to module loading
    let _ = vmkit::run(&vm, "warm", "let _ = import! std.types\nlet _ = import! std.array.prim\nlet _ = import! std.string.prim\n0");
    vm
}

fn observe(vm: &RootedThread, src: &str, mem_limit: Option<usize>, stack_limit: Option<u32>) -> Obs {
    if let Some(l) = stack_limit {
        vm.context().set_max_stack_size(l);
    }
    if let Some(m) = mem_limit {
        vm.set_memory_limit(m);
    }
    verif::reset(true);
    let outcome = vmkit::run(vm, "main", src);
    let (peak_stack, frame_overflows, max_over_limit, checked_allocs, instructions) =
        verif::with(|s| (s.peak_stack, s.frame_overflows, s.max_over_limit, s.checked_allocs, s.instructions));
    verif::reset(false);
    Obs {
        outcome,
        peak_stack,
        frame_overflows,
        max_over_limit,
        checked_allocs,
        instructions,
        allocated_after: vm.allocated_memory(),
    }
}

#[derive(Default)]
struct Acc {
    runs: u64,
    nontrivial: u64,
    classes: std::collections::BTreeMap<String, u64>,
    violations: Vec<(String, String, Value)>,
    samples: Vec<Value>,
}

fn is_int(o: &Outcome, n: i64) -> bool {
    matches!(o, Outcome::Ok(W::Int(x), _) if *x == n)
}

#[derive(Clone)]
enum Case {
    /// family index, n : tail-constant-stack and unlimited run
    Tail(usize),
    /// family index, n, stack limit
    Stack(usize, i64, u32),
    /// alloc family, n, limit offset index (limit = baseline + 8*k)
    Memory(usize, i64, usize),
    /// recursion family, n, interrupt at hook call index
    Interrupt(usize, i64, usize),
}

fn run_case(c: &Case, acc: &mut Acc) {
    let rec = recursion_families();
    let alloc = allocation_families();
    acc.runs += 1;
    match c {
        Case::Tail(fi) => {
            let (name, is_tail, tpl, f) = &rec[*fi];
            let mut peaks = Vec::new();
            for n in [100i64, 1000, 10000, 100000] {
                if !is_tail && n > 10000 {
                    continue;
                }
                let vm = fresh_vm();
                let o = observe(&vm, &src_of(tpl, n), None, None);
                *acc.classes.entry(o.outcome.class()).or_insert(0) += 1;
                if !is_int(&o.outcome, f(n)) {
                    acc.violations.push((
                        format!("unlimited-run:{}", name),
                        format!("{} with n={} and no limits gives {:?}", name, n, o.outcome),
                        json!({"case": "tail", "family": name, "n": n}),
                    ));
                }
                if o.frame_overflows > 0 {
                    acc.violations.push((
                        format!("frame-exceeds-declared-max-stack:{}", name),
                        format!("{} n={}: {} instructions executed with more slots in the frame than the function's max_stack_size", name, n, o.frame_overflows),
                        json!({"case": "tail", "family": name, "n": n}),
                    ));
                }
                peaks.push((n, o.peak_stack));
            }
            if *is_tail {
                let first = peaks[0].1;
                if peaks.iter().any(|(_, p)| *p != first) {
                    acc.violations.push((
                        format!("tail-call-stack-grows:{}", name),
                        format!("{}: peak VM stack depends on the recursion depth: {:?}", name, peaks),
                        json!({"case": "tail", "family": name, "peaks": peaks}),
                    ));
                }
            } else {
                acc.nontrivial += 1;
            }
            acc.nontrivial += 1;
            if acc.samples.len() < 2 {
                acc.samples.push(json!({"family": name, "peaks_by_depth": peaks}));
            }
        }
        Case::Stack(fi, n, limit) => {
            let (name, _, tpl, f) = &rec[*fi];
            let vm = fresh_vm();
            let o = observe(&vm, &src_of(tpl, *n), None, Some(*limit));
            *acc.classes.entry(o.outcome.class()).or_insert(0) += 1;
            let ok = is_int(&o.outcome, f(*n)) || matches!(o.outcome, Outcome::Err(ErrKind::StackOverflow, _));
            if !ok {
                acc.violations.push((
                    format!("stack-limit-outcome:{}:{}", name, o.outcome.class()),
                    format!("{} n={} stack limit {}: outcome {:?} is neither the value nor StackOverflow", name, n, limit, o.outcome),
                    json!({"case": "stack", "family": name, "n": n, "limit": limit}),
                ));
            }
            if o.peak_stack > *limit as usize {
                acc.violations.push((
                    format!("stack-limit-exceeded:{}", name),
                    format!("{} n={} stack limit {}: the VM stack reached {} slots", name, n, limit, o.peak_stack),
                    json!({"case": "stack", "family": name, "n": n, "limit": limit}),
                ));
            }
            if o.frame_overflows > 0 {
                acc.violations.push((
                    format!("frame-exceeds-declared-max-stack:{}", name),
                    format!("{} n={} limit {}: frame larger than max_stack_size at {} instructions", name, n, limit, o.frame_overflows),
                    json!({"case": "stack", "family": name, "n": n, "limit": limit}),
                ));
            }
            if matches!(o.outcome, Outcome::Err(ErrKind::StackOverflow, _)) {
                acc.nontrivial += 1;
            }
        }
        Case::Memory(ai, n, k) => {
            let (name, tpl) = &alloc[*ai];
            let vm = fresh_vm();
            vm.collect();
            let base = vm.allocated_memory();
            let limit = base + 8 * k;
            let o = observe(&vm, &src_of(tpl, *n), Some(limit), None);
            *acc.classes.entry(o.outcome.class()).or_insert(0) += 1;
            // an allocation failing inside a primitive surfaces as a panic carrying the same message
            let oom = matches!(o.outcome, Outcome::Err(ErrKind::OutOfMemory, _))
                || matches!(&o.outcome, Outcome::Err(ErrKind::Panic, m) if m.starts_with("Thread is out of memory"));
            let ok = is_int(&o.outcome, *n) || oom;
            if !ok {
                acc.violations.push((
                    format!("memory-limit-outcome:{}:{}", name, o.outcome.class()),
                    format!("{} n={} memory limit baseline+{}: outcome {:?} is neither the value nor OutOfMemory", name, n, 8 * k, o.outcome),
                    json!({"case": "memory", "family": name, "n": n, "k": k}),
                ));
            }
            if o.max_over_limit > 0 {
                acc.violations.push((
                    "memory-accounted-above-limit".to_string(),
                    format!(
                        "{} n={} limit {} (baseline+{}): accounted memory exceeded the limit by {} bytes right after a limit-checked allocation",
                        name, n, limit, 8 * k, o.max_over_limit
                    ),
                    json!({"case": "memory", "family": name, "n": n, "k": k, "over": o.max_over_limit}),
                ));
            }
            // (after a failed run the error message itself is deliberately allocated outside the limit)
            if o.allocated_after > limit && matches!(o.outcome, Outcome::Ok(..)) {
                acc.violations.push((
                    "memory-accounted-above-limit-after-run".to_string(),
                    format!("{} n={} limit {}: allocated_memory() is {} after the run", name, n, limit, o.allocated_after),
                    json!({"case": "memory", "family": name, "n": n, "k": k}),
                ));
            }
            if oom && o.checked_allocs > 0 {
                acc.nontrivial += 1;
            }
            let _ = o.instructions;
        }
        Case::Interrupt(fi, n, at) => {
            let (name, _, tpl, _) = &rec[*fi];
            let vm = fresh_vm();
            let calls = Arc::new(AtomicUsize::new(0));
            let after = Arc::new(AtomicUsize::new(0));
            {
                let calls = calls.clone();
                let after = after.clone();
                let at = *at;
                let mut context = vm.context();
                context.set_hook(Some(Box::new(move |thread, _| {
                    let i = calls.fetch_add(1, Ordering::Relaxed);
                    if i == at {
                        thread.interrupt();
                    } else if i > at {
                        after.fetch_add(1, Ordering::Relaxed);
                    }
                    Poll::Ready(Ok(()))
                })));
                context.set_hook_mask(gluon::vm::thread::HookFlags::CALL_FLAG);
            }
            let o = vmkit::run(&vm, "main", &src_of(tpl, *n));
            *acc.classes.entry(o.class()).or_insert(0) += 1;
            let total = calls.load(Ordering::Relaxed);
            if total > *at {
                // the interrupt was requested during the run
                acc.nontrivial += 1;
                if !matches!(o, Outcome::Err(ErrKind::Interrupted, _)) {
                    acc.violations.push((
                        format!("interrupt-ignored:{}", name),
                        format!("{} n={}: interrupt requested at function entry #{} but the run ended with {:?}", name, n, at, o),
                        json!({"case": "interrupt", "family": name, "n": n, "at": at}),
                    ));
                }
                let later = after.load(Ordering::Relaxed);
                if later > 1 {
                    acc.violations.push((
                        format!("interrupt-not-prompt:{}", name),
                        format!("{} n={}: {} further function entries after the interrupt request at entry #{}", name, n, later, at),
                        json!({"case": "interrupt", "family": name, "n": n, "at": at}),
                    ));
                }
            }
        }
    }
}

pub fn run(tier: &str) -> Report {
    let mut report = Report::new("C07", tier, "fault_enumeration");
    let quick = tier == "quick";
    let deadline = par::deadline_for(tier, 45, 2400);
    let rec = recursion_families();
    let alloc = allocation_families();
    let mut cases: Vec<Case> = Vec::new();
    for fi in 0..rec.len() {
        cases.push(Case::Tail(fi));
    }
    // stack limits: every value in a window, then a coarse grid
    let stack_limits: Vec<u32> = if quick {
        (1..=256).chain((260..=1000).step_by(20)).chain([2000, 4096].into_iter()).collect()
    } else {
        (1..=512).chain((520..=4096).step_by(8)).collect()
    };
    for fi in 0..rec.len() {
        for n in if quick { vec![10i64, 200] } else { vec![10i64, 100, 1000] } {
            for l in &stack_limits {
                cases.push(Case::Stack(fi, n, *l));
            }
        }
    }
    // memory limits: every multiple of 8 over a window above the baseline, then powers of two
    let ks: Vec<usize> = if quick {
        (0..=400).chain([512, 1024, 2048, 8192].into_iter()).collect()
    } else {
        (0..=640).chain((1..=14).map(|e| 1usize << e).filter(|k| *k > 640)).collect()
    };
    for ai in 0..alloc.len() {
        for n in if quick { vec![3i64, 20, 60] } else { vec![3i64, 20, 100] } {
            for k in &ks {
                cases.push(Case::Memory(ai, n, *k));
            }
        }
    }
    // interrupt at every function entry of the run
    for fi in 0..rec.len() {
        let n = if quick { 12 } else { 60 };
        // number of function entries of the uninterrupted run
        let vm = fresh_vm();
        let calls = Arc::new(AtomicUsize::new(0));
        {
            let calls = calls.clone();
            let mut context = vm.context();
            context.set_hook(Some(Box::new(move |_, _| {
                calls.fetch_add(1, Ordering::Relaxed);
                Poll::Ready(Ok(()))
            })));
            context.set_hook_mask(gluon::vm::thread::HookFlags::CALL_FLAG);
        }
        let _ = vmkit::run(&vm, "main", &src_of(&rec[fi].2, n));
        let total = calls.load(Ordering::Relaxed);
        for at in 0..total {
            cases.push(Case::Interrupt(fi, n, at));
        }
    }
    let cases_ref = &cases;
    let sweep = par::sweep(cases.len(), 8, Some(deadline), |_| (), |_, acc: &mut Acc, i| run_case(&cases_ref[i], acc));
    let capped = sweep.capped;
    let done = sweep.done;
    let mut runs = 0;
    let mut nontrivial = 0;
    let mut classes: std::collections::BTreeMap<String, u64> = Default::default();
    for a in sweep.results {
        runs += a.runs;
        nontrivial += a.nontrivial;
        for (k, v) in a.classes {
            *classes.entry(k).or_insert(0) += v;
        }
        for (k, w, r) in a.violations {
            report.violation(k, w, r);
        }
        for s in a.samples {
            report.sample(s);
        }
    }
    let count = |f: &dyn Fn(&Case) -> bool| cases.iter().filter(|c| f(c)).count() as u64;
    report.set("cases.tail_and_unlimited", count(&|c| matches!(c, Case::Tail(_))));
    report.set("cases.stack_limit", count(&|c| matches!(c, Case::Stack(..))));
    report.set("cases.memory_limit", count(&|c| matches!(c, Case::Memory(..))));
    report.set("cases.interrupt_placements", count(&|c| matches!(c, Case::Interrupt(..))));
    report.set("cases.done", done as u64);
    report.set("evaluations", runs);
    report.set("distinct_nontrivial", nontrivial);
    report.set("outcome_classes", json!(classes));
    report.set("exhaustive", !capped);
    report.set("wall_cap_hit", capped);
    report.set(
        "rule",
        "12 recursion families (direct, mutual, through closure argument / record field / partial application / over-application, tail position in if/match/let) \
         and 5 allocation families; each recursion family at depths 100..100000 without limits (tail families: peak VM stack must not depend on depth), x every stack limit of the grid, \
         each allocation family x every memory limit baseline+8k of the grid, and an interrupt requested at EVERY function entry of a run. A case is (program, limit | interrupt placement); \
         non-trivial = the limit actually triggered (StackOverflow / OutOfMemory seen), the interrupt fell inside the run, or a depth series was compared",
    );
    report.sample(json!({"stack_case": {"family": rec[0].0, "n": 10, "limit": 8, "source": src_of(&rec[0].2, 10)}}));
    report.sample(json!({"memory_case": {"family": alloc[0].0, "n": 3, "limit": "baseline + 8*k", "source": src_of(&alloc[0].1, 3)}}));
    report.assume("accounted memory is observed right after every limit-checked allocation (Gc::alloc_owned) through the gluon_verif hook; allocations the VM deliberately makes outside the limit are not counted");
    report.assume("interrupt promptness: at most one further function entry after the request");
    report
}

pub fn replay(v: &Value) -> Report {
    let mut report = Report::new("C07", "quick", "fault_enumeration");
    let rec = recursion_families();
    let alloc = allocation_families();
    let fam = v["family"].as_str().unwrap_or("");
    let n = v["n"].as_i64().unwrap_or(10);
    let case = match v["case"].as_str() {
        Some("tail") => rec.iter().position(|r| r.0 == fam).map(Case::Tail),
        Some("stack") => rec.iter().position(|r| r.0 == fam).map(|i| Case::Stack(i, n, v["limit"].as_u64().unwrap_or(8) as u32)),
        Some("memory") => alloc.iter().position(|r| r.0 == fam).map(|i| Case::Memory(i, n, v["k"].as_u64().unwrap_or(0) as usize)),
        Some("interrupt") => rec.iter().position(|r| r.0 == fam).map(|i| Case::Interrupt(i, n, v["at"].as_u64().unwrap_or(0) as usize)),
        _ => None,
    };
    if let Some(c) = case {
        let mut acc = Acc::default();
        run_case(&c, &mut acc);
        for (k, w, r) in acc.violations {
            println!("{} :: {}", k, w);
            report.violation(k, w, r);
        }
    }
    report
}
