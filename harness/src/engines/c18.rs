//! C18 — printed types read back as the same type.
//!
//! Every type up to a size bound is built through the `gluon_base::types` constructors, printed with
//! the real pretty printer (`TypeFormatter`, the `Display` path) at every width in
//! {20..=60} ∪ {80,100,140,200}, the text is embedded the way gluon itself embeds printed types
//! (`vm/src/api/typ.rs::make_source`: after `type N = ` / `let _ : ` with continuation lines nested by
//! 4), parsed back with the real parser and both the original and the re-read type are mapped to a
//! small harness-side normal form by ONE generic function; the normal forms must be equal.

use crate::par;
use crate::report::Report;
use gluon_base::ast::{DisplayEnv, Expr, IdentEnv, SpannedExpr, ValueBindings};
use gluon_base::kind::Kind;
use gluon_base::mk_ast_arena;
use gluon_base::symbol::Name;
use gluon_base::types::{
    Alias, ArcType, ArgType, Field, Generic, KindedIdent, Type, TypeCache, TypeFormatter, TypePtr,
};
use serde_derive::{Deserialize, Serialize};
use serde_json::{json, Value};
use std::collections::{BTreeMap, HashMap, HashSet};
use std::rc::Rc;

// ------------------------------------------------------------------------------------------------
// The enumerated space: a plain description of a type (what to build through gluon's constructors)
// ------------------------------------------------------------------------------------------------

#[derive(Clone, Copy, Debug, PartialEq, Eq, Hash, PartialOrd, Ord, Serialize, Deserialize)]
pub enum Leaf {
    Int,
    Float,
    Str,
    Char,
    Byte,
    /// `()` = record without fields
    Unit,
    /// `_`
    Hole,
    /// generic `a`
    A,
    /// generic `b`
    B,
    /// `Type::Ident` (upper case)
    T,
    U,
    /// `Type::Alias` printed by its name
    Alias,
    /// `Type::Projection` m.P
    Proj,
    /// the function type constructor `(->)`
    FnCtor,
}

#[derive(Clone, Copy, Debug, PartialEq, Eq, Hash, PartialOrd, Ord, Serialize, Deserialize)]
pub enum Head {
    /// upper-case identifier
    Con,
    /// generic `f`
    Gen,
    /// builtin `Array`
    Array,
    /// `(->) a`
    FnCtor,
    Alias,
    Proj,
}

#[derive(Clone, Debug, PartialEq, Eq, Hash, PartialOrd, Ord, Serialize, Deserialize)]
pub enum Ctor {
    /// `| A t1 t2` : constructor arguments, result `Type::Opaque`
    Simple(Vec<Ty>),
    /// `| A : t1 -> t2 -> V a` (optionally `forall b . ...`)
    Gadt { forall: bool, args: Vec<Ty> },
}

#[derive(Clone, Debug, PartialEq, Eq, Hash, PartialOrd, Ord, Serialize, Deserialize)]
pub enum Ty {
    Leaf(Leaf),
    Fun(Box<Ty>, Box<Ty>),
    Imp(Box<Ty>, Box<Ty>),
    /// `App(Builtin(->), [a, b])`, gluon's other representation of a function type
    FunApp(Box<Ty>, Box<Ty>),
    /// forall with 1 or 2 binders
    Forall(u8, Box<Ty>),
    App(Head, Vec<Ty>),
    /// `App(App(h, [x]), [y])`
    NestApp(Head, Box<Ty>, Box<Ty>),
    Record {
        /// type field `Tf = ty` / `Tf a = ty` (bool: has a parameter)
        tf: Option<(bool, Box<Ty>)>,
        /// (operator name?, type)
        fields: Vec<(bool, Ty)>,
        open: bool,
        /// fields split over two `ExtendRow` nodes (what row unification builds)
        split: bool,
    },
    Tuple(Vec<Ty>),
    Effect { fields: Vec<Ty>, open: bool },
    /// `(.. r)`
    OpenVariant,
    /// only generated at the top or directly under a top-level forall
    Variant { ctors: Vec<Ctor>, open: bool },
}

fn leaf_cost(l: Leaf) -> usize {
    match l {
        Leaf::Int | Leaf::A | Leaf::T => 1,
        Leaf::Unit | Leaf::B | Leaf::Str | Leaf::Hole | Leaf::Alias | Leaf::U => 2,
        Leaf::Float | Leaf::Char | Leaf::Byte | Leaf::Proj | Leaf::FnCtor => 3,
    }
}
const LEAVES: [Leaf; 14] = [
    Leaf::Int,
    Leaf::A,
    Leaf::T,
    Leaf::Unit,
    Leaf::B,
    Leaf::Str,
    Leaf::Hole,
    Leaf::Alias,
    Leaf::U,
    Leaf::Float,
    Leaf::Char,
    Leaf::Byte,
    Leaf::Proj,
    Leaf::FnCtor,
];
fn head_cost(h: Head) -> usize {
    match h {
        Head::Con => 1,
        Head::Gen | Head::Array => 2,
        Head::FnCtor | Head::Alias | Head::Proj => 3,
    }
}
const HEADS: [Head; 6] = [Head::Con, Head::Gen, Head::Array, Head::FnCtor, Head::Alias, Head::Proj];

pub fn size(t: &Ty) -> usize {
    match t {
        Ty::Leaf(l) => leaf_cost(*l),
        Ty::Fun(a, b) | Ty::Imp(a, b) => 1 + size(a) + size(b),
        Ty::FunApp(a, b) => 2 + size(a) + size(b),
        Ty::Forall(k, b) => *k as usize + size(b),
        Ty::App(h, args) => head_cost(*h) + args.iter().map(size).sum::<usize>(),
        Ty::NestApp(h, x, y) => head_cost(*h) + 1 + size(x) + size(y),
        Ty::Record { tf, fields, open, split } => {
            1 + tf.as_ref().map_or(0, |(p, b)| 1 + *p as usize + size(b))
                + fields.iter().map(|(op, t)| 1 + *op as usize + size(t)).sum::<usize>()
                + *open as usize
                + *split as usize
        }
        Ty::Tuple(es) => 1 + es.iter().map(size).sum::<usize>(),
        Ty::Effect { fields, open } => 1 + fields.iter().map(|t| 1 + size(t)).sum::<usize>() + *open as usize,
        Ty::OpenVariant => 2,
        Ty::Variant { ctors, open } => 1 + ctors.iter().map(ctor_size).sum::<usize>() + *open as usize,
    }
}
fn ctor_size(c: &Ctor) -> usize {
    match c {
        Ctor::Simple(args) => 1 + args.iter().map(size).sum::<usize>(),
        Ctor::Gadt { forall, args } => 2 + *forall as usize + args.iter().map(size).sum::<usize>(),
    }
}

/// All types of each size, built bottom-up. Sizes up to `memoised()` are kept; larger ones are
/// generated on the fly (only single-child constructs ever need the size just below the current one).
pub struct Space {
    by_size: Vec<Rc<Vec<Ty>>>,
}

impl Space {
    pub fn new() -> Space {
        Space { by_size: vec![Rc::new(Vec::new())] }
    }
    /// makes sure sizes 1..=n are memoised
    pub fn fill(&mut self, n: usize) {
        while self.by_size.len() <= n {
            let k = self.by_size.len();
            let mut v = Vec::new();
            self.gen(k, &mut |t| {
                v.push(t);
                true
            });
            self.by_size.push(Rc::new(v));
        }
    }
    fn each(&self, m: usize, f: &mut dyn FnMut(&Ty) -> bool) -> bool {
        if m < self.by_size.len() {
            for t in self.by_size[m].iter() {
                if !f(t) {
                    return false;
                }
            }
            true
        } else {
            self.gen(m, &mut |t| f(&t))
        }
    }
    /// sequences of `k` types with total size `m`
    fn seqs(&self, k: usize, m: usize, f: &mut dyn FnMut(&[Ty]) -> bool) -> bool {
        fn go(sp: &Space, k: usize, m: usize, cur: &mut Vec<Ty>, f: &mut dyn FnMut(&[Ty]) -> bool) -> bool {
            if k == 0 {
                return if m == 0 { f(cur) } else { true };
            }
            if m < k {
                return true;
            }
            for s in 1..=(m - (k - 1)) {
                let ok = sp.each(s, &mut |t| {
                    cur.push(t.clone());
                    let ok = go(sp, k - 1, m - s, cur, f);
                    cur.pop();
                    ok
                });
                if !ok {
                    return false;
                }
            }
            true
        }
        go(self, k, m, &mut Vec::new(), f)
    }
    /// general-position types of size exactly `n`
    fn gen(&self, n: usize, emit: &mut dyn FnMut(Ty) -> bool) -> bool {
        macro_rules! e {
            ($t:expr) => {
                if !emit($t) {
                    return false;
                }
            };
        }
        macro_rules! all {
            ($x:expr) => {
                if !$x {
                    return false;
                }
            };
        }
        for l in LEAVES {
            if leaf_cost(l) == n {
                e!(Ty::Leaf(l));
            }
        }
        if n == 2 {
            e!(Ty::OpenVariant);
        }
        // functions: Function(Explicit), Function(Implicit), App((->), [a, b])
        for (extra, kind) in [(1usize, 0u8), (1, 1), (2, 2)] {
            if n > extra + 1 {
                all!(self.seqs(2, n - extra, &mut |xy| {
                    let (x, y) = (Box::new(xy[0].clone()), Box::new(xy[1].clone()));
                    emit(match kind {
                        0 => Ty::Fun(x, y),
                        1 => Ty::Imp(x, y),
                        _ => Ty::FunApp(x, y),
                    })
                }));
            }
        }
        // forall
        for k in 1..=2usize {
            if n > k {
                all!(self.each(n - k, &mut |b| emit(Ty::Forall(k as u8, Box::new(b.clone())))));
            }
        }
        // applications
        for h in HEADS {
            let hc = head_cost(h);
            if n > hc {
                let max_args = if h == Head::Array || h == Head::FnCtor { 1 } else { 3 };
                for k in 1..=max_args {
                    all!(self.seqs(k, n - hc, &mut |args| emit(Ty::App(h, args.to_vec()))));
                }
            }
            if (h == Head::Con || h == Head::Gen) && n > hc + 2 {
                all!(self.seqs(2, n - hc - 1, &mut |xy| emit(Ty::NestApp(h, Box::new(xy[0].clone()), Box::new(xy[1].clone())))));
            }
        }
        // records
        for open in [false, true] {
            for nf in 0..=3usize {
                // type field variants: none | Tf = t | Tf a = t
                for tfk in 0..=2usize {
                    for split in [false, true] {
                        if split && nf < 2 {
                            continue;
                        }
                        if nf == 0 && tfk == 0 && !open {
                            continue; // that is Leaf::Unit
                        }
                        // operator-name masks
                        for mask in 0..(1usize << nf) {
                            let fixed = 1 + open as usize + split as usize + nf + mask.count_ones() as usize + tfk;
                            let comps = nf + (tfk != 0) as usize;
                            if n < fixed + comps {
                                continue;
                            }
                            all!(self.seqs(comps, n - fixed, &mut |parts| {
                                let mut parts = parts.to_vec();
                                let tf = if tfk != 0 {
                                    let b = parts.remove(0);
                                    Some((tfk == 2, Box::new(b)))
                                } else {
                                    None
                                };
                                let fields = parts.into_iter().enumerate().map(|(i, t)| (mask >> i & 1 == 1, t)).collect();
                                emit(Ty::Record { tf, fields, open, split })
                            }));
                        }
                    }
                }
            }
        }
        // tuples (the 1-tuple = record `{ _0 : t }` is generated at the top only, see gen_top_only)
        for k in 2..=3usize {
            if n > k {
                all!(self.seqs(k, n - 1, &mut |es| emit(Ty::Tuple(es.to_vec()))));
            }
        }
        // effect rows
        for open in [false, true] {
            for k in 0..=2usize {
                let fixed = 1 + open as usize + k;
                if n >= fixed + k {
                    all!(self.seqs(k, n - fixed, &mut |fields| emit(Ty::Effect { fields: fields.to_vec(), open })));
                }
            }
        }
        true
    }

    /// constructors of size exactly m
    fn ctors(&self, m: usize, f: &mut dyn FnMut(Ctor) -> bool) -> bool {
        for k in 0..=2usize {
            if m >= 1 + k && !self.seqs(k, m - 1, &mut |args| f(Ctor::Simple(args.to_vec()))) {
                return false;
            }
            for forall in [false, true] {
                let fixed = 2 + forall as usize;
                if m >= fixed + k && !self.seqs(k, m - fixed, &mut |args| f(Ctor::Gadt { forall, args: args.to_vec() })) {
                    return false;
                }
            }
        }
        true
    }

    /// variants of size exactly m
    fn variants(&self, m: usize, emit: &mut dyn FnMut(Ty) -> bool) -> bool {
        fn go(sp: &Space, k: usize, left: usize, open: bool, cur: &mut Vec<Ctor>, emit: &mut dyn FnMut(Ty) -> bool) -> bool {
            if k == 0 {
                return if left == 0 { emit(Ty::Variant { ctors: cur.clone(), open }) } else { true };
            }
            if left < k {
                return true;
            }
            for s in 1..=(left - (k - 1)) {
                let ok = sp.ctors(s, &mut |c| {
                    cur.push(c);
                    let ok = go(sp, k - 1, left - s, open, cur, emit);
                    cur.pop();
                    ok
                });
                if !ok {
                    return false;
                }
            }
            true
        }
        for open in [false, true] {
            for k in 1..=3usize {
                let fixed = 1 + open as usize;
                if m >= fixed + k && !go(self, k, m - fixed, open, &mut Vec::new(), emit) {
                    return false;
                }
            }
        }
        true
    }

    /// top-level-only types of size exactly n: variants, variants under a forall, the 1-tuple
    fn gen_top_only(&self, n: usize, emit: &mut dyn FnMut(Ty) -> bool) -> bool {
        if !self.variants(n, emit) {
            return false;
        }
        for k in 1..=2usize {
            if n > k && !self.variants(n - k, &mut |t| emit(Ty::Forall(k as u8, Box::new(t)))) {
                return false;
            }
        }
        // the record `{ _0 : t }`
        if n >= 2 && !self.each(n - 1, &mut |t| emit(Ty::Tuple(vec![t.clone()]))) {
            return false;
        }
        true
    }

    /// every top-level case of size exactly n
    pub fn produce(&self, n: usize, emit: &mut dyn FnMut(Ty) -> bool) -> bool {
        self.each(n, &mut |t| emit(t.clone())) && self.gen_top_only(n, emit)
    }
}

// ------------------------------------------------------------------------------------------------
// Names (two profiles: short names, long names so that small types already exceed narrow widths)
// ------------------------------------------------------------------------------------------------

pub struct Names {
    a: &'static str,
    b: &'static str,
    r: &'static str,
    f: &'static str,
    t: &'static str,
    u: &'static str,
    con: &'static str,
    alias: &'static str,
    proj: [&'static str; 2],
    fields: [&'static str; 3],
    ops: [&'static str; 3],
    tf: &'static str,
    ctors: [&'static str; 3],
    variant: &'static str,
    effs: [&'static str; 2],
}

pub const PROFILES: [Names; 2] = [
    Names {
        a: "a",
        b: "b",
        r: "r",
        f: "f",
        t: "T",
        u: "U",
        con: "Option",
        alias: "Al",
        proj: ["m", "P"],
        fields: ["x", "y", "z"],
        ops: ["+", "<>", "=="],
        tf: "Tf",
        ctors: ["A", "B", "C"],
        variant: "V",
        effs: ["st", "io"],
    },
    Names {
        a: "alpha_variable",
        b: "beta_variable_bb",
        r: "rho_row_tail",
        f: "functor_ff",
        t: "Container_type",
        u: "Universe_type_uu",
        con: "OptionalValue",
        alias: "AliasedName",
        proj: ["module_mm", "Projected"],
        fields: ["field_name_x", "field_name_yy", "field_zzz"],
        ops: ["<+++>", "<<>>", "==="],
        tf: "TypeField_Tf",
        ctors: ["Alternative_A", "Branch_BB", "Case_C"],
        variant: "Variant_VV",
        effs: ["state_eff", "io_effect"],
    },
];

type AT = ArcType<String>;

fn s(x: &str) -> String {
    x.to_string()
}
fn generic(x: &str) -> Generic<String> {
    Generic::new(s(x), Kind::typ())
}
fn ident(x: &str) -> AT {
    Type::ident(KindedIdent::new(s(x)))
}

fn build_head(h: Head, nm: &Names) -> AT {
    match h {
        Head::Con => ident(nm.con),
        Head::Gen => Type::generic(generic(nm.f)),
        Head::Array => Type::array_builtin(),
        Head::FnCtor => Type::function_builtin(),
        Head::Alias => Type::alias(s(nm.alias), vec![generic(nm.a)], Type::int()),
        Head::Proj => Type::projection(nm.proj.iter().map(|x| s(x)).collect()),
    }
}

/// Builds the gluon type through the public constructors of `gluon_base::types`.
pub fn build(t: &Ty, nm: &Names) -> AT {
    match t {
        Ty::Leaf(l) => match l {
            Leaf::Int => Type::int(),
            Leaf::Float => Type::float(),
            Leaf::Str => Type::string(),
            Leaf::Char => Type::char(),
            Leaf::Byte => Type::byte(),
            Leaf::Unit => Type::unit(),
            Leaf::Hole => Type::hole(),
            Leaf::A => Type::generic(generic(nm.a)),
            Leaf::B => Type::generic(generic(nm.b)),
            Leaf::T => ident(nm.t),
            Leaf::U => ident(nm.u),
            Leaf::Alias => Type::alias(s(nm.alias), vec![], Type::int()),
            Leaf::Proj => Type::projection(nm.proj.iter().map(|x| s(x)).collect()),
            Leaf::FnCtor => Type::function_builtin(),
        },
        Ty::Fun(a, b) => Type::function(vec![build(a, nm)], build(b, nm)),
        Ty::Imp(a, b) => Type::function_implicit(vec![build(a, nm)], build(b, nm)),
        Ty::FunApp(a, b) => Type::app(Type::function_builtin(), vec![build(a, nm), build(b, nm)].into_iter().collect()),
        Ty::Forall(k, b) => {
            let params = if *k == 1 { vec![generic(nm.a)] } else { vec![generic(nm.a), generic(nm.b)] };
            Type::forall(params, build(b, nm))
        }
        Ty::App(h, args) => Type::app(build_head(*h, nm), args.iter().map(|a| build(a, nm)).collect()),
        Ty::NestApp(h, x, y) => Type::app(
            Type::app(build_head(*h, nm), Some(build(x, nm)).into_iter().collect()),
            Some(build(y, nm)).into_iter().collect(),
        ),
        Ty::Record { tf, fields, open, split } => {
            let types = match tf {
                Some((param, body)) => {
                    let params = if *param { vec![generic(nm.a)] } else { vec![] };
                    vec![Field::new(s(nm.tf), Alias::new(s(nm.tf), params, build(body, nm)))]
                }
                None => vec![],
            };
            let mut fs: Vec<Field<String, AT>> = fields
                .iter()
                .enumerate()
                .map(|(i, (op, t))| Field::new(s(if *op { nm.ops[i] } else { nm.fields[i] }), build(t, nm)))
                .collect();
            let rest = if *open { Type::generic(generic(nm.r)) } else { Type::empty_row() };
            if *split {
                let tail = fs.split_off(1);
                let rest = Type::extend_row(tail, rest);
                Type::poly_record(types, fs, rest)
            } else {
                Type::poly_record(types, fs, rest)
            }
        }
        Ty::Tuple(es) => {
            let fs = es.iter().enumerate().map(|(i, t)| Field::new(format!("_{}", i), build(t, nm))).collect();
            Type::record(vec![], fs)
        }
        Ty::Effect { fields, open } => {
            let fs = fields.iter().enumerate().map(|(i, t)| Field::new(s(nm.effs[i]), build(t, nm))).collect();
            if *open {
                Type::poly_effect(fs, Type::generic(generic(nm.r)))
            } else {
                Type::effect(fs)
            }
        }
        Ty::OpenVariant => Type::poly_variant(vec![], Type::generic(generic(nm.r))),
        Ty::Variant { ctors, open } => {
            let fs = ctors
                .iter()
                .enumerate()
                .map(|(i, c)| {
                    let typ = match c {
                        Ctor::Simple(args) => {
                            Type::function_type(ArgType::Constructor, args.iter().map(|a| build(a, nm)).collect::<Vec<_>>(), Type::opaque())
                        }
                        Ctor::Gadt { forall, args } => {
                            let ret = Type::app(ident(nm.variant), Some(Type::generic(generic(nm.a))).into_iter().collect());
                            let f = Type::function_type(ArgType::Constructor, args.iter().map(|a| build(a, nm)).collect::<Vec<_>>(), ret);
                            if *forall {
                                Type::forall(vec![generic(nm.b)], f)
                            } else {
                                f
                            }
                        }
                    };
                    Field::new(s(nm.ctors[i]), typ)
                })
                .collect();
            if *open {
                Type::poly_variant(fs, Type::generic(generic(nm.r)))
            } else {
                Type::variant(fs)
            }
        }
    }
}

// ------------------------------------------------------------------------------------------------
// Harness-side normal form (names as strings, no spans / kinds / metadata)
// ------------------------------------------------------------------------------------------------

#[derive(Clone, Debug, PartialEq, Eq)]
pub enum N {
    /// builtin / identifier / generic / alias / projection: by printed name
    Name(String),
    Hole,
    Opaque,
    Fun(bool, Box<N>, Box<N>),
    Forall(Vec<String>, Box<N>),
    App(Box<N>, Vec<N>),
    Record(Row),
    Variant(Row),
    Effect(Row),
    /// things without concrete syntax (unification variables, skolems, error, stray rows)
    Other(String),
}

#[derive(Clone, Debug, PartialEq, Eq, Default)]
pub struct Row {
    types: Vec<(String, Vec<String>, N)>,
    fields: Vec<(String, N)>,
    rest: Option<Box<N>>,
}

fn nf_row<T>(mut row: &T) -> Row
where
    T: TypePtr,
    T::Id: AsRef<str>,
    T::SpannedId: AsRef<str>,
{
    let mut out = Row::default();
    loop {
        match &**row {
            Type::EmptyRow => break,
            Type::ExtendRow { fields, rest } => {
                for f in fields.iter() {
                    out.fields.push((f.name.as_ref().to_string(), nf(&f.typ)));
                }
                row = rest;
            }
            Type::ExtendTypeRow { types, rest } => {
                for f in types.iter() {
                    let params = f.typ.params().iter().map(|g| s(g.id.as_ref())).collect();
                    out.types.push((f.name.as_ref().to_string(), params, nf(f.typ.unresolved_type())));
                }
                row = rest;
            }
            _ => {
                out.rest = Some(Box::new(nf(row)));
                break;
            }
        }
    }
    out
}

/// One function for both sides (`ArcType<String>` built by the harness, `AstType<String>` from the
/// parser). Quotients exactly what the concrete syntax cannot distinguish: the two representations of
/// function types, constructor-vs-explicit arrows, curried-vs-flat application, and which kind of node
/// (builtin, identifier, generic, alias) a bare name is.
pub fn nf<T>(t: &T) -> N
where
    T: TypePtr,
    T::Id: AsRef<str>,
    T::SpannedId: AsRef<str>,
{
    if let Some((arg_type, a, r)) = t.as_function_with_type() {
        return N::Fun(arg_type == ArgType::Implicit, Box::new(nf(a)), Box::new(nf(r)));
    }
    match &**t {
        Type::Hole => N::Hole,
        Type::Opaque => N::Opaque,
        Type::Error => N::Other(s("!")),
        Type::Builtin(b) => N::Name(s(b.to_str())),
        Type::Forall(params, body) => N::Forall(params.iter().map(|g| s(g.id.as_ref())).collect(), Box::new(nf(body))),
        Type::App(f, args) => {
            let head = nf(f);
            let mut rest: Vec<N> = args.iter().map(nf).collect();
            match head {
                N::App(h, mut xs) => {
                    xs.append(&mut rest);
                    N::App(h, xs)
                }
                h => N::App(Box::new(h), rest),
            }
        }
        Type::Function(..) => unreachable!(),
        Type::Record(row) => N::Record(nf_row(row)),
        Type::Variant(row) => N::Variant(nf_row(row)),
        Type::Effect(row) => N::Effect(nf_row(row)),
        Type::EmptyRow => N::Other(s("EmptyRow")),
        Type::ExtendRow { .. } | Type::ExtendTypeRow { .. } => N::Other(format!("row {:?}", nf_row(t))),
        Type::Ident(id) => N::Name(Name::new(id.name.as_ref()).name().as_str().to_string()),
        Type::Projection(ids) => N::Name(ids.iter().map(|x| x.as_ref()).collect::<Vec<_>>().join(".")),
        Type::Variable(v) => N::Other(format!("var {}", v.id)),
        Type::Generic(g) => N::Name(s(g.id.as_ref())),
        Type::Alias(a) => N::Name(s(a.name.as_ref())),
        Type::Skolem(sk) => N::Other(format!("skolem {}@{}", sk.name.as_ref(), sk.id)),
    }
}

/// The expected normal form computed from the description alone (never from gluon's data): guards
/// `nf` and `build` against each other (a disagreement is a machinery error, not a finding).
pub fn expected(t: &Ty, nm: &Names) -> N {
    let name = |x: &str| N::Name(s(x));
    let head = |h: Head| match h {
        Head::Con => name(nm.con),
        Head::Gen => name(nm.f),
        Head::Array => name("Array"),
        Head::FnCtor => name("->"),
        Head::Alias => name(nm.alias),
        Head::Proj => N::Name(nm.proj.join(".")),
    };
    match t {
        Ty::Leaf(l) => match l {
            Leaf::Int => name("Int"),
            Leaf::Float => name("Float"),
            Leaf::Str => name("String"),
            Leaf::Char => name("Char"),
            Leaf::Byte => name("Byte"),
            Leaf::Unit => N::Record(Row::default()),
            Leaf::Hole => N::Hole,
            Leaf::A => name(nm.a),
            Leaf::B => name(nm.b),
            Leaf::T => name(nm.t),
            Leaf::U => name(nm.u),
            Leaf::Alias => name(nm.alias),
            Leaf::Proj => N::Name(nm.proj.join(".")),
            Leaf::FnCtor => name("->"),
        },
        Ty::Fun(a, b) | Ty::FunApp(a, b) => N::Fun(false, Box::new(expected(a, nm)), Box::new(expected(b, nm))),
        Ty::Imp(a, b) => N::Fun(true, Box::new(expected(a, nm)), Box::new(expected(b, nm))),
        Ty::Forall(k, b) => {
            let ps = if *k == 1 { vec![s(nm.a)] } else { vec![s(nm.a), s(nm.b)] };
            N::Forall(ps, Box::new(expected(b, nm)))
        }
        Ty::App(h, args) => N::App(Box::new(head(*h)), args.iter().map(|a| expected(a, nm)).collect()),
        Ty::NestApp(h, x, y) => N::App(Box::new(head(*h)), vec![expected(x, nm), expected(y, nm)]),
        Ty::Record { tf, fields, open, .. } => N::Record(Row {
            types: tf
                .iter()
                .map(|(p, b)| (s(nm.tf), if *p { vec![s(nm.a)] } else { vec![] }, expected(b, nm)))
                .collect(),
            fields: fields
                .iter()
                .enumerate()
                .map(|(i, (op, t))| (s(if *op { nm.ops[i] } else { nm.fields[i] }), expected(t, nm)))
                .collect(),
            rest: if *open { Some(Box::new(name(nm.r))) } else { None },
        }),
        Ty::Tuple(es) => N::Record(Row {
            types: vec![],
            fields: es.iter().enumerate().map(|(i, t)| (format!("_{}", i), expected(t, nm))).collect(),
            rest: None,
        }),
        Ty::Effect { fields, open } => N::Effect(Row {
            types: vec![],
            fields: fields.iter().enumerate().map(|(i, t)| (s(nm.effs[i]), expected(t, nm))).collect(),
            rest: if *open { Some(Box::new(name(nm.r))) } else { None },
        }),
        Ty::OpenVariant => N::Variant(Row { types: vec![], fields: vec![], rest: Some(Box::new(name(nm.r))) }),
        Ty::Variant { ctors, open } => N::Variant(Row {
            types: vec![],
            fields: ctors
                .iter()
                .enumerate()
                .map(|(i, c)| {
                    let fun = |args: &Vec<Ty>, ret: N| {
                        args.iter().rev().fold(ret, |acc, a| N::Fun(false, Box::new(expected(a, nm)), Box::new(acc)))
                    };
                    let n = match c {
                        Ctor::Simple(args) => fun(args, N::Opaque),
                        Ctor::Gadt { forall, args } => {
                            let f = fun(args, N::App(Box::new(name(nm.variant)), vec![name(nm.a)]));
                            if *forall {
                                N::Forall(vec![s(nm.b)], Box::new(f))
                            } else {
                                f
                            }
                        }
                    };
                    (s(nm.ctors[i]), n)
                })
                .collect(),
            rest: if *open { Some(Box::new(name(nm.r))) } else { None },
        }),
    }
}

// ------------------------------------------------------------------------------------------------
// Printing and reading back
// ------------------------------------------------------------------------------------------------

/// {20..=60} ∪ {80,100,140,200}; `all`: every width 20..=200
pub fn widths(all: bool) -> Vec<usize> {
    if all {
        return (20..=200).collect();
    }
    let mut w: Vec<usize> = (20..=60).collect();
    w.extend([80, 100, 140, 200]);
    w
}

pub fn print(t: &AT, width: usize) -> String {
    format!("{}", TypeFormatter::new(t).width(width))
}

struct Env;
impl DisplayEnv for Env {
    type Ident = String;
    fn string<'a>(&'a self, ident: &'a String) -> &'a str {
        ident
    }
}
impl IdentEnv for Env {
    fn from_str(&mut self, s: &str) -> String {
        s.to_string()
    }
}

#[derive(Clone, Copy, Debug, PartialEq, Eq, Hash, PartialOrd, Ord)]
pub enum Wrapper {
    /// `let _ : <type> = ()` then `()`
    Let,
    /// `type Tz = <type>` then `()` (the shape `make_source` generates)
    TypeDecl,
}

impl Wrapper {
    fn name(self) -> &'static str {
        match self {
            Wrapper::Let => "let",
            Wrapper::TypeDecl => "type",
        }
    }
    /// continuation lines are nested by 4 exactly as `make_source` (`.nest(4)`) does
    pub fn source(self, text: &str) -> String {
        let nested = text.replace('\n', "\n    ");
        match self {
            Wrapper::Let => format!("let _ : {} = ()\n()\n", nested),
            Wrapper::TypeDecl => format!("type Tz = {}\n()\n", nested),
        }
    }
}

fn peel<'a, 'ast>(mut e: &'a SpannedExpr<'ast, String>) -> &'a SpannedExpr<'ast, String> {
    loop {
        match &e.value {
            Expr::Block(es) if es.len() == 1 => e = &es[0],
            _ => return e,
        }
    }
}

/// Ok(normal form of the type the parser read) | Err(message)
pub fn read_back(cache: &TypeCache<String, AT>, w: Wrapper, src: &str) -> Result<N, String> {
    mk_ast_arena!(arena);
    let mut env = Env;
    match gluon_parser::parse_partial_expr((*arena).borrow(), &mut env, cache, src) {
        Ok(expr) => {
            let e = peel(&expr);
            match (&e.value, w) {
                (Expr::LetBindings(ValueBindings::Plain(b), _), Wrapper::Let) => match &b.typ {
                    Some(t) => Ok(nf(t)),
                    None => Err(s("harness: binding without a type")),
                },
                (Expr::TypeBindings(bs, _), Wrapper::TypeDecl) if bs.len() == 1 => Ok(nf(bs[0].alias.value.unresolved_type())),
                _ => Err(format!("parsed, but not as a single {} binding", w.name())),
            }
        }
        Err((_, errs)) => Err(format!("{}", errs).trim().replace('\n', " / ")),
    }
}

#[derive(Clone, Debug)]
pub struct Failure {
    pub kind: &'static str,
    pub wrapper: Wrapper,
    pub width: usize,
    pub text: String,
    pub detail: String,
}

#[derive(Default, Clone, Debug)]
pub struct CaseStats {
    pub pairs: u64,
    pub distinct_texts: u64,
    pub multiline_texts: u64,
    pub parses: u64,
    pub machinery: Option<String>,
}

fn top_is_variant(t: &Ty) -> bool {
    match t {
        Ty::Variant { .. } | Ty::OpenVariant => true,
        Ty::Forall(_, b) => matches!(**b, Ty::Variant { .. }),
        _ => false,
    }
}

/// Prints `t` at every width and reads every distinct rendering back in every applicable wrapper.
/// Returns the first failure (smallest width).
pub fn check_type(cache: &TypeCache<String, AT>, t: &Ty, profile: usize, ws: &[usize]) -> (CaseStats, Option<Failure>) {
    let nm = &PROFILES[profile];
    let mut st = CaseStats::default();
    let typ = build(t, nm);
    let want = nf(&typ);
    let exp = expected(t, nm);
    if want != exp {
        st.machinery = Some(format!("harness normal form disagrees with the description for {:?}: {:?} vs {:?}", t, want, exp));
        return (st, None);
    }
    let wrappers: &[Wrapper] = if top_is_variant(t) { &[Wrapper::TypeDecl] } else { &[Wrapper::Let, Wrapper::TypeDecl] };
    let mut seen: Vec<String> = Vec::new();
    let mut first: Option<Failure> = None;
    for &w in ws {
        st.pairs += 1;
        let text = print(&typ, w);
        if seen.iter().any(|x| *x == text) {
            continue;
        }
        st.distinct_texts += 1;
        if text.contains('\n') {
            st.multiline_texts += 1;
        }
        if first.is_none() {
            for &wr in wrappers {
                st.parses += 1;
                let src = wr.source(&text);
                let fail = match read_back(cache, wr, &src) {
                    Ok(got) if got == want => None,
                    Ok(got) => Some(("different-type", format!("read back as {}", show(&got)))),
                    Err(e) => Some(("parse-error", e)),
                };
                if let Some((kind, detail)) = fail {
                    first = Some(Failure { kind, wrapper: wr, width: w, text: text.clone(), detail });
                    break;
                }
            }
        }
        seen.push(text);
    }
    (st, first)
}

/// compact rendering of a normal form for messages
pub fn show(n: &N) -> String {
    fn row(r: &Row, open: &str, close: &str) -> String {
        let mut parts: Vec<String> = Vec::new();
        for (n, ps, b) in &r.types {
            parts.push(format!("type {}{}{} = {}", n, if ps.is_empty() { "" } else { " " }, ps.join(" "), show(b)));
        }
        for (n, t) in &r.fields {
            parts.push(format!("{} : {}", n, show(t)));
        }
        let mut s = format!("{}{}", open, parts.join("; "));
        if let Some(rest) = &r.rest {
            s.push_str(&format!(" | {}", show(rest)));
        }
        s.push_str(close);
        s
    }
    match n {
        N::Name(x) => x.clone(),
        N::Hole => s("_"),
        N::Opaque => s("<opaque>"),
        N::Fun(imp, a, b) => {
            if *imp {
                format!("([{}] -> {})", show(a), show(b))
            } else {
                format!("({} -> {})", show(a), show(b))
            }
        }
        N::Forall(ps, b) => format!("(forall {} . {})", ps.join(" "), show(b)),
        N::App(h, args) => format!("({} {})", show(h), args.iter().map(show).collect::<Vec<_>>().join(" ")),
        N::Record(r) => row(r, "{", "}"),
        N::Variant(r) => row(r, "<variant ", ">"),
        N::Effect(r) => row(r, "[|", "|]"),
        N::Other(x) => format!("<{}>", x),
    }
}

// ------------------------------------------------------------------------------------------------
// Minimisation: only failures none of whose components fails on its own are reported
// ------------------------------------------------------------------------------------------------

fn components(t: &Ty) -> Vec<Ty> {
    let mut out = Vec::new();
    match t {
        Ty::Leaf(_) | Ty::OpenVariant => {}
        Ty::Fun(a, b) | Ty::Imp(a, b) | Ty::FunApp(a, b) | Ty::NestApp(_, a, b) => {
            out.push((**a).clone());
            out.push((**b).clone());
        }
        Ty::Forall(_, b) => out.push((**b).clone()),
        Ty::App(_, args) | Ty::Tuple(args) => out.extend(args.iter().cloned()),
        Ty::Record { tf, fields, .. } => {
            if let Some((_, b)) = tf {
                out.push((**b).clone());
            }
            out.extend(fields.iter().map(|(_, t)| t.clone()));
        }
        Ty::Effect { fields, .. } => out.extend(fields.iter().cloned()),
        Ty::Variant { ctors, .. } => {
            for c in ctors {
                match c {
                    Ctor::Simple(args) | Ctor::Gadt { args, .. } => out.extend(args.iter().cloned()),
                }
            }
        }
    }
    out
}

/// One-step simplifications of a failing case: replace any subterm by `Int`, by one of its own
/// components, drop a list element or a flag - at any depth. A failure is reported only if none of
/// these fails too (local minimum), so one cause gives one report.
fn shrinks(t: &Ty) -> Vec<Ty> {
    let mut out = Vec::new();
    if *t != Ty::Leaf(Leaf::Int) {
        out.push(Ty::Leaf(Leaf::Int));
    }
    out.extend(components(t));
    let bx = |t: Ty| Box::new(t);
    let each = |ts: &Vec<Ty>, out: &mut Vec<Ty>, mk: &dyn Fn(Vec<Ty>) -> Ty| {
        for i in 0..ts.len() {
            for c in shrinks(&ts[i]) {
                let mut v = ts.clone();
                v[i] = c;
                out.push(mk(v));
            }
        }
    };
    match t {
        Ty::Leaf(_) | Ty::OpenVariant => {}
        Ty::Fun(a, b) | Ty::Imp(a, b) | Ty::FunApp(a, b) => {
            let mk = |a: Ty, b: Ty| match t {
                Ty::Fun(..) => Ty::Fun(bx(a), bx(b)),
                Ty::Imp(..) => Ty::Imp(bx(a), bx(b)),
                _ => Ty::FunApp(bx(a), bx(b)),
            };
            if !matches!(t, Ty::Fun(..)) {
                out.push(Ty::Fun(a.clone(), b.clone()));
            }
            for c in shrinks(a) {
                out.push(mk(c, (**b).clone()));
            }
            for c in shrinks(b) {
                out.push(mk((**a).clone(), c));
            }
        }
        Ty::NestApp(h, a, b) => {
            out.push(Ty::App(*h, vec![(**a).clone(), (**b).clone()]));
            for c in shrinks(a) {
                out.push(Ty::NestApp(*h, bx(c), b.clone()));
            }
            for c in shrinks(b) {
                out.push(Ty::NestApp(*h, a.clone(), bx(c)));
            }
        }
        Ty::Forall(k, b) => {
            if *k == 2 {
                out.push(Ty::Forall(1, b.clone()));
            }
            for c in shrinks(b) {
                out.push(Ty::Forall(*k, bx(c)));
            }
        }
        Ty::App(h, args) => {
            if *h != Head::Con && *h != Head::FnCtor && *h != Head::Array {
                out.push(Ty::App(Head::Con, args.clone()));
            }
            if args.len() > 1 {
                for i in 0..args.len() {
                    let mut a = args.clone();
                    a.remove(i);
                    out.push(Ty::App(*h, a));
                }
            }
            each(args, &mut out, &|v| Ty::App(*h, v));
        }
        Ty::Record { tf, fields, open, split } => {
            let mk = |tf: Option<(bool, Box<Ty>)>, fields: Vec<(bool, Ty)>, open: bool, split: bool, out: &mut Vec<Ty>| {
                let split = split && fields.len() >= 2;
                if tf.is_none() && fields.is_empty() && !open {
                    out.push(Ty::Leaf(Leaf::Unit));
                } else {
                    out.push(Ty::Record { tf, fields, open, split });
                }
            };
            if let Some((p, b)) = tf {
                mk(None, fields.clone(), *open, *split, &mut out);
                if *p {
                    mk(Some((false, b.clone())), fields.clone(), *open, *split, &mut out);
                }
                for c in shrinks(b) {
                    mk(Some((*p, bx(c))), fields.clone(), *open, *split, &mut out);
                }
            }
            for i in 0..fields.len() {
                let mut f = fields.clone();
                f.remove(i);
                mk(tf.clone(), f, *open, *split, &mut out);
                if fields[i].0 {
                    let mut f = fields.clone();
                    f[i].0 = false;
                    mk(tf.clone(), f, *open, *split, &mut out);
                }
                for c in shrinks(&fields[i].1) {
                    let mut f = fields.clone();
                    f[i].1 = c;
                    mk(tf.clone(), f, *open, *split, &mut out);
                }
            }
            if *open {
                mk(tf.clone(), fields.clone(), false, *split, &mut out);
            }
            if *split {
                mk(tf.clone(), fields.clone(), *open, false, &mut out);
            }
        }
        Ty::Tuple(es) => {
            if es.len() > 1 {
                for i in 0..es.len() {
                    let mut e = es.clone();
                    e.remove(i);
                    out.push(Ty::Tuple(e));
                }
            }
            each(es, &mut out, &|v| Ty::Tuple(v));
        }
        Ty::Effect { fields, open } => {
            for i in 0..fields.len() {
                let mut f = fields.clone();
                f.remove(i);
                out.push(Ty::Effect { fields: f, open: *open });
            }
            if *open {
                out.push(Ty::Effect { fields: fields.clone(), open: false });
            }
            each(fields, &mut out, &|v| Ty::Effect { fields: v, open: *open });
        }
        Ty::Variant { ctors, open } => {
            if ctors.len() > 1 {
                for i in 0..ctors.len() {
                    let mut c = ctors.clone();
                    c.remove(i);
                    out.push(Ty::Variant { ctors: c, open: *open });
                }
            }
            if *open {
                out.push(Ty::Variant { ctors: ctors.clone(), open: false });
            }
            for i in 0..ctors.len() {
                let mut alts: Vec<Ctor> = Vec::new();
                match &ctors[i] {
                    Ctor::Simple(args) => {
                        for j in 0..args.len() {
                            let mut a = args.clone();
                            a.remove(j);
                            alts.push(Ctor::Simple(a));
                            for c in shrinks(&args[j]) {
                                let mut a = args.clone();
                                a[j] = c;
                                alts.push(Ctor::Simple(a));
                            }
                        }
                    }
                    Ctor::Gadt { forall, args } => {
                        alts.push(Ctor::Simple(args.clone()));
                        if *forall {
                            alts.push(Ctor::Gadt { forall: false, args: args.clone() });
                        }
                        for j in 0..args.len() {
                            let mut a = args.clone();
                            a.remove(j);
                            alts.push(Ctor::Gadt { forall: *forall, args: a });
                            for c in shrinks(&args[j]) {
                                let mut a = args.clone();
                                a[j] = c;
                                alts.push(Ctor::Gadt { forall: *forall, args: a });
                            }
                        }
                    }
                }
                for alt in alts {
                    let mut c = ctors.clone();
                    c[i] = alt;
                    out.push(Ty::Variant { ctors: c, open: *open });
                }
            }
        }
    }
    out
}

/// leaves replaced by their syntactic class: one report per shape, not one per leaf choice
fn skeleton(t: &Ty) -> Ty {
    let sk = |t: &Ty| Box::new(skeleton(t));
    let v = |ts: &Vec<Ty>| ts.iter().map(skeleton).collect::<Vec<_>>();
    match t {
        Ty::Leaf(l) => Ty::Leaf(match l {
            Leaf::Int | Leaf::Float | Leaf::Str | Leaf::Char | Leaf::Byte => Leaf::Int,
            Leaf::A | Leaf::B => Leaf::A,
            Leaf::T | Leaf::U => Leaf::T,
            x => *x,
        }),
        Ty::Fun(a, b) => Ty::Fun(sk(a), sk(b)),
        Ty::Imp(a, b) => Ty::Imp(sk(a), sk(b)),
        Ty::FunApp(a, b) => Ty::FunApp(sk(a), sk(b)),
        Ty::Forall(k, b) => Ty::Forall(*k, sk(b)),
        Ty::App(h, args) => Ty::App(*h, v(args)),
        Ty::NestApp(h, a, b) => Ty::NestApp(*h, sk(a), sk(b)),
        Ty::Record { tf, fields, open, split } => Ty::Record {
            tf: tf.as_ref().map(|(p, b)| (*p, sk(b))),
            fields: fields.iter().map(|(o, t)| (*o, skeleton(t))).collect(),
            open: *open,
            split: *split,
        },
        Ty::Tuple(es) => Ty::Tuple(v(es)),
        Ty::Effect { fields, open } => Ty::Effect { fields: v(fields), open: *open },
        Ty::OpenVariant => Ty::OpenVariant,
        Ty::Variant { ctors, open } => Ty::Variant {
            ctors: ctors
                .iter()
                .map(|c| match c {
                    Ctor::Simple(a) => Ctor::Simple(v(a)),
                    Ctor::Gadt { forall, args } => Ctor::Gadt { forall: *forall, args: v(args) },
                })
                .collect(),
            open: *open,
        },
    }
}

// ------------------------------------------------------------------------------------------------
// vm/src/api/typ.rs::make_source on a fixed list of Rust types (not an enumeration: Rust types
// cannot be built at run time). The generated declaration must read back as the type `from_rust` built.
// ------------------------------------------------------------------------------------------------

#[allow(dead_code)]
mod rust_types {
    use serde_derive::Deserialize;
    #[derive(Deserialize)]
    pub struct Address {
        pub street: String,
        pub city: String,
    }
    #[derive(Deserialize)]
    pub struct Wide {
        pub first_rather_long_field_name: i64,
        pub second_rather_long_field_name: f64,
        pub third_rather_long_field_name: String,
        pub fourth: char,
        pub fifth: u8,
    }
    #[derive(Deserialize)]
    pub struct Nested {
        pub address: Address,
        pub wide: Wide,
        pub pair: (i32, String),
        pub list: Vec<Vec<f64>>,
    }
    #[derive(Deserialize)]
    pub struct Opt {
        pub maybe: Option<i32>,
        pub maybe_list: Option<Vec<String>>,
        pub list_maybe: Vec<Option<f64>>,
    }
    #[derive(Deserialize)]
    pub struct UnitStruct;
    #[derive(Deserialize)]
    pub struct Newtype(pub i32);
    #[derive(Deserialize)]
    pub enum Plain {
        Red,
        Green,
        Blue,
    }
    #[derive(Deserialize)]
    pub enum Mixed {
        A,
        B(i32),
        C(String, f64),
        D { foo: i32 },
    }
    #[derive(Deserialize)]
    pub enum Big {
        Record { first_rather_long_field_name: i64, second_rather_long_field_name: f64, third_rather_long_field_name: String },
        Lists(Vec<Vec<i32>>, Option<Vec<f64>>),
        Tuple((i32, (String, f64)), Option<Option<i32>>),
        Nested(Address, Wide),
    }
    #[derive(Deserialize)]
    pub struct Flag {
        pub on: bool,
        pub bytes: Vec<u8>,
        pub unit: (),
    }
}

fn make_source_probe<T: serde::de::DeserializeOwned>(vm: &gluon::RootedThread, cache: &TypeCache<String, AT>) -> Result<(String, bool), (String, String)> {
    use gluon::vm::api::typ;
    let src = typ::make_source::<T>(vm).map_err(|e| (s("<make_source failed>"), format!("make_source: {}", e)))?;
    let (_, typ) = typ::from_rust::<T>(vm).map_err(|e| (src.clone(), format!("from_rust: {}", e)))?;
    let want = nf(&typ);
    match read_back(cache, Wrapper::TypeDecl, &src) {
        Ok(got) if got == want => Ok((src.clone(), src.trim().contains('\n') && src.trim().lines().count() > 2)),
        Ok(got) => Err((src, format!("read back as {} instead of {}", show(&got), show(&want)))),
        Err(e) => Err((src, format!("does not parse: {}", e))),
    }
}

fn make_source_probes(report: &mut Report) {
    use rust_types::*;
    let vm = crate::vmkit::make_vm(crate::vmkit::Settings::bare());
    let cache: TypeCache<String, AT> = TypeCache::default();
    let mut n = 0u64;
    let mut multiline = 0u64;
    macro_rules! probe {
        ($($t:ty),*) => {$(
            n += 1;
            let name = stringify!($t);
            let run = || std::panic::catch_unwind(std::panic::AssertUnwindSafe(|| make_source_probe::<$t>(&vm, &cache)))
                .unwrap_or_else(|_| Err((s("<panic>"), format!("host panic at {}", crate::vmkit::last_panic_loc()))));
            match run() {
                Ok((src, ml)) => {
                    if ml { multiline += 1; }
                    if n == 9 { report.sample(json!({"make_source": name, "generated": src})); }
                }
                Err((src, why)) => {
                    // second run before reporting
                    if let Err((src2, why2)) = run() {
                        if src2 == src && why2 == why {
                            report.violation(
                                format!("c18:make_source:{}", name),
                                format!("make_source::<{}> generated {:?}: {}", name, src, why),
                                json!({"engine": "c18", "make_source": name}),
                            );
                        }
                    }
                }
            }
        )*};
    }
    probe!(Address, Wide, Nested, Opt, UnitStruct, Newtype, Plain, Mixed, Big, Flag);
    report.set("make_source_probes", n);
    report.set("make_source_probes_with_line_breaks", multiline);
}

// ------------------------------------------------------------------------------------------------
// Driver
// ------------------------------------------------------------------------------------------------

#[derive(Default)]
pub struct Acc {
    cases: u64,
    pairs: u64,
    distinct_texts: u64,
    multiline_texts: u64,
    cases_with_break: u64,
    parses: u64,
    failures: Vec<(Ty, usize, Failure)>,
    failing_cases: u64,
    derived: u64,
    machinery: Vec<String>,
    samples: Vec<Value>,
}

pub struct Worker {
    cache: TypeCache<String, AT>,
    ws: Vec<usize>,
    memo: HashMap<(Ty, usize), bool>,
}

impl Worker {
    fn fails(&mut self, t: &Ty, p: usize) -> bool {
        if let Some(v) = self.memo.get(&(t.clone(), p)) {
            return *v;
        }
        let v = std::panic::catch_unwind(std::panic::AssertUnwindSafe(|| check_type(&self.cache, t, p, &self.ws).1.is_some())).unwrap_or(true);
        if self.memo.len() > 300_000 {
            self.memo.clear();
        }
        self.memo.insert((t.clone(), p), v);
        v
    }
    /// no one-step simplification (and not the same type with short names) fails
    fn locally_minimal(&mut self, t: &Ty, p: usize) -> bool {
        if p > 0 && self.fails(t, 0) {
            return false;
        }
        !shrinks(t).iter().any(|c| self.fails(c, p))
    }
}

fn check_case(w: &mut Worker, acc: &mut Acc, t: Ty) {
    for profile in 0..PROFILES.len() {
        check_case_profile(w, acc, &t, profile);
    }
}

fn check_case_profile(w: &mut Worker, acc: &mut Acc, t: &Ty, profile: usize) {
    let r = std::panic::catch_unwind(std::panic::AssertUnwindSafe(|| check_type(&w.cache, &t, profile, &w.ws)));
    let (st, fail) = match r {
        Ok(x) => x,
        Err(_) => {
            let text = std::panic::catch_unwind(|| print(&build(&t, &PROFILES[profile]), 200)).unwrap_or_else(|_| s("<printer panicked>"));
            (
                CaseStats::default(),
                Some(Failure {
                    kind: "panic",
                    wrapper: Wrapper::TypeDecl,
                    width: 0,
                    text,
                    detail: format!("host panic at {}", crate::vmkit::last_panic_loc()),
                }),
            )
        }
    };
    acc.cases += 1;
    acc.pairs += st.pairs;
    acc.distinct_texts += st.distinct_texts;
    acc.multiline_texts += st.multiline_texts;
    acc.parses += st.parses;
    if st.multiline_texts > 0 {
        acc.cases_with_break += 1;
        if acc.samples.len() < 2 && st.distinct_texts >= 3 && acc.cases % 97 == 0 {
            let typ = build(&t, &PROFILES[profile]);
            acc.samples.push(json!({
                "type_at_200": print(&typ, 200),
                "type_at_20": print(&typ, 20),
                "distinct_renderings": st.distinct_texts,
            }));
        }
    }
    if let Some(m) = st.machinery {
        if acc.machinery.len() < 3 {
            acc.machinery.push(m);
        }
    }
    if let Some(f) = fail {
        acc.failing_cases += 1;
        w.memo.insert((t.clone(), profile), true);
        if w.locally_minimal(t, profile) {
            acc.failures.push((t.clone(), profile, f));
        } else {
            acc.derived += 1;
        }
    }
}

fn new_worker(all_widths: bool) -> Worker {
    Worker { cache: TypeCache::default(), ws: widths(all_widths), memo: HashMap::new() }
}

fn text200(t: &Ty, profile: usize) -> String {
    std::panic::catch_unwind(|| print(&build(t, &PROFILES[profile]), 200)).unwrap_or_else(|_| s("<printer panicked>"))
}

pub fn run(tier: &str) -> Report {
    let mut report = Report::new("C18", tier, "exploration");
    if let Some(n) = std::env::var("VERIF_C18_COUNT").ok().and_then(|s| s.parse().ok()) {
        count_only(n);
    }
    let max_size: usize = std::env::var("VERIF_C18_SIZE")
        .ok()
        .and_then(|s| s.parse().ok())
        .unwrap_or(if tier == "quick" { 6 } else { 8 });
    let deadline = par::deadline_for(tier, 36, 1400);
    // thorough: every width 20..=200 up to size 6, the 45 standard widths above
    let all_widths_upto: usize = std::env::var("VERIF_C18_ALL_WIDTHS_UPTO")
        .ok()
        .and_then(|s| s.parse().ok())
        .unwrap_or(if tier == "quick" { 0 } else { 6 });
    let all_widths = |n: usize| n <= all_widths_upto;
    let mut space = Space::new();
    let mut capped = false;
    let mut completed = 0usize;
    let mut per_size: BTreeMap<String, Value> = BTreeMap::new();
    let mut all_failures: Vec<(Ty, usize, Failure)> = Vec::new();
    let mut tot = Acc::default();
    for n in 1..=max_size {
        // sizes < n memoised; size n itself is streamed (and memoised only if a larger size follows)
        space.fill(n.saturating_sub(2));
        let sp = &space;
        let mut distinct: HashSet<Ty> = HashSet::new();
        let mut dups = 0u64;
        let sweep = par::stream(
            Some(deadline),
            |emit| {
                sp.produce(n, &mut |t| {
                    // each case is enumerated once (measured on the small sizes)
                    if n <= 5 && !distinct.insert(t.clone()) {
                        dups += 1;
                    }
                    emit(t)
                });
            },
            |_| new_worker(all_widths(n)),
            check_case,
        );
        let was_capped = sweep.capped;
        if dups > 0 {
            report.machinery(format!("{} cases of size {} were enumerated twice", dups, n));
        }
        if std::env::var("VERIF_C18_TRACE").is_ok() {
            eprintln!("size {} swept at {:.2}s", n, report.elapsed());
        }
        let mut a = Acc::default();
        for r in sweep.results {
            a.cases += r.cases;
            a.pairs += r.pairs;
            a.distinct_texts += r.distinct_texts;
            a.multiline_texts += r.multiline_texts;
            a.cases_with_break += r.cases_with_break;
            a.parses += r.parses;
            a.failing_cases += r.failing_cases;
            a.derived += r.derived;
            a.failures.extend(r.failures);
            a.machinery.extend(r.machinery);
            a.samples.extend(r.samples);
        }
        per_size.insert(
            format!("size{:02}", n),
            json!({
                "cases(type x name profile)": a.cases,
                "pairs(case x width)": a.pairs,
                "distinct_renderings": a.distinct_texts,
                "renderings_with_line_break": a.multiline_texts,
                "cases_with_a_line_break_at_some_width": a.cases_with_break,
                "parses": a.parses,
                "failing_cases": a.failing_cases,
                "widths": if all_widths(n) { "20..=200" } else { "20..=60,80,100,140,200" },
                "complete": !was_capped,
            }),
        );
        tot.cases += a.cases;
        tot.pairs += a.pairs;
        tot.distinct_texts += a.distinct_texts;
        tot.multiline_texts += a.multiline_texts;
        tot.cases_with_break += a.cases_with_break;
        tot.parses += a.parses;
        tot.failing_cases += a.failing_cases;
        tot.derived += a.derived;
        for m in a.machinery {
            if report.machinery_errors.len() < 4 {
                report.machinery(m);
            }
        }
        for sm in a.samples {
            if tot.samples.len() < 8 {
                tot.samples.push(sm);
            }
        }
        all_failures.extend(a.failures);
        if was_capped {
            capped = true;
            break;
        }
        completed = n;
    }

    if std::env::var("VERIF_C18_TRACE").is_ok() {
        eprintln!("sweeps done at {:.2}s, {} candidate failures", report.elapsed(), all_failures.len());
    }
    // ---- the workers kept only locally minimal failures; one report per shape, confirmed on a second run
    all_failures.sort_by(|a, b| (size(&a.0), a.1, &a.0).cmp(&(size(&b.0), b.1, &b.0)));
    let known: HashSet<String> = crate::report::load_known_findings().into_iter().filter(|k| k.property == "C18").map(|k| k.key).collect();
    let mut seen_skeletons: HashSet<Ty> = HashSet::new();
    let mut minimal: Vec<Value> = Vec::new();
    let mut derived = tot.derived;
    let mut unconfirmed = 0u64;
    let mut found: Vec<(bool, String, String, Value)> = Vec::new();
    for (t, p, f) in &all_failures {
        if !seen_skeletons.insert(skeleton(t)) {
            derived += 1;
            continue;
        }
        // deterministic? re-run from scratch with a fresh type cache
        let fresh: TypeCache<String, AT> = TypeCache::default();
        let ws = widths(all_widths(size(t)));
        let again = std::panic::catch_unwind(std::panic::AssertUnwindSafe(|| check_type(&fresh, t, *p, &ws).1));
        let same = match &again {
            Ok(Some(g)) => g.kind == f.kind && g.width == f.width && g.text == f.text,
            Ok(None) => false,
            Err(_) => f.kind == "panic",
        };
        if !same {
            unconfirmed += 1;
            report.machinery(format!("failure not reproduced on a second run: {:?}", t));
            continue;
        }
        let t200 = text200(t, *p);
        let key = format!("c18:{}:{}", f.kind, t200.replace('\n', "\\n"));
        let what = format!(
            "printed at width {} as {:?} and embedded as {:?}: {} [{}] (type of size {}, name profile {})",
            f.width,
            f.text,
            f.wrapper.source(&f.text),
            f.detail,
            f.kind,
            size(t),
            p
        );
        if minimal.len() < 200 {
            minimal.push(json!({"key": key, "first_failing_width": f.width, "wrapper": f.wrapper.name(), "detail": f.detail, "text": f.text}));
        }
        found.push((known.contains(&key), key, what, json!({"engine": "c18", "ty": serde_json::to_value(t).unwrap(), "profile": p, "width": f.width})));
    }
    // unlisted keys first: the report keeps at most 25 distinct keys
    found.sort_by_key(|x| x.0);
    for (_, key, what, replay) in found {
        report.violation(key, what, replay);
    }

    make_source_probes(&mut report);
    report.set("evaluations", tot.pairs);
    report.set("cases", tot.cases);
    report.set("parses_of_distinct_renderings", tot.parses);
    report.set("distinct_renderings", tot.distinct_texts);
    report.set("distinct_nontrivial", tot.multiline_texts);
    report.set("cases_with_a_line_break_at_some_width", tot.cases_with_break);
    report.set("failing_cases", tot.failing_cases);
    report.set("failing_cases_explained_by_a_smaller_failure", derived);
    report.set("failures_not_reproduced", unconfirmed);
    report.set("minimal_failures", json!(minimal));
    report.set("per_size", json!(per_size));
    report.set("size_bound", max_size as u64);
    report.set("size_bound_completed", completed as u64);
    report.set("widths", json!(widths(false)));
    report.set("all_widths_20_to_200_up_to_size", all_widths_upto as u64);
    report.set("exhaustive", !capped);
    report.set("wall_cap_hit", capped);
    report.set(
        "rule",
        "every type description of weighted size <= size_bound_completed (leaves Int/a/T cost 1, rarer leaves 2-3; builtins, \
         (), _, generics, identifiers, aliases, projections, (->); explicit / implicit / App((->),..) functions; forall with 1-2 \
         binders; applications with 1-3 arguments to identifier / generic / Array / (->) / alias / projection heads, curried \
         applications; records with 0-3 value fields (identifier or operator names), an optional type field with 0-1 \
         parameters, open tail, fields optionally split over two row nodes; tuples of 1-3; effect rows of 0-2 with open tail; \
         (.. r); at the top also variants of 1-3 constructors with 0-2 arguments, GADT-style signatures (optionally under \
         forall), open tail, optionally under a forall) x 2 name profiles (1-6 and 9-16 character names) x 45 widths; each \
         built through gluon_base::types constructors, printed by TypeFormatter at that width, every distinct rendering \
         embedded in `let _ : <t> = ()` and `type Tz = <t>` (variants: the latter only) with continuation lines nested by 4, \
         parsed by gluon_parser and compared in normal form. An evaluation is one (case,width) pair; non-trivial = distinct \
         renderings of a case that contain a line break (the width dimension took effect)",
    );
    for sm in tot.samples {
        report.sample(sm);
    }
    for (t, p) in [
        (Ty::App(Head::Con, vec![Ty::Fun(Box::new(Ty::Leaf(Leaf::A)), Box::new(Ty::Leaf(Leaf::Int)))]), 0usize),
        (
            Ty::Record {
                tf: Some((true, Box::new(Ty::Leaf(Leaf::A)))),
                fields: vec![(true, Ty::Fun(Box::new(Ty::Leaf(Leaf::A)), Box::new(Ty::Leaf(Leaf::A))))],
                open: true,
                split: false,
            },
            1,
        ),
        (
            Ty::Variant { ctors: vec![Ctor::Simple(vec![Ty::Leaf(Leaf::Int)]), Ctor::Gadt { forall: false, args: vec![Ty::Leaf(Leaf::A)] }], open: false },
            0,
        ),
    ] {
        let typ = build(&t, &PROFILES[p]);
        report.sample(json!({"type_at_200": print(&typ, 200), "type_at_20": print(&typ, 20), "embedded": Wrapper::TypeDecl.source(&print(&typ, 20))}));
    }
    report.assume("a printed type is embedded the way gluon embeds it itself (vm/src/api/typ.rs make_source): after `type N = ` or `let _ : ` with continuation lines nested by 4 columns; lines at the column of the enclosing `let`/`type` keyword would end the binding by the layout rule, which is a property of the embedding and not of the printed type");
    report.assume("types without concrete syntax are not generated: unification variables, skolems, the error type, `<opaque>` outside a constructor result, filtered (`...`) renderings, doc comments on fields; variants with constructors are generated only where the grammar has a place for them (body of a type binding, optionally under its forall)");
    report.assume("equality is structural on a normal form that identifies only what the concrete syntax cannot distinguish: Function(Explicit|Constructor,a,b) = App((->),[a,b]); App(App(f,[x]),[y]) = App(f,[x,y]); a bare name is the same whether it is a builtin, identifier, generic or alias; bound variable names are compared literally (the printer does not rename)");
    report.assume("each distinct rendering of a case is parsed once (the parser is a function of the text)");
    report.assume("harness profile: opt-level 2 with debug-assertions and overflow-checks on");
    report
}

pub fn replay(v: &Value) -> Report {
    let mut report = Report::new("C18", "quick", "exploration");
    if v.get("make_source").is_some() {
        make_source_probes(&mut report);
        for x in &report.violations {
            println!("{}: {}", x.key, x.what);
        }
        return report;
    }
    let t: Ty = match serde_json::from_value(v["ty"].clone()) {
        Ok(t) => t,
        Err(e) => {
            report.machinery(format!("bad replay: {}", e));
            return report;
        }
    };
    let p = v["profile"].as_u64().unwrap_or(0) as usize;
    let cache: TypeCache<String, AT> = TypeCache::default();
    let typ = build(&t, &PROFILES[p]);
    println!("description: {:?}", t);
    println!("normal form: {}", show(&nf(&typ)));
    let (_, f) = check_type(&cache, &t, p, &widths(true));
    match f {
        Some(f) => {
            println!("width {}:\n{}\nembedded ({}):\n{}\n=> {}: {}", f.width, f.text, f.wrapper.name(), f.wrapper.source(&f.text), f.kind, f.detail);
            report.violation("replay", f.detail, v.clone());
        }
        None => println!("all widths read back as the same type"),
    }
    report
}

/// enumeration cost probe (debug aid): `VERIF_C18_COUNT=n`
pub fn count_only(n: usize) {
    let mut space = Space::new();
    for k in 1..=n {
        let t0 = std::time::Instant::now();
        space.fill(k - 1);
        let t1 = t0.elapsed();
        let mut c = 0u64;
        space.produce(k, &mut |_| {
            c += 1;
            true
        });
        eprintln!("size {} top-level types {} (fill {:?}, produce {:?})", k, c, t1, t0.elapsed() - t1);
    }
}
