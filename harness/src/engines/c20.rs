//! C20 — editor queries are total and agree with the typechecker.
//!
//! Subject: `gluon_completion::{complete, find, find_all_symbols, symbol, all_symbols, suggest,
//! SuggestionQuery::suggest (prefix filter off; with a module list at `import!`ed identifiers),
//! signature_help, get_metadata, suggest_metadata}`
//! on the (possibly only partially) typed AST that gluon's real front end
//! (`<&str as compiler_pipeline::Typecheckable>::typecheck_expected`: parse with error recovery,
//! macro expansion, renaming, metadata, infix reparsing, typechecking; the salvaged AST is used when
//! there are errors — what an editor integration does) produces on a real VM, with the VM's own
//! environment as `TypeEnv` / `CompletionEnv`.
//!
//! Enumerated space: programs x variants x byte offsets x queries.
//!   programs: every well typed GL-core program up to a size bound (harness enumerator), the
//!     feature templates, hand written feature programs in the book's surface syntax (everything
//!     the GL-core printer does not emit: annotations, do, implicit arguments, doc comments,
//!     attributes, type fields, literals, operators, non-ASCII text), small `std/*.glu` files;
//!   variants: the complete text, the text truncated after every token, the text with every
//!     single token deleted (the token partition is the harness' own, any partition is valid);
//!   offsets: EVERY byte offset 0..=len of the variant (a `BytePos` is a number: offsets inside a
//!     multi-byte character are legal inputs and are included);
//!   queries: the ten entry points above.
//! The front end runs ONCE per variant, then all offsets x queries run on that AST.
//!
//! Oracle:
//!  1. totality: no query panics at any offset of any variant (each call under `catch_unwind`;
//!     every variant runs in a child process so that aborts / stack overflows / hangs are
//!     attributed too).
//!  2. on variants that the front end accepts WITHOUT ANY ERROR, no implicit prelude: a reference
//!     model built by the harness' own walk over the typed AST lists the identifier occurrences
//!     (uses = `Expr::Ident` nodes whose span carries exactly the identifier's text; binders =
//!     `Pattern::Ident` / argument nodes; field occurrences of projections) with the type the
//!     checker stored on that node and the set of names lexically in scope there. At every offset
//!     of an occurrence `find` must return exactly that type.
//!  3. at every offset of a *use*, every name `suggest` returns (with and without the prefix
//!     filter) must be in the reference scope of that occurrence or be one of the environment's
//!     globals (`CompletionEnv::list_types`); at every offset of a projection's field, suggested
//!     names must be fields of the projected expression's (alias-free) record type.
//! Everything else (binders for scope, patterns, type positions, whitespace, comments, error
//! nodes, variants with errors, the implicit prelude) is checked for totality only.
//!
//! Process layout: `gv C20 <tier>` (parent) builds the variant list and hands one variant at a
//! time to `gv worker c20` children (`isolate.rs`); a child that dies or hangs is attributed to
//! the variant in flight and that variant is re-run front-end-only to tell a front end fault
//! (property C09's business, counted and skipped here) from a query fault (violation).

use crate::isolate::{self, CaseOutcome};
use crate::lang::gen::{top_types, Cfg, Gen};
use crate::lang::templates;
use crate::lang::term::{program, Dialect};
use crate::par;
use crate::report::Report;
use crate::vmkit::{self, Settings};
use gluon::base::ast::{self as gast, Expr, Pattern, PatternField, SpannedExpr, SpannedPattern, Typed as _};
use gluon::base::kind::{ArcKind, KindEnv};
use gluon::base::pos::{BytePos, Span};
use gluon::base::resolve;
use gluon::base::symbol::{Symbol, SymbolRef};
use gluon::base::types::{Alias, ArcType, NullInterner, Type, TypeEnv, TypeExt};
use gluon::compiler_pipeline::{Salvage, TypecheckValue, Typecheckable};
use gluon::vm::vm::{VmEnv, VmEnvInstance};
use gluon::{RootedThread, ThreadExt};
use gluon_completion as completion;
use gluon_completion::SuggestionQuery;
use serde_json::{json, Value};
use std::cell::RefCell;
use std::collections::{BTreeMap, BTreeSet, HashSet};
use std::panic::{catch_unwind, AssertUnwindSafe};
use std::time::Duration;

const FILE: &str = "c20case";
/// a worker's VM is replaced after this many variants (its code map only grows)
const VM_RECYCLE: usize = 250;
/// per-variant wall cap in the children (quick / thorough): the largest variants take well under
/// a second; what exceeds the cap is a hang of the front end (C09) or of a query
fn case_timeout(tier: &str) -> Duration {
    Duration::from_secs(if tier == "quick" { 5 } else { 30 })
}

// ---------------------------------------------------------------------------------------------
// environment handed to the queries: the VM's own, plus `CompletionEnv` (the `gluon_completion`
// feature of the `gluon` crate, which implements it for `VmEnvInstance` in exactly this way, is
// not enabled in the harness build)

pub struct QEnv<'a> {
    inner: VmEnvInstance<'a>,
}
impl<'a> KindEnv for QEnv<'a> {
    fn find_kind(&self, id: &SymbolRef) -> Option<ArcKind> {
        self.inner.find_kind(id)
    }
}
impl<'a> TypeEnv for QEnv<'a> {
    type Type = ArcType;
    fn find_type(&self, id: &SymbolRef) -> Option<ArcType> {
        TypeEnv::find_type(&self.inner, id)
    }
    fn find_type_info(&self, id: &SymbolRef) -> Option<Alias<Symbol, ArcType>> {
        TypeEnv::find_type_info(&self.inner, id)
    }
}
impl<'a> completion::CompletionEnv for QEnv<'a> {
    fn list_types(&self, consume: &mut dyn FnMut(&Symbol, &ArcType)) {
        self.inner.list_vm_types(consume)
    }
}

// ---------------------------------------------------------------------------------------------
// front end

pub struct Typed {
    pub value: TypecheckValue<gast::OwnedExpr<Symbol>>,
    /// no error of any stage
    pub clean: bool,
    pub span: Span<BytePos>,
}

pub enum Front {
    Typed(Typed),
    /// the parser could not salvage any expression
    NoAst,
    /// the front end itself panicked (property C09's business)
    Panicked(String),
}

pub fn frontend(vm: &RootedThread, text: &str) -> Front {
    let r = catch_unwind(AssertUnwindSafe(|| {
        let mut db = vm.get_database();
        let mut compiler = vm.module_compiler(&mut db);
        futures::executor::block_on(text.typecheck_expected(&mut compiler, vm, FILE, text, None))
    }));
    let r = match r {
        Ok(r) => r,
        Err(p) => return Front::Panicked(format!("{} @ {}", vmkit::panic_message(&p), vmkit::last_panic_loc())),
    };
    let (value, clean) = match r {
        Ok(v) => (v, true),
        Err(Salvage { value: Some(v), .. }) => (v, false),
        Err(Salvage { value: None, .. }) => return Front::NoAst,
    };
    let fm = match vm.get_database().get_filemap(FILE) {
        Some(fm) => fm,
        None => return Front::NoAst,
    };
    if gluon::base::source::Source::src(&*fm) != text {
        return Front::Panicked("the code map's text of the file differs from the input".into());
    }
    Front::Typed(Typed { value, clean, span: fm.span() })
}

// ---------------------------------------------------------------------------------------------
// the harness' own token partition (only used to choose mutation points)

#[derive(Clone, Copy, Debug)]
struct Tok {
    lo: usize,
    hi: usize,
}

fn is_op_char(c: u8) -> bool {
    b"!#$%&*+-./<=>?@\\^|~:".contains(&c)
}

fn tokenize(s: &str) -> Vec<Tok> {
    let b = s.as_bytes();
    let n = b.len();
    let mut out = Vec::new();
    let mut i = 0;
    while i < n {
        let c = b[i];
        if c.is_ascii_whitespace() {
            i += 1;
            continue;
        }
        let lo = i;
        if c == b'/' && b.get(i + 1) == Some(&b'/') {
            while i < n && b[i] != b'\n' {
                i += 1;
            }
        } else if c == b'/' && b.get(i + 1) == Some(&b'*') {
            i = match s[i + 2..].find("*/") {
                Some(p) => i + 2 + p + 2,
                None => n,
            };
        } else if c == b'"' {
            i += 1;
            while i < n {
                if b[i] == b'\\' {
                    i += 2;
                    continue;
                }
                if b[i] == b'"' {
                    i += 1;
                    break;
                }
                i += 1;
            }
        } else if c == b'\'' {
            let mut j = i + 1;
            if j < n && b[j] == b'\\' {
                j += 1;
            }
            if j < n {
                j += s[j..].chars().next().map(|c| c.len_utf8()).unwrap_or(1);
            }
            if j < n && b[j] == b'\'' {
                i = j + 1;
            } else {
                i += 1;
            }
        } else if c.is_ascii_alphabetic() || c == b'_' || c >= 0x80 {
            while i < n && (b[i].is_ascii_alphanumeric() || b[i] == b'_' || b[i] == b'\'' || b[i] >= 0x80) {
                i += 1;
            }
        } else if c.is_ascii_digit() {
            while i < n && (b[i].is_ascii_alphanumeric() || b[i] == b'_') {
                i += 1;
            }
            if i + 1 < n && b[i] == b'.' && b[i + 1].is_ascii_digit() {
                i += 1;
                while i < n && (b[i].is_ascii_alphanumeric() || b[i] == b'_') {
                    i += 1;
                }
            }
        } else if is_op_char(c) {
            while i < n && is_op_char(b[i]) {
                if i > lo && b[i] == b'/' && (b.get(i + 1) == Some(&b'/') || b.get(i + 1) == Some(&b'*')) {
                    break;
                }
                i += 1;
            }
        } else {
            i += 1;
        }
        i = i.min(n);
        while !s.is_char_boundary(i) {
            i += 1;
        }
        out.push(Tok { lo, hi: i });
    }
    out
}

// ---------------------------------------------------------------------------------------------
// reference model: identifier occurrences with the checker's type and the lexical scope

#[derive(Clone, Copy, PartialEq, Eq, Debug)]
enum OccKind {
    Use,
    Binder,
    Field,
}

struct Occ {
    kind: OccKind,
    /// file offsets; the occurrence covers lo..=hi (gluon's spans are end-inclusive for cursor
    /// purposes: a cursor directly behind an identifier belongs to it, completion/tests/completion.rs
    /// `identifier`)
    lo: u32,
    hi: u32,
    name: String,
    typ: ArcType,
    /// Use: value names in scope; Field: the field names of the projected record
    names: BTreeSet<String>,
    /// Use: type names in scope
    tnames: BTreeSet<String>,
}

struct Model<'e, 'a> {
    env: &'e QEnv<'a>,
    text: &'e str,
    base: u32,
    scope: Vec<String>,
    tscope: Vec<String>,
    occs: Vec<Occ>,
}

impl<'e, 'a> Model<'e, 'a> {
    /// file offsets of a span that lies in the file
    fn offsets(&self, span: Span<BytePos>) -> Option<(u32, u32)> {
        let (s, e) = (span.start().0, span.end().0);
        if s < self.base || e < s || (e - self.base) as usize > self.text.len() {
            return None;
        }
        Some((s - self.base, e - self.base))
    }

    fn text_is(&self, lo: u32, hi: u32, name: &str) -> bool {
        self.text.get(lo as usize..hi as usize) == Some(name)
    }

    fn is_ident_text(name: &str) -> bool {
        let mut cs = name.chars();
        match cs.next() {
            Some(c) if c.is_ascii_alphabetic() || c == '_' => cs.all(|c| c.is_ascii_alphanumeric() || c == '_' || c == '\''),
            _ => false,
        }
    }

    fn ctor_names(alias: &Alias<Symbol, ArcType>, out: &mut Vec<String>) {
        let t = alias.unresolved_type().remove_forall();
        if let Type::Variant(ref row) = **t {
            for f in row.row_iter() {
                out.push(f.name.declared_name().to_string());
            }
        }
    }

    /// names (values, types) bound by a pattern
    fn pattern_names(&mut self, p: &SpannedPattern<'_, Symbol>, vals: &mut Vec<String>, tys: &mut Vec<String>) {
        match &p.value {
            Pattern::As(id, inner) => {
                vals.push(id.value.declared_name().to_string());
                self.pattern_names(inner, vals, tys);
            }
            Pattern::Ident(id) => {
                vals.push(id.name.declared_name().to_string());
                if let Some((lo, hi)) = self.offsets(p.span) {
                    let name = id.name.declared_name();
                    if Self::is_ident_text(name) && self.text_is(lo, hi, name) {
                        self.occs.push(Occ {
                            kind: OccKind::Binder,
                            lo,
                            hi,
                            name: name.to_string(),
                            typ: id.typ.clone(),
                            names: BTreeSet::new(),
                            tnames: BTreeSet::new(),
                        });
                    }
                }
            }
            Pattern::Constructor(_, args) => {
                for a in args.iter() {
                    self.pattern_names(a, vals, tys);
                }
            }
            Pattern::Tuple { elems, .. } => {
                for a in elems.iter() {
                    self.pattern_names(a, vals, tys);
                }
            }
            Pattern::Record { typ, fields, .. } => {
                let unaliased = resolve::remove_aliases(self.env, NullInterner::new(), typ.clone());
                for f in fields.iter() {
                    match f {
                        PatternField::Type { name } => {
                            tys.push(name.value.declared_name().to_string());
                            if let Some(field) = unaliased.type_field_iter().find(|field| field.name.name_eq(&name.value)) {
                                Self::ctor_names(&field.typ, vals);
                            }
                        }
                        PatternField::Value { name, value } => match value {
                            Some(v) => self.pattern_names(v, vals, tys),
                            None => vals.push(name.value.declared_name().to_string()),
                        },
                    }
                }
            }
            Pattern::Literal(_) | Pattern::Error => {}
        }
    }

    fn with_scope(&mut self, vals: Vec<String>, tys: Vec<String>, f: impl FnOnce(&mut Self)) {
        let (n, m) = (self.scope.len(), self.tscope.len());
        self.scope.extend(vals);
        self.tscope.extend(tys);
        f(self);
        self.scope.truncate(n);
        self.tscope.truncate(m);
    }

    fn arg_binders(&mut self, args: &[gast::Argument<gast::SpannedIdent<Symbol>>]) -> Vec<String> {
        let mut out = Vec::new();
        for a in args {
            let name = a.name.value.name.declared_name();
            out.push(name.to_string());
            if let Some((lo, hi)) = self.offsets(a.name.span) {
                if Self::is_ident_text(name) && self.text_is(lo, hi, name) {
                    self.occs.push(Occ {
                        kind: OccKind::Binder,
                        lo,
                        hi,
                        name: name.to_string(),
                        typ: a.name.value.typ.clone(),
                        names: BTreeSet::new(),
                        tnames: BTreeSet::new(),
                    });
                }
            }
        }
        out
    }

    fn expr(&mut self, e: &SpannedExpr<'_, Symbol>) {
        match &e.value {
            Expr::Ident(id) => {
                if let Some((lo, hi)) = self.offsets(e.span) {
                    let name = id.name.declared_name();
                    if Self::is_ident_text(name) && self.text_is(lo, hi, name) {
                        self.occs.push(Occ {
                            kind: OccKind::Use,
                            lo,
                            hi,
                            name: name.to_string(),
                            typ: id.typ.clone(),
                            names: self.scope.iter().cloned().collect(),
                            tnames: self.tscope.iter().cloned().collect(),
                        });
                    }
                }
            }
            Expr::Literal(_) | Expr::Error(_) => {}
            Expr::App { func, args, .. } => {
                // implicit_args are inserted by the checker (not source occurrences; the queries
                // do not visit them either)
                self.expr(func);
                for a in args.iter() {
                    self.expr(a);
                }
            }
            Expr::Lambda(l) => {
                let vals = self.arg_binders(&l.args);
                self.with_scope(vals, vec![], |m| m.expr(&l.body));
            }
            Expr::IfElse(a, b, c) => {
                self.expr(a);
                self.expr(b);
                self.expr(c);
            }
            Expr::Match(s, alts) => {
                self.expr(s);
                for alt in alts.iter() {
                    let (mut vals, mut tys) = (Vec::new(), Vec::new());
                    self.pattern_names(&alt.pattern, &mut vals, &mut tys);
                    self.with_scope(vals, tys, |m| m.expr(&alt.expr));
                }
            }
            Expr::Infix { lhs, rhs, .. } => {
                self.expr(lhs);
                self.expr(rhs);
            }
            Expr::Projection(inner, field, typ) => {
                self.expr(inner);
                if let (Some((_, ihi)), Some((_, hi))) = (self.offsets(inner.span), self.offsets(e.span)) {
                    let name = field.declared_name();
                    let flen = name.len() as u32;
                    // `<inner>.<field>` with the field's text directly at the end of the node
                    if Self::is_ident_text(name) && hi >= flen && hi - flen > ihi && self.text_is(hi - flen, hi, name) {
                        if let Ok(t) = inner.try_type_of(self.env) {
                            let t = resolve::remove_aliases(self.env, NullInterner::new(), t);
                            let names: BTreeSet<String> = t.row_iter().map(|f| f.name.declared_name().to_string()).collect();
                            self.occs.push(Occ {
                                kind: OccKind::Field,
                                lo: hi - flen,
                                hi,
                                name: name.to_string(),
                                typ: typ.clone(),
                                names,
                                tnames: BTreeSet::new(),
                            });
                        }
                    }
                }
            }
            Expr::Array(a) => {
                for x in a.exprs.iter() {
                    self.expr(x);
                }
            }
            Expr::Record { exprs, base, .. } => {
                for f in exprs.iter() {
                    if let Some(v) = &f.value {
                        self.expr(v);
                    }
                }
                if let Some(b) = base {
                    self.expr(b);
                }
            }
            Expr::Tuple { elems, .. } => {
                for x in elems.iter() {
                    self.expr(x);
                }
            }
            Expr::Block(xs) => {
                for x in xs.iter() {
                    self.expr(x);
                }
            }
            Expr::LetBindings(binds, body) => {
                let recursive = binds.is_recursive();
                let (mut vals, mut tys) = (Vec::new(), Vec::new());
                for b in binds.iter() {
                    self.pattern_names(&b.name, &mut vals, &mut tys);
                }
                let (n, m) = (self.scope.len(), self.tscope.len());
                if recursive {
                    self.scope.extend(vals.iter().cloned());
                    self.tscope.extend(tys.iter().cloned());
                }
                for b in binds.iter() {
                    let args = self.arg_binders(&b.args);
                    self.with_scope(args, vec![], |m| m.expr(&b.expr));
                }
                if !recursive {
                    self.scope.extend(vals);
                    self.tscope.extend(tys);
                }
                self.expr(body);
                self.scope.truncate(n);
                self.tscope.truncate(m);
            }
            Expr::TypeBindings(binds, body) => {
                let (mut vals, mut tys) = (Vec::new(), Vec::new());
                for b in binds.iter() {
                    tys.push(b.name.value.declared_name().to_string());
                    if let Some(alias) = &b.finalized_alias {
                        Self::ctor_names(alias, &mut vals);
                    }
                }
                self.with_scope(vals, tys, |m| m.expr(body));
            }
            Expr::Do(d) => {
                self.expr(&d.bound);
                let (mut vals, mut tys) = (Vec::new(), Vec::new());
                if let Some(p) = &d.id {
                    self.pattern_names(p, &mut vals, &mut tys);
                }
                self.with_scope(vals, tys, |m| m.expr(&d.body));
            }
            Expr::MacroExpansion { replacement, .. } => self.expr(replacement),
            Expr::Annotated(inner, _) => self.expr(inner),
        }
    }
}

// ---------------------------------------------------------------------------------------------
// one variant: all offsets x all queries (+ the oracle)

fn normalize_msg(m: &str) -> String {
    let m = m.split(" Please report an issue").next().unwrap_or(m);
    let mut out = String::new();
    let mut prev_digit = false;
    for c in m.chars() {
        if c.is_ascii_digit() {
            if !prev_digit {
                out.push('N');
            }
            prev_digit = true;
        } else {
            prev_digit = false;
            out.push(c);
        }
    }
    clip(&out, 120)
}

fn clip(s: &str, n: usize) -> String {
    if s.len() <= n {
        return s.to_string();
    }
    let mut i = n;
    while !s.is_char_boundary(i) {
        i -= 1;
    }
    format!("{}…", &s[..i])
}

fn norm_loc(loc: &str) -> String {
    loc.trim_start_matches("/repo/").to_string()
}

#[derive(Default)]
struct VariantOut {
    front: &'static str,
    front_note: String,
    offsets: u64,
    queries: u64,
    nontrivial: u64,
    find_use: u64,
    find_binder: u64,
    find_field: u64,
    suggest_use: u64,
    suggest_field: u64,
    suggested_names: u64,
    symbol_agree: u64,
    symbol_total: u64,
    occs: u64,
    /// key -> (what, offset, query)
    viol: BTreeMap<String, (String, u32, String)>,
    sample: Option<Value>,
}

impl VariantOut {
    fn to_json(&self) -> Value {
        json!({
            "front": self.front, "note": self.front_note, "offsets": self.offsets, "queries": self.queries,
            "nontrivial": self.nontrivial, "find_use": self.find_use, "find_binder": self.find_binder,
            "find_field": self.find_field, "suggest_use": self.suggest_use, "suggest_field": self.suggest_field,
            "suggested_names": self.suggested_names, "symbol_agree": self.symbol_agree, "symbol_total": self.symbol_total,
            "occs": self.occs,
            "viol": self.viol.iter().map(|(k, (w, o, q))| json!({"key": k, "what": w, "off": o, "query": q})).collect::<Vec<_>>(),
            "sample": self.sample,
        })
    }
    fn violation(&mut self, key: String, what: String, off: u32, query: &str) {
        self.viol.entry(key).or_insert((what, off, query.to_string()));
    }
}

fn show_type(t: &Result<gluon::either::Either<ArcKind, ArcType>, ()>) -> String {
    match t {
        Ok(gluon::either::Either::Left(k)) => format!("kind {}", k),
        Ok(gluon::either::Either::Right(t)) => clip(&t.to_string().replace('\n', " "), 160),
        Err(()) => "Err(())".into(),
    }
}

/// Runs `f` under catch_unwind; a panic is recorded as a totality violation of `query`. A panic
/// with the same message and location as the one `complete` (the navigation all positional
/// queries share) raised at this very offset is attributed to `complete` only.
fn guarded<T>(
    out: &mut VariantOut,
    nav_panic: &mut Option<String>,
    query: &'static str,
    off: u32,
    f: impl FnOnce() -> T,
) -> Option<T> {
    out.queries += 1;
    match catch_unwind(AssertUnwindSafe(f)) {
        Ok(v) => Some(v),
        Err(p) => {
            let msg = vmkit::panic_message(&p);
            let loc = vmkit::last_panic_loc();
            let sig = format!("{}@{}", normalize_msg(&msg), norm_loc(&loc));
            if query == "complete" {
                *nav_panic = Some(sig.clone());
            } else if nav_panic.as_deref() == Some(sig.as_str()) {
                return None;
            }
            out.violation(
                format!("c20:panic:{}:{}", query, sig),
                format!("{} panicked: {} at {}", query, clip(&msg, 200), loc),
                off,
                query,
            );
            None
        }
    }
}

fn run_variant(vm: &RootedThread, text: &str, oracle: bool, front_only: bool) -> VariantOut {
    let mut out = VariantOut::default();
    let t = match frontend(vm, text) {
        Front::Typed(t) => t,
        Front::NoAst => {
            out.front = "no-ast";
            return out;
        }
        Front::Panicked(m) => {
            out.front = "front-end-panic";
            out.front_note = clip(&m, 200);
            return out;
        }
    };
    out.front = if t.clean { "clean" } else { "errors" };
    if front_only {
        return out;
    }
    let env = QEnv { inner: vm.get_env() };
    let root = t.value.expr.expr();
    let span = t.span;
    let base = span.start().0;
    if (span.end().0 - base) as usize != text.len() {
        out.front = "front-end-panic";
        out.front_note = "file map span does not have the text's length".into();
        return out;
    }
    let mmap = &t.value.metadata_map;

    // reference model
    let mut occs: Vec<Occ> = Vec::new();
    let mut globals: BTreeSet<String> = BTreeSet::new();
    if oracle && t.clean {
        let built = catch_unwind(AssertUnwindSafe(|| {
            let mut m = Model { env: &env, text, base, scope: Vec::new(), tscope: Vec::new(), occs: Vec::new() };
            m.expr(root);
            m.occs
        }));
        if let Ok(o) = built {
            occs = o;
        }
        completion::CompletionEnv::list_types(&env, &mut |s, _| {
            globals.insert(s.declared_name().to_string());
        });
        out.occs = occs.len() as u64;
    }

    let mut nav = None;
    guarded(&mut out, &mut nav, "all_symbols", 0, || completion::all_symbols(span, root).len());

    let all_query = SuggestionQuery { paths: Vec::new(), modules: Vec::new(), prefix_filter: false, span: None };
    // module names offered for `import!` completion (the query's default prefix filter stays on)
    let mod_query = SuggestionQuery {
        paths: Vec::new(),
        modules: ["std.types", "std.prelude", "std.int", "std.int.prim", "std.effect.state", "verif.prim"].iter().map(|s| (*s).into()).collect(),
        prefix_filter: true,
        span: None,
    };
    for off in 0..=text.len() as u32 {
        let pos = BytePos(base + off);
        out.offsets += 1;
        let mut nav_panic: Option<String> = None;
        let mut nonempty = false;
        let found = guarded(&mut out, &mut nav_panic, "complete", off, || completion::complete(span, root, pos).is_ok());
        nonempty |= found == Some(true);
        let find = guarded(&mut out, &mut nav_panic, "find", off, || completion::find(&env, span, root, pos));
        nonempty |= matches!(find, Some(Ok(_)));
        let fas = guarded(&mut out, &mut nav_panic, "find_all_symbols", off, || completion::find_all_symbols(span, root, pos));
        nonempty |= matches!(fas, Some(Ok(_)));
        let mut is_global = None;
        let sym = guarded(&mut out, &mut nav_panic, "symbol", off, || {
            completion::symbol(span, root, pos).map(|s| {
                is_global = Some(s.is_global());
                s.declared_name().to_string()
            })
        });
        nonempty |= matches!(sym, Some(Ok(_)));
        let sug = guarded(&mut out, &mut nav_panic, "suggest", off, || completion::suggest(&env, span, root, pos));
        nonempty |= sug.as_ref().map_or(false, |s| !s.is_empty());
        let sug_all = guarded(&mut out, &mut nav_panic, "suggest(prefix_filter=false)", off, || all_query.suggest(&env, span, root, pos));
        nonempty |= sug_all.as_ref().map_or(false, |s| !s.is_empty());
        if is_global == Some(true) {
            let sm = guarded(&mut out, &mut nav_panic, "suggest(modules)", off, || mod_query.suggest(&env, span, root, pos));
            nonempty |= sm.as_ref().map_or(false, |s| !s.is_empty());
        }
        let sig = guarded(&mut out, &mut nav_panic, "signature_help", off, || completion::signature_help(&env, span, root, pos));
        nonempty |= matches!(sig, Some(Some(_)));
        let md = guarded(&mut out, &mut nav_panic, "get_metadata", off, || completion::get_metadata(mmap, span, root, pos).is_some());
        nonempty |= md == Some(true);
        let md_name: String = sug_all
            .as_ref()
            .and_then(|s| s.first().map(|s| s.name.clone()))
            .unwrap_or_else(|| "x".to_string());
        let smd = guarded(&mut out, &mut nav_panic, "suggest_metadata", off, || {
            completion::suggest_metadata(mmap, &env, span, root, pos, &md_name).is_some()
        });
        nonempty |= smd == Some(true);
        if nonempty {
            out.nontrivial += 1;
        }

        // ---- oracle 2 / 3
        if occs.is_empty() {
            continue;
        }
        let mut hit: Option<&Occ> = None;
        let mut ambiguous = false;
        for o in &occs {
            if o.lo <= off && off <= o.hi {
                if hit.is_some() {
                    ambiguous = true;
                }
                hit = Some(o);
            }
        }
        let o = match (hit, ambiguous) {
            (Some(o), false) => o,
            _ => continue,
        };
        if let Some(f) = &find {
            let ok = matches!(f, Ok(gluon::either::Either::Right(t)) if *t == o.typ);
            match o.kind {
                OccKind::Use => out.find_use += 1,
                OccKind::Binder => out.find_binder += 1,
                OccKind::Field => out.find_field += 1,
            }
            if !ok {
                out.violation(
                    format!("c20:find-disagrees-with-checker:{:?}", o.kind),
                    format!(
                        "find at offset {} (inside the {} `{}` at {}..{}) reports `{}` but the checker stored `{}` on that node",
                        off,
                        match o.kind {
                            OccKind::Use => "identifier use",
                            OccKind::Binder => "binder",
                            OccKind::Field => "projected field",
                        },
                        o.name,
                        o.lo,
                        o.hi,
                        show_type(f),
                        clip(&o.typ.to_string().replace('\n', " "), 160)
                    ),
                    off,
                    "find",
                );
            }
        }
        if o.kind == OccKind::Use {
            if let Some(Ok(s)) = &sym {
                out.symbol_total += 1;
                if *s == o.name {
                    out.symbol_agree += 1;
                }
            }
        }
        if o.kind == OccKind::Use || o.kind == OccKind::Field {
            for (qname, list) in [("suggest", &sug), ("suggest(prefix_filter=false)", &sug_all)] {
                let list = match list {
                    Some(l) => l,
                    None => continue,
                };
                if o.kind == OccKind::Use {
                    out.suggest_use += 1;
                } else {
                    out.suggest_field += 1;
                }
                for s in list {
                    out.suggested_names += 1;
                    let ok = match (o.kind, &s.typ) {
                        (OccKind::Field, _) => o.names.contains(&s.name),
                        (_, gluon::either::Either::Right(_)) => o.names.contains(&s.name) || globals.contains(&s.name),
                        (_, gluon::either::Either::Left(_)) => o.tnames.contains(&s.name),
                    };
                    if !ok {
                        let (key, what) = if o.kind == OccKind::Field {
                            (
                                "c20:suggest-not-a-field".to_string(),
                                format!(
                                    "{} at offset {} (field `{}` of a projection, {}..{}) suggests `{}` which is not a field of the projected record (fields: {:?})",
                                    qname, off, o.name, o.lo, o.hi, s.name, o.names
                                ),
                            )
                        } else {
                            (
                                format!("c20:suggest-out-of-scope:{}", if s.name == "_" { "underscore" } else { "name" }),
                                format!(
                                    "{} at offset {} (identifier use `{}` at {}..{}) suggests `{}` which is neither lexically in scope there (in scope: {:?}) nor a global of the environment",
                                    qname, off, o.name, o.lo, o.hi, s.name, o.names
                                ),
                            )
                        };
                        out.violation(key, what, off, qname);
                    }
                }
            }
        }
        if out.sample.is_none() && o.kind == OccKind::Use && off == o.lo {
            out.sample = Some(json!({
                "offset": off, "identifier": o.name, "find": find.as_ref().map(show_type),
                "suggest": sug.as_ref().map(|l| l.iter().map(|s| s.name.clone()).collect::<Vec<_>>()),
                "in_scope": o.names,
            }));
        }
    }
    out
}

// ---------------------------------------------------------------------------------------------
// child process

struct WorkerVm {
    vm: RootedThread,
    used: usize,
}

thread_local! {
    static VMS: RefCell<[Option<WorkerVm>; 2]> = RefCell::new([None, None]);
}

fn with_vm<T>(prelude: bool, f: impl FnOnce(&RootedThread) -> T) -> T {
    let vm = VMS.with(|v| {
        let mut v = v.borrow_mut();
        let slot = &mut v[prelude as usize];
        let renew = match slot {
            Some(w) => w.used >= VM_RECYCLE,
            None => true,
        };
        if renew {
            *slot = Some(WorkerVm {
                vm: vmkit::make_vm_with_prim(Settings { implicit_prelude: prelude, ..Settings::bare() }),
                used: 0,
            });
        }
        let w = slot.as_mut().unwrap();
        w.used += 1;
        w.vm.clone()
    });
    f(&vm)
}

/// payload: {"m": "bare"|"prelude", "t": text, "front_only": bool, "fresh": bool}
pub fn worker(payload: &str) -> String {
    let v: Value = match serde_json::from_str(payload) {
        Ok(v) => v,
        Err(e) => return json!({"front": "bad-payload", "note": e.to_string()}).to_string(),
    };
    let prelude = v["m"].as_str() == Some("prelude");
    let text = v["t"].as_str().unwrap_or("");
    let front_only = v["front_only"].as_bool().unwrap_or(false);
    if v["fresh"].as_bool().unwrap_or(false) {
        VMS.with(|v| *v.borrow_mut() = [None, None]);
    }
    let out = with_vm(prelude, |vm| run_variant(vm, text, !prelude, front_only));
    out.to_json().to_string()
}

/// `gv worker c20`: the cases run on a thread with a large native stack
pub fn worker_main() {
    let h = std::thread::Builder::new()
        .stack_size(256 << 20)
        .spawn(|| {
            // records the location only and never prints: the child's stderr is a pipe that
            // nobody drains while the child lives
            std::panic::set_hook(Box::new(|info| {
                let loc = info.location().map(|l| format!("{}:{}", l.file(), l.line())).unwrap_or_default();
                vmkit::LAST_PANIC_LOC.with(|c| *c.borrow_mut() = loc);
            }));
            isolate::worker_loop(worker)
        })
        .expect("spawn worker thread");
    let _ = h.join();
}

// ---------------------------------------------------------------------------------------------
// the input space

/// hand written programs in the book's surface syntax (book/src/syntax-and-semantics.md,
/// metadata.md, modules.md): what the GL-core printer never emits
const FEATURES: &[(&str, &str)] = &[
    ("let-use", "let abc = 1 in abc"),
    ("shadow", "let x = 1\nlet x = \"s\"\nlet y = x\ny"),
    ("fun-args", "let add x y = x #Int+ y\nadd 1 2"),
    ("self-recursion", "let f x = if x #Int< 1 then 0 else f (x #Int- 1)\nf 3"),
    ("rec-group", "rec\nlet even n = if n #Int== 0 then 1 else odd (n #Int- 1)\nlet odd n = if n #Int== 0 then 0 else even (n #Int- 1)\nin even 4"),
    ("lambda", "let k = \\a b -> a\nk 1 \"s\""),
    ("annotation", "let id : forall a . a -> a = \\x -> x\nlet n : Int = id 1\nid \"s\""),
    ("rank2", "let g f : (forall a . a -> a) -> Int = f 1\ng (\\x -> x)"),
    ("rank2-app-arg", "let g x : (forall a . a -> a) -> Int = 1\nlet h y = y\nlet k z = h\ng (k 1)"),
    ("empty-array", "[]"),
    ("unit-pattern-let", "let () = ()\n1"),
    ("unit-pattern", "let () = ()\nmatch () with\n| () -> 1"),
    ("empty-collections", "let xs = []\nlet r = {}\nlet u = ()\n(xs, r, u)"),
    ("rank2-record", "type Id = { id : forall a . a -> a }\nlet r : Id = { id = \\x -> x }\nr.id 1"),
    ("record", "let r = { x = 1, y = \"s\", f = \\a -> a }\nr.f r.x"),
    ("record-shorthand", "let x = 1\nlet y = 2.0\nlet r = { x, y }\nr.y"),
    ("record-update", "let r = { x = 1, y = 2 }\nlet q = { x = 3, .. r }\nq.y"),
    ("nested-projection", "let r = { a = { b = { c = 1 } } }\nr.a.b.c"),
    ("record-pattern", "let { x, y = z } = { x = 1, y = \"s\" }\nlet w = x\nz"),
    ("tuple", "let (a, b) = (1, \"s\")\nlet t = (b, a)\nt"),
    ("as-pattern", "match (1, 2) with\n| p@(a, _) -> (p, a)"),
    ("variant", "type T = | A Int | B String T | C\nlet f t =\n    match t with\n    | A i -> i\n    | B s u -> f u\n    | C -> 0\nf (B \"s\" (A 1))"),
    ("param-type", "type Option a = | None | Some a\nlet map f o =\n    match o with\n    | Some x -> Some (f x)\n    | None -> None\nmap (\\x -> x #Int+ 1) (Some 1)"),
    ("gadt-syntax", "type T a = | I : Int -> T Int | S : String -> T String\nlet t = I 1\nt"),
    ("type-alias", "type Pair a b = { fst : a, snd : b }\nlet p : Pair Int String = { fst = 1, snd = \"s\" }\np.snd"),
    ("rec-types", "rec\ntype Tree = | Leaf | Node Forest\ntype Forest = | Nil | Cons Tree Forest\nin\nlet t = Node (Cons Leaf Nil)\nt"),
    ("type-field", "type T = | K Int\nlet m = { T, v = K 1 }\nlet { T, v } = m\nmatch v with\n| K n -> n"),
    ("import-bool", "let { Bool } = import! std.types\nlet b = True\nif b then False else b"),
    ("import-module-use", "let prim = import! std.int.prim\nprim.signum 1"),
    ("if-literals", "let c = 'a'\nlet f = 1.5\nlet b = 1b\nlet s = \"a\\nb\"\nif 1 #Int< 2 then s else \"t\""),
    ("array", "let xs = [1, 2, 3]\nlet ys = [xs, xs]\nys"),
    ("block", "type Option a = | None | Some a\nlet flat_map f m =\n    match m with\n    | Some x -> f x\n    | None -> None\nlet g x = Some x\ng 1\ng \"s\"\ng ()"),
    ("operator-def", "#[infix(left, 6)]\nlet (+++) a b = a #Int+ b\nlet r = 1 +++ 2 +++ 3\n(+++) r 1"),
    ("do", "type Option a = | None | Some a\nlet flat_map f m =\n    match m with\n    | Some x -> f x\n    | None -> None\ndo x = Some 1\ndo y = Some x\nSome (x #Int+ y)"),
    ("seq", "type Option a = | None | Some a\nlet flat_map f m =\n    match m with\n    | Some x -> f x\n    | None -> None\nseq Some 1\nSome 2"),
    ("implicit", "type Show a = { show : a -> String }\n#[implicit]\nlet show_int : Show Int = { show = \\i -> \"int\" }\nlet show ?s : [Show a] -> a -> String = s.show\nshow 1"),
    ("doc-comments", "/// The answer\nlet answer = 42\n/// Adds one\n/// to its argument\nlet succ x = x #Int+ 1\n/** block doc */\nlet r = { /// field doc\n    f = succ }\nr.f answer"),
    ("attributes", "#[doc(hidden)]\nlet hidden = 1\n#[implicit]\ntype T = | A | B\n#[inline(never)]\nlet f x = hidden\nf A"),
    ("comments", "// line comment\nlet x = /* inline */ 1\n/* block\n   comment */\nx // trailing"),
    ("non-ascii", "// é comment\nlet s = \"åäö→\"\nlet t = s\nt"),
    ("string-raw", "let s = r#\"raw \"quoted\" text\"#\ns"),
    ("nested-let", "let f =\n    let g y =\n        let h z = z\n        h y\n    g\nf 1"),
    ("match-nested", "type O = | N | S Int\nlet f o p =\n    match (o, p) with\n    | (S a, S b) -> a #Int+ b\n    | (S a, N) -> a\n    | (N, q) -> 0\nf N (S 1)"),
    ("match-literal", "let f x =\n    match x with\n    | 0 -> \"zero\"\n    | 1 -> \"one\"\n    | n -> \"many\"\nf 2"),
    ("open-record-arg", "let get_x r = r.x\nget_x { x = 1, y = 2 }"),
    ("higher-order", "let compose f g x = f (g x)\nlet inc x = x #Int+ 1\ncompose inc inc 0"),
    ("partial-projection", "let r = { abc = 1, abd = 2, xyz = 3 }\nr.ab"),
    ("partial-ident", "let test = 1\nlet tes = \"\"\nlet aaa = test\nte"),
    ("trailing-dot", "let r = { abc = 1 }\nr."),
    ("unbound", "let x = 1\nx #Int+ y"),
    ("type-error", "let f x = x #Int+ 1\nf \"s\""),
];

const PRELUDE_FEATURES: &[(&str, &str)] = &[
    ("p-effect", "let { Eff, inject_rest, ? } = import! std.effect\nlet { State, get, put, eval_state } = import! std.effect.state\nlet { run_pure } = import! std.effect\nlet action : Eff [| state : State Int | r |] Int = get\nrun_pure (eval_state 1 action)"),
    ("p-arith", "let x = 1 + 2 * 3\nx - 1"),
    ("p-compare", "let f x y : Int -> Int -> Int = if x < y then x else y\nf 1 2 == 1"),
    ("p-show", "let s = show 1\nlet t = show 1.5\n(s, t)"),
    ("p-option", "let o = Some 1\nmatch o with\n| Some x -> x + 1\n| None -> 0"),
    ("p-import", "let { map } = import! std.functor\nlet list @ { List, ? } = import! std.list\nmap (\\x -> x + 1) (list.of [1, 2])"),
    ("p-do-io", "let io @ { ? } = import! std.io\ndo _ = io.println \"a\"\nio.println \"b\""),
    ("p-string", "let string = import! std.string\nstring.len \"abc\" + 1"),
];

/// feature programs that are erroneous on purpose (what an editor sees while the user types)
const ERRONEOUS_FEATURES: &[&str] = &["partial-projection", "partial-ident", "trailing-dot", "unbound", "type-error"];

fn is_feature(label: &str) -> bool {
    FEATURES.iter().chain(PRELUDE_FEATURES.iter()).any(|(n, _)| *n == label) && !ERRONEOUS_FEATURES.contains(&label)
}

#[derive(Clone)]
struct Case {
    label: String,
    kind: &'static str,
    prelude: bool,
    text: String,
}

fn payload(c: &Case, front_only: bool, fresh: bool) -> String {
    json!({"m": if c.prelude { "prelude" } else { "bare" }, "t": c.text, "front_only": front_only, "fresh": fresh}).to_string()
}

struct Space {
    cases: Vec<Case>,
    seen: HashSet<(bool, String)>,
    bases: BTreeMap<String, u64>,
}

impl Space {
    fn push(&mut self, label: &str, kind: &'static str, prelude: bool, text: String) {
        if self.seen.insert((prelude, text.clone())) {
            self.cases.push(Case { label: label.to_string(), kind, prelude, text });
        }
    }
    /// the complete text and, over the tokens whose start is >= `from`, every truncation and
    /// every single-token deletion
    fn add(&mut self, family: &str, label: &str, prelude: bool, text: &str, mutate: bool, from: usize) {
        *self.bases.entry(family.to_string()).or_insert(0) += 1;
        self.push(label, "complete", prelude, text.to_string());
        if !mutate {
            return;
        }
        let toks = tokenize(text);
        for t in toks.iter().filter(|t| t.lo >= from) {
            self.push(label, "truncated", prelude, text[..t.hi].to_string());
        }
        for t in toks.iter().filter(|t| t.lo >= from) {
            let mut s = String::with_capacity(text.len());
            s.push_str(&text[..t.lo]);
            s.push_str(&text[t.hi..]);
            self.push(label, "token-deleted", prelude, s);
        }
    }
}

fn std_files(max_bytes: usize, limit: usize) -> Vec<(String, String)> {
    let mut out = Vec::new();
    if let Ok(rd) = std::fs::read_dir("/repo/std") {
        for e in rd.flatten() {
            let p = e.path();
            if p.extension().and_then(|x| x.to_str()) != Some("glu") {
                continue;
            }
            if let Ok(text) = std::fs::read_to_string(&p) {
                if text.len() <= max_bytes {
                    out.push((p.file_name().unwrap().to_string_lossy().to_string(), text));
                }
            }
        }
    }
    out.sort_by(|a, b| (a.1.len(), &a.0).cmp(&(b.1.len(), &b.0)));
    out.truncate(limit);
    out
}

const HEADER_END: &str = "type O = | N | S Int\n";

fn space(tier: &str) -> Space {
    let quick = tier == "quick";
    let mut sp = Space { cases: Vec::new(), seen: HashSet::new(), bases: BTreeMap::new() };
    for (name, src) in FEATURES {
        sp.add("feature", name, false, src, true, 0);
    }
    for (name, src) in PRELUDE_FEATURES {
        sp.add("feature+prelude", name, true, src, true, 0);
    }
    // generated programs: mutation points range over the body (the header is the same text in
    // every program; its mutants are enumerated once, on the first program)
    let mut g = Gen::new(Cfg::standard());
    let (mut_upto, upto) = if quick { (3, 4) } else { (4, 5) };
    let mut first = true;
    for n in 1..=upto {
        for ty in top_types() {
            for t in g.gen(&vec![], &ty, n).iter() {
                let src = program(Dialect::Bare, t);
                let body = src.find(HEADER_END).map(|i| i + HEADER_END.len()).unwrap_or(0);
                sp.add(&format!("gen-size-{}", n), "gen", false, &src, n <= mut_upto, if first { 0 } else { body });
                first = false;
            }
        }
    }
    let fams = templates::all(tier);
    let stride = if quick { 7 } else { 1 };
    let mstride = if quick { 61 } else { 5 };
    for (i, (name, t)) in fams.iter().enumerate() {
        if i % stride == 0 {
            let src = program(Dialect::Bare, t);
            let body = src.find(HEADER_END).map(|i| i + HEADER_END.len()).unwrap_or(0);
            sp.add("template", name, false, &src, i % mstride == 0, body);
        }
        if i % (stride * 9) == 0 {
            let src = program(Dialect::Prelude, t);
            sp.add("template+prelude", name, true, &src, false, 0);
        }
    }
    let (max_bytes, limit, mut_bytes) = if quick { (700, 12, 420) } else { (6000, 70, 2200) };
    for (name, text) in std_files(max_bytes, limit) {
        sp.add("std", &name, false, &text, text.len() <= mut_bytes, 0);
    }
    sp
}

// ---------------------------------------------------------------------------------------------
// parent

struct Found {
    /// the front end accepted the text without any error
    clean: bool,
    what: String,
    case: Case,
    off: u32,
    query: String,
}

/// keeps, per key, the preferred reproducer: error-free texts before erroneous ones, then shorter
fn consider(found: &mut BTreeMap<String, Found>, key: &str, what: &str, case: &Case, off: u32, query: &str, clean: bool) {
    let better = match found.get(key) {
        None => true,
        Some(f) => (!clean, case.text.len(), off) < (!f.clean, f.case.text.len(), f.off),
    };
    if better {
        found.insert(key.to_string(), Found { clean, what: what.to_string(), case: case.clone(), off, query: query.to_string() });
    }
}

fn is_clean(res: &str) -> bool {
    serde_json::from_str::<Value>(res).map(|v| v["front"].as_str() == Some("clean")).unwrap_or(false)
}

/// one variant in a fresh child with a fresh VM; Some(result json) if the child survived
fn run_single(c: &Case, front_only: bool, timeout: Duration) -> CaseOutcome {
    let cases = vec![payload(c, front_only, true)];
    let r = isolate::run_isolated("c20", &cases, 1, timeout, None);
    r.outcomes.into_iter().next().flatten().unwrap_or(CaseOutcome::Crashed("no outcome".into()))
}

fn keys_of(res: &str) -> Vec<(String, String, u32, String)> {
    let v: Value = serde_json::from_str(res).unwrap_or(Value::Null);
    v["viol"]
        .as_array()
        .map(|a| {
            a.iter()
                .map(|x| {
                    (
                        x["key"].as_str().unwrap_or("").to_string(),
                        x["what"].as_str().unwrap_or("").to_string(),
                        x["off"].as_u64().unwrap_or(0) as u32,
                        x["query"].as_str().unwrap_or("").to_string(),
                    )
                })
                .collect()
        })
        .unwrap_or_default()
}

fn abort_class(desc: &str) -> String {
    if desc.contains("signal 11") || desc.contains("signal 6") && desc.contains("overflowed its stack") || desc.contains("stack overflow") {
        "stack-overflow".into()
    } else if let Some(p) = desc.find("signal ") {
        desc[p..].split_whitespace().take(2).collect::<Vec<_>>().join("-")
    } else {
        "process-died".into()
    }
}

/// reduction of a violating text: delete windows of tokens (halving window sizes down to one
/// token, ddmin style), then squeeze whitespace; every candidate runs in isolated children and
/// must show the same key
fn minimise(key: &str, f: Found, workers: usize, timeout: Duration, stop_at: std::time::Instant) -> Found {
    if key.starts_with("c20:abort") || key.starts_with("c20:hang") || (f.clean && f.case.text.len() <= 80) {
        return f;
    }
    let try_all = |cur: &Found, texts: Vec<String>| -> Option<Found> {
        let cands: Vec<Case> = texts
            .into_iter()
            .filter(|t| t.len() < cur.case.text.len())
            .map(|t| Case { text: t, ..cur.case.clone() })
            .collect();
        if cands.is_empty() {
            return None;
        }
        let payloads: Vec<String> = cands.iter().map(|c| payload(c, false, false)).collect();
        let r = isolate::run_isolated("c20", &payloads, workers, timeout, None);
        let mut next: Option<Found> = None;
        for (c, o) in cands.iter().zip(r.outcomes.iter()) {
            if let Some(CaseOutcome::Done(res)) = o {
                if let Some((_, what, off, q)) = keys_of(res).into_iter().find(|k| k.0 == key) {
                    let cand = Found { clean: is_clean(res), what, case: c.clone(), off, query: q };
                    if cur.clean && !cand.clean {
                        continue;
                    }
                    if next.as_ref().map_or(true, |n| cand.case.text.len() < n.case.text.len()) {
                        next = Some(cand);
                    }
                }
            }
        }
        next
    };
    let mut cur = f;
    for _round in 0..60 {
        if std::time::Instant::now() >= stop_at {
            break;
        }
        let toks = tokenize(&cur.case.text);
        let n = toks.len();
        if n == 0 {
            break;
        }
        let mut progressed = false;
        let mut w = n;
        while w >= 1 {
            let mut texts = Vec::new();
            let mut i = 0;
            while i < n {
                let j = (i + w).min(n);
                let mut s = String::new();
                s.push_str(&cur.case.text[..toks[i].lo]);
                s.push_str(&cur.case.text[toks[j - 1].hi..]);
                texts.push(s);
                i += if w == 1 { 1 } else { (w / 2).max(1) };
            }
            if let Some(nx) = try_all(&cur, texts) {
                cur = nx;
                progressed = true;
                break;
            }
            w /= 2;
        }
        if !progressed {
            // every contiguous range of lines
            let lines: Vec<&str> = cur.case.text.lines().collect();
            let mut texts = Vec::new();
            for i in 0..lines.len() {
                for j in i + 1..=lines.len() {
                    if j - i < lines.len() {
                        texts.push(lines[i..j].join("\n"));
                    }
                }
            }
            if let Some(nx) = try_all(&cur, texts) {
                cur = nx;
                progressed = true;
            }
        }
        if !progressed {
            break;
        }
    }
    // whitespace: trim, collapse runs
    let t = &cur.case.text;
    let mut squeezed = String::new();
    let mut prev_ws = false;
    for c in t.trim().chars() {
        if c == ' ' {
            if !prev_ws {
                squeezed.push(c);
            }
            prev_ws = true;
        } else {
            squeezed.push(c);
            prev_ws = c == '\n';
        }
    }
    let lines: Vec<&str> = squeezed.lines().map(|l| l.trim_end()).filter(|l| !l.trim().is_empty()).collect();
    let texts = vec![lines.join("\n"), squeezed.clone(), t.trim().to_string(), t.trim_end().to_string()];
    if let Some(nx) = try_all(&cur, texts) {
        cur = nx;
    }
    cur
}

fn replay_json(key: &str, f: &Found) -> Value {
    json!({
        "engine": "c20", "key": key, "text": f.case.text, "implicit_prelude": f.case.prelude,
        "offset": f.off, "query": f.query, "label": f.case.label, "variant": f.case.kind,
        "how": "typecheck `text` with <&str as gluon::compiler_pipeline::Typecheckable>::typecheck_expected (use the salvaged AST on errors), then call gluon_completion::<query>(.., BytePos(file_map.span().start() + offset))",
    })
}

pub fn run(tier: &str) -> Report {
    if let Ok(p) = std::env::var("C20_PROBE") {
        let text = std::fs::read_to_string(&p).unwrap();
        let c = Case { label: "probe".into(), kind: "complete", prelude: std::env::var("C20_PRELUDE").is_ok(), text };
        println!("{:?}", run_single(&c, false, Duration::from_secs(60)));
        std::process::exit(0);
    }
    let mut rep = Report::new("C20", tier, "exploration");
    let deadline = par::deadline_for(tier, 26, 1380);
    let sp = space(tier);
    let mut cases = sp.cases;
    if rep.seed != 0 && !cases.is_empty() {
        // the seed only permutes the enumeration order
        let k = (rep.seed % cases.len() as u64) as usize;
        cases.rotate_left(k);
    }
    let payloads: Vec<String> = cases.iter().map(|c| payload(c, false, false)).collect();
    let timeout = case_timeout(tier);
    let r = isolate::run_isolated("c20", &payloads, par::n_workers(), timeout, Some(deadline));

    let debug = std::env::var_os("VERIF_DEBUG").is_some();
    if debug {
        eprintln!("c20: sweep of {} variants done at {:.1}s", cases.len(), rep.elapsed());
    }
    let mut found: BTreeMap<String, Found> = BTreeMap::new();
    let mut sums: BTreeMap<&'static str, u64> = BTreeMap::new();
    let mut fronts: BTreeMap<String, u64> = BTreeMap::new();
    let mut kinds: BTreeMap<String, u64> = BTreeMap::new();
    let mut done = 0u64;
    let mut dead: Vec<(usize, String)> = Vec::new();
    let mut front_notes: BTreeMap<String, (u64, String)> = BTreeMap::new();
    let mut feature_errors: Vec<String> = Vec::new();
    let mut samples = 0;
    for (i, o) in r.outcomes.iter().enumerate() {
        match o {
            None => {}
            Some(CaseOutcome::Done(res)) => {
                done += 1;
                let v: Value = serde_json::from_str(res).unwrap_or(Value::Null);
                for k in [
                    "offsets", "queries", "nontrivial", "find_use", "find_binder", "find_field", "suggest_use",
                    "suggest_field", "suggested_names", "symbol_agree", "symbol_total", "occs",
                ] {
                    *sums.entry(k).or_insert(0) += v[k].as_u64().unwrap_or(0);
                }
                let front = v["front"].as_str().unwrap_or("?").to_string();
                if front == "front-end-panic" {
                    let e = front_notes.entry(normalize_msg(v["note"].as_str().unwrap_or(""))).or_insert((0, String::new()));
                    e.0 += 1;
                    if e.1.is_empty() || cases[i].text.len() < e.1.len() {
                        e.1 = cases[i].text.clone();
                    }
                }
                if cases[i].kind == "complete" && front != "clean" && is_feature(&cases[i].label) {
                    feature_errors.push(cases[i].label.clone());
                }
                *fronts.entry(front.clone()).or_insert(0) += 1;
                *kinds.entry(format!("{}{}", cases[i].kind, if cases[i].prelude { "+prelude" } else { "" })).or_insert(0) += 1;
                for (key, what, off, q) in keys_of(res) {
                    rep.add("violating_variants", 1);
                    consider(&mut found, &key, &what, &cases[i], off, &q, front == "clean");
                }
                if !v["sample"].is_null() && samples < 12 && (i % 97 == 0 || samples < 3) {
                    samples += 1;
                    rep.sample(json!({"label": cases[i].label, "variant": cases[i].kind, "text": clip(&cases[i].text, 300), "at": v["sample"]}));
                }
            }
            Some(CaseOutcome::Crashed(d)) => dead.push((i, format!("crashed: {}", d))),
            Some(CaseOutcome::Hung) => dead.push((i, "hung".to_string())),
        }
    }
    // a dead or silent child: front end (C09) or queries (here)? Every such variant is re-run
    // front-end-only (fresh child, fresh VM); those whose front end survives are re-run in full.
    let mut front_dead = 0u64;
    let mut slow_ok = 0u64;
    let mut front_dead_samples: Vec<String> = Vec::new();
    let classify: Vec<&(usize, String)> = dead.iter().take(64).collect();
    if !classify.is_empty() {
        let fronts_only: Vec<String> = classify.iter().map(|(i, _)| payload(&cases[*i], true, true)).collect();
        let r1 = isolate::run_isolated("c20", &fronts_only, par::n_workers(), timeout, None);
        let mut full: Vec<&(usize, String)> = Vec::new();
        for (d, o) in classify.iter().zip(r1.outcomes.iter()) {
            match o {
                Some(CaseOutcome::Done(_)) => full.push(*d),
                _ => {
                    front_dead += 1;
                    if front_dead_samples.len() < 6 {
                        front_dead_samples.push(format!("{}: {:?}", clip(&d.1, 60), clip(&cases[d.0].text, 160)));
                    }
                }
            }
        }
        if !full.is_empty() {
            let payloads2: Vec<String> = full.iter().map(|(i, _)| payload(&cases[*i], false, true)).collect();
            let r2 = isolate::run_isolated("c20", &payloads2, par::n_workers(), timeout * 3, None);
            for ((i, desc), o) in full.iter().zip(r2.outcomes.iter()) {
                let c = &cases[*i];
                match o {
                    Some(CaseOutcome::Done(res)) if desc == "hung" && keys_of(res).is_empty() => {
                        // exceeded the per-variant cap in the sweep (machine load) but completes
                        // within three times the cap when run alone, without any violation
                        slow_ok += 1;
                    }
                    Some(CaseOutcome::Done(_)) | None => rep.machinery(format!(
                        "variant {:?} killed its worker once ({}) but not when re-run alone",
                        clip(&c.text, 120),
                        clip(desc, 200)
                    )),
                    Some(CaseOutcome::Crashed(d2)) => {
                        let key = format!("c20:abort:{}", abort_class(d2));
                        consider(&mut found, &key, &format!("the process died while the queries ran over the variant (front end alone survives): {}", clip(d2, 300)), c, 0, "any", false);
                    }
                    Some(CaseOutcome::Hung) => {
                        consider(&mut found, "c20:hang", "the queries did not return within the time limit (front end alone returns)", c, 0, "any", false);
                    }
                }
            }
        }
    }
    if dead.len() > 64 {
        rep.machinery(format!("{} variants killed their worker; only 64 were classified", dead.len()));
    }

    if debug {
        eprintln!("c20: aggregation and classification of dead workers done at {:.1}s", rep.elapsed());
    }
    // reduction, confirmation on a fresh process + fresh VM, report (keys in parallel)
    let found_list: Vec<(String, Found)> = std::mem::take(&mut found).into_iter().collect();
    let per_key_workers = (par::n_workers() / found_list.len().max(1)).max(2);
    let stop_at = std::time::Instant::now() + Duration::from_secs(if tier == "quick" { 6 } else { 120 });
    let finished: Vec<(String, Found, bool)> = std::thread::scope(|scope| {
        let handles: Vec<_> = found_list
            .into_iter()
            .map(|(key, f)| {
                scope.spawn(move || {
                    let f = minimise(&key, f, per_key_workers, timeout, stop_at);
                    let confirmed = match run_single(&f.case, false, timeout * 3) {
                        CaseOutcome::Done(res) => keys_of(&res).iter().any(|k| k.0 == key),
                        CaseOutcome::Crashed(d) => key == format!("c20:abort:{}", abort_class(&d)),
                        CaseOutcome::Hung => key == "c20:hang",
                    };
                    (key, f, confirmed)
                })
            })
            .collect();
        handles.into_iter().filter_map(|h| h.join().ok()).collect()
    });
    for (key, f, confirmed) in finished {
        if confirmed {
            let what = format!(
                "{} — offset {} of the {} program {:?} (reduced from {}/{})",
                f.what,
                f.off,
                if f.clean { "complete, well typed" } else { "erroneous" },
                clip(&f.case.text, 400),
                f.case.label,
                f.case.kind
            );
            rep.violation(key.clone(), what, replay_json(&key, &f));
        } else {
            rep.machinery(format!("violation {} did not reproduce in a fresh process: {:?}", key, clip(&f.case.text, 200)));
        }
    }
    if debug {
        eprintln!("c20: reduction and confirmation done at {:.1}s", rep.elapsed());
    }
    let exhaustive = !r.capped;
    rep.set("evaluations", sums.get("queries").copied().unwrap_or(0));
    rep.set("distinct_nontrivial", sums.get("nontrivial").copied().unwrap_or(0));
    rep.set("variants_total", cases.len() as u64);
    rep.set("variants_done", done);
    rep.set("offsets", sums.get("offsets").copied().unwrap_or(0));
    rep.set("variant_kinds", json!(kinds));
    rep.set("front_end_results", json!(fronts));
    rep.set("base_programs", json!(sp.bases));
    rep.set(
        "front_end_panics_skipped",
        json!(front_notes.iter().map(|(k, (n, t))| json!({"panic": k, "variants": n, "shortest_text": clip(t, 200)})).collect::<Vec<_>>()),
    );
    rep.set("front_end_process_deaths_or_hangs_skipped", front_dead);
    rep.set("front_end_process_deaths_or_hangs_samples", json!(front_dead_samples));
    rep.set("variants_over_the_time_cap_in_the_sweep_but_fine_alone", slow_ok);
    feature_errors.sort();
    rep.set("feature_programs_with_front_end_errors", json!(feature_errors));
    rep.set("worker_restarts", r.restarts as u64);
    rep.set(
        "oracle_checks",
        json!({
            "identifier_occurrences_in_model": sums.get("occs"),
            "find_at_use_offsets": sums.get("find_use"),
            "find_at_binder_offsets": sums.get("find_binder"),
            "find_at_projected_field_offsets": sums.get("find_field"),
            "suggest_calls_at_use_offsets": sums.get("suggest_use"),
            "suggest_calls_at_field_offsets": sums.get("suggest_field"),
            "suggested_names_checked": sums.get("suggested_names"),
            "symbol_name_agrees_at_use_offsets": format!("{}/{}", sums.get("symbol_agree").copied().unwrap_or(0), sums.get("symbol_total").copied().unwrap_or(0)),
        }),
    );
    rep.set("exhaustive", exhaustive);
    rep.set(
        "rule",
        "variants = distinct texts of {complete, truncated after token i, token i deleted} over the base programs \
         (all GL-core programs up to the size bound and all result types, templates, hand written feature programs, small std files); \
         each variant is typechecked once, then every byte offset 0..=len is given to complete, find, find_all_symbols, symbol, suggest, \
         suggest(prefix_filter=false), signature_help, get_metadata, suggest_metadata (+ suggest with a module list where the symbol under the cursor is a global, + all_symbols once per variant); \
         evaluations = query calls; distinct_nontrivial = distinct (variant, offset) pairs at which at least one query returned a non-empty answer \
         (Ok / Some / non-empty list)",
    );
    rep.assume("a BytePos is a plain number and the queries never see the source text, so offsets inside a multi-byte character are ordinary inputs (included, no char-boundary contract)");
    rep.assume("only offsets 0..=len of the file are cursor positions 'in the program'; positions outside the file's span are not probed");
    rep.assume("the type/scope oracle applies only to variants the front end accepts without any error and without the implicit prelude; erroneous variants, the prelude sections, binders (for scope), patterns, operators, type positions, literals, whitespace and comments are checked for totality only, because neither the book nor the property text pins their answers down");
    rep.assume("an identifier occurrence covers the offsets start..=end of its span: a cursor directly behind an identifier belongs to it (completion/tests/completion.rs::identifier asserts this for `find`)");
    rep.assume("lexical scope model: let-bound names are visible in the body, and in their own definitions iff the group is `rec` or the binding has arguments (the checker and renamer accept `let f x = f x`, ast::ValueBindings::is_recursive); arguments in the bound expression; pattern variables in the alternative / let body / do body; constructors of a type binding and of a type field unpacked by a record pattern in the expression that follows; shadowed names count as in scope (the name resolves to something)");
    rep.assume("front end panics, aborts and hangs on mutated texts belong to property C09: such variants are counted (front_end_*) and skipped");
    rep.assume("suggest's completeness (names in scope that are not suggested) is not part of the property and is not checked");
    rep
}

pub fn replay(v: &Value) -> Report {
    let mut rep = Report::new("C20", "quick", "exploration");
    let c = Case {
        label: v["label"].as_str().unwrap_or("replay").to_string(),
        kind: "complete",
        prelude: v["implicit_prelude"].as_bool().unwrap_or(false),
        text: v["text"].as_str().unwrap_or("").to_string(),
    };
    let key = v["key"].as_str().unwrap_or("");
    match run_single(&c, false, Duration::from_secs(90)) {
        CaseOutcome::Done(res) => {
            for (k, what, off, q) in keys_of(&res) {
                if key.is_empty() || k == key {
                    println!("{} (offset {}, query {})", what, off, q);
                    rep.violation(k, what, v.clone());
                }
            }
        }
        CaseOutcome::Crashed(d) => {
            println!("worker died: {}", d);
            rep.violation(format!("c20:abort:{}", abort_class(&d)), d, v.clone());
        }
        CaseOutcome::Hung => rep.violation("c20:hang", "no answer within the time limit", v.clone()),
    }
    rep
}
