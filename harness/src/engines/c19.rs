//! C19 — standard library structures, codecs and derived instances obey their models.
//!
//! Five bounded-exhaustive sub-engines, each driving the REAL Gluon std library on a real VM
//! (implicit prelude on) and comparing every result with a boring Rust model:
//!   map     std.map            vs BTreeMap            (all op sequences, all insertion orders)
//!   list    std.list/std.array vs Vec / slices        (all small lists, all index pairs)
//!   string  std.string/std.char vs str / char         (all small multi-byte strings x all byte indices)
//!   json    std.json.{ser,de}  vs serde_json          (all small JSON values, ser -> de identity)
//!   derive  #[derive(Eq, Show, Serialize, Deserialize)] vs structural equality / reference renderer
//!
//! Driver functions are Gluon modules compiled once per worker VM (`MODULES`); inputs are
//! marshalled with `OwnedFunction` calls, results come back as the untyped structural image
//! `vmkit::W`. Calls that may abort the process (a Rust panic inside an `extern "C"` primitive)
//! are evaluated in child processes (`VERIF_C19_CHILD`), an abort is attributed to the case
//! that was running.
//!
//! Knobs (environment): VERIF_C19_ONLY=map,list,string,json,derive  VERIF_C19_MAP_DEPTH
//! VERIF_C19_MAP_INSERT_DEPTH  VERIF_C19_MAP_PERM_KEYS  VERIF_C19_JSON_SIZE  VERIF_C19_DERIVE_CTORS
//! VERIF_C19_DERIVE_FIELDS  VERIF_C19_DEBUG (timings)  VERIF_C19_SELFTEST (perturbs the models to
//! show that the oracles bite; never in a real run).

use crate::par;
use crate::report::Report;
use crate::vmkit::{self, first_line, walk, Settings, W};
use gluon::vm::api::{ActiveThread, Getable, Hole, OpaqueValue, OwnedFunction, Pushable, VmType};
use gluon::vm::thread::{RootedThread, Thread};
use gluon::ThreadExt;
use serde_derive::{Deserialize, Serialize};
use serde_json::{json, Value};
use std::collections::{BTreeMap, BTreeSet, HashMap, HashSet};
use std::time::Instant;

type OV = OpaqueValue<RootedThread, Hole>;

// ---------------------------------------------------------------------------------------------
// marshalling of arguments

#[derive(Clone)]
pub enum Arg {
    I(i64),
    S(String),
    C(char),
    V(Vec<i64>),
    VS(Vec<String>),
    VF(Vec<f64>),
    B(Vec<u8>),
    J(Value),
    O(OV),
}

impl VmType for Arg {
    type Type = Hole;
    fn make_type(vm: &Thread) -> gluon::base::types::ArcType {
        Hole::make_type(vm)
    }
}

impl<'vm> Pushable<'vm> for Arg {
    fn vm_push(self, context: &mut ActiveThread<'vm>) -> gluon::vm::Result<()> {
        match self {
            Arg::I(i) => i.vm_push(context),
            Arg::S(s) => s.vm_push(context),
            Arg::C(c) => c.vm_push(context),
            Arg::V(v) => v.vm_push(context),
            Arg::VS(v) => v.vm_push(context),
            Arg::VF(v) => v.vm_push(context),
            Arg::B(v) => v.vm_push(context),
            Arg::J(v) => v.vm_push(context),
            Arg::O(v) => v.vm_push(context),
        }
    }
}

type F1 = OwnedFunction<fn(Arg) -> OV>;
type F2 = OwnedFunction<fn(Arg, Arg) -> OV>;
type F3 = OwnedFunction<fn(Arg, Arg, Arg) -> OV>;

/// Result of one driver call
#[derive(Clone, Debug, PartialEq)]
pub enum Res {
    Ok(W),
    /// the VM reported an error (first line of the message)
    Err(String),
    /// the harness could not perform the call (never a verdict)
    Mach(String),
}

impl Res {
    fn show(&self) -> String {
        match self {
            Res::Ok(w) => w.to_string(),
            Res::Err(e) => format!("error: {}", e),
            Res::Mach(e) => format!("machinery: {}", e),
        }
    }
}

// ---------------------------------------------------------------------------------------------
// W constructors for the models

fn wi(i: i64) -> W {
    W::Int(i)
}
fn ws(s: &str) -> W {
    W::Str(s.to_string())
}
fn wbool(b: bool) -> W {
    W::Data(b as u32, vec![])
}
fn wnone() -> W {
    W::Data(0, vec![])
}
fn wsome(x: W) -> W {
    W::Data(1, vec![x])
}
fn wopt(x: Option<W>) -> W {
    match x {
        Some(x) => wsome(x),
        None => wnone(),
    }
}
fn wlist(items: Vec<W>) -> W {
    let mut l = W::Data(0, vec![]);
    for x in items.into_iter().rev() {
        l = W::Data(1, vec![x, l]);
    }
    l
}
fn wtup(items: Vec<W>) -> W {
    W::Data(0, items)
}
fn warr(items: Vec<W>) -> W {
    W::Array(items)
}
fn word(o: std::cmp::Ordering) -> W {
    W::Data(
        match o {
            std::cmp::Ordering::Less => 0,
            std::cmp::Ordering::Equal => 1,
            std::cmp::Ordering::Greater => 2,
        },
        vec![],
    )
}
fn wchar(c: char) -> W {
    W::Int(c as i64)
}
/// `Result e t = | Err e | Ok t`
fn wok(x: W) -> W {
    W::Data(1, vec![x])
}
// ---------------------------------------------------------------------------------------------
// driver modules (compiled once per worker VM, lazily)

const MAP_SRC: &str = r#"
let mapm @ { Map, ? } = import! std.map
let listm @ { List, ? } = import! std.list
let arraym @ { ? } = import! std.array
let { foldl, foldr, count } = import! std.foldable
let fun = import! std.functor
let { (<>) } = import! std.semigroup

let empty_i : Map Int Int = mapm.empty
let ins_i k v m : Int -> Int -> Map Int Int -> Map Int Int = mapm.insert k v m
let find_i k m : Int -> Map Int Int -> Option Int = mapm.find k m
let to_list_i m : Map Int Int -> List { key : Int, value : Int } = mapm.to_list m
let keys_i m : Map Int Int -> List Int = mapm.keys m
let values_i m : Map Int Int -> List Int = mapm.values m
let obs_i m : Map Int Int -> _ =
    (
        (mapm.to_list m, mapm.keys m, mapm.values m),
        [mapm.find 0 m, mapm.find 1 m, mapm.find 2 m, mapm.find 3 m, mapm.find 4 m, mapm.find 5 m, mapm.find 6 m, mapm.find 7 m, mapm.find 8 m, mapm.find 9 m],
        (
            count m,
            foldl (\a x -> a * 3 + x + 1) 0 m,
            foldr (\x a -> a * 3 + x + 1) 0 m,
            mapm.foldl_with_key (\a k x -> a * 31 + k * 3 + x + 1) 0 m,
            mapm.foldr_with_key (\k x a -> a * 31 + k * 3 + x + 1) 0 m
        ),
        (mapm.to_list (fun.map (\x -> x + 10) m), mapm.to_list (mapm.map_with_key (\k x -> k * 100 + x) m))
    )
let append_i l r : Map Int Int -> Map Int Int -> Map Int Int = l <> r
let single_i k v : Int -> Int -> Map Int Int = mapm.singleton k v
let eq_i l r : Map Int Int -> Map Int Int -> Bool = l == r

let empty_s : Map String Int = mapm.empty
let ins_s k v m : String -> Int -> Map String Int -> Map String Int = mapm.insert k v m
let obs_s ks m : Array String -> Map String Int -> _ =
    (
        (mapm.to_list m, mapm.keys m, mapm.values m),
        fun.map (\k -> mapm.find k m) ks,
        (
            count m,
            foldl (\a x -> a * 3 + x + 1) 0 m,
            foldr (\x a -> a * 3 + x + 1) 0 m
        )
    )
{ empty_i, ins_i, find_i, to_list_i, keys_i, values_i, obs_i, append_i, single_i, eq_i, empty_s, ins_s, obs_s }
"#;

const LIST_SRC: &str = r#"
let listm @ { List, ? } = import! std.list
let arraym @ { ? } = import! std.array
let optionm @ { ? } = import! std.option
let { foldl, foldr, count, all, any, elem, find, concat_map } = import! std.foldable
let fun = import! std.functor
let { traverse } = import! std.traversable
let { flat_map } = import! std.monad
let { (<>) } = import! std.semigroup
let { Ordering, compare } = import! std.cmp

let l_of xs : Array Int -> List Int = listm.of xs
let l_sort xs : Array Int -> List Int = listm.sort (listm.of xs)
let l_sort_str xs : Array String -> List String = listm.sort (listm.of xs)
let l_filter0 xs : Array Int -> List Int = listm.filter (\x -> x == 0) (listm.of xs)
let l_filter1 xs : Array Int -> List Int = listm.filter (\x -> x /= 1) (listm.of xs)
let l_filter2 xs : Array Int -> List Int = listm.filter (\x -> x > 0) (listm.of xs)
let l_foldl xs : Array Int -> Int = foldl (\a x -> a * 4 + x + 1) 0 (listm.of xs)
let l_foldr xs : Array Int -> Int = foldr (\x a -> a * 4 + x + 1) 0 (listm.of xs)
let l_map xs : Array Int -> List Int = fun.map (\x -> x * 2 + 1) (listm.of xs)
let l_flat_map xs : Array Int -> List Int = flat_map (\x -> listm.of [x, x + 10]) (listm.of xs)
let l_concat_map xs : Array Int -> List Int = concat_map (\x -> listm.of [x, x]) (listm.of xs)
let l_count xs : Array Int -> Int = count (listm.of xs)
let l_all xs : Array Int -> Bool = all (\x -> x < 2) (listm.of xs)
let l_any xs : Array Int -> Bool = any (\x -> x == 2) (listm.of xs)
let l_elem xs : Array Int -> Bool = elem 1 (listm.of xs)
let l_find xs : Array Int -> Option Int = find (\x -> x > 0) (listm.of xs)
let l_traverse xs : Array Int -> Option (List Int) =
    traverse (\x -> if x == 2 then None else Some (x + 1)) (listm.of xs)
let l_show xs : Array Int -> String = show (listm.of xs)
let l_append xs ys : Array Int -> Array Int -> List Int = listm.of xs <> listm.of ys
let l_eq xs ys : Array Int -> Array Int -> Bool = listm.of xs == listm.of ys
let l_cmp xs ys : Array Int -> Array Int -> Ordering = compare (listm.of xs) (listm.of ys)

let a_id xs : Array a -> Array a = xs
let a_len xs : Array a -> Int = arraym.len xs
let a_is_empty xs : Array a -> Bool = arraym.is_empty xs
let a_index xs i : Array a -> Int -> a = arraym.index xs i
let a_slice xs s e : Array a -> Int -> Int -> Array a = arraym.slice xs s e
let a_append xs ys : Array a -> Array a -> Array a = arraym.append xs ys
let a_append3l xs ys zs : Array a -> Array a -> Array a -> Array a = arraym.append (arraym.append xs ys) zs
let a_append3r xs ys zs : Array a -> Array a -> Array a -> Array a = arraym.append xs (arraym.append ys zs)
let a_semi xs ys : Array Int -> Array Int -> Array Int = xs <> ys
let a_eq xs ys : Array Int -> Array Int -> Bool = xs == ys
let a_cmp xs ys : Array Int -> Array Int -> Ordering = compare xs ys
let a_show xs : Array Int -> String = show xs
let a_map xs : Array Int -> Array Int = fun.map (\x -> x * 2 + 1) xs
let a_foldl xs : Array Int -> Int = foldl (\a x -> a * 4 + x + 1) 0 xs
let a_foldr xs : Array Int -> Int = foldr (\x a -> a * 4 + x + 1) 0 xs
let a_count xs : Array Int -> Int = count xs
let a_all xs : Array Int -> Bool = all (\x -> x < 2) xs
let a_any xs : Array Int -> Bool = any (\x -> x == 2) xs
let a_elem xs : Array Int -> Bool = elem 1 xs
let a_find xs : Array Int -> Option Int = find (\x -> x > 0) xs
let a_traverse xs : Array Int -> Option (Array Int) =
    traverse (\x -> if x == 2 then None else Some (x + 1)) xs
{
    l_of, l_sort, l_sort_str, l_filter0, l_filter1, l_filter2, l_foldl, l_foldr, l_map, l_flat_map, l_concat_map,
    l_count, l_all, l_any, l_elem, l_find, l_traverse, l_show, l_append, l_eq, l_cmp,
    a_id, a_len, a_is_empty, a_index, a_slice, a_append, a_append3l, a_append3r, a_semi, a_eq, a_cmp, a_show,
    a_map, a_foldl, a_foldr, a_count, a_all, a_any, a_elem, a_find, a_traverse,
}
"#;

const STR_SRC: &str = r#"
let string = import! std.string
let char @ { ? } = import! std.char
let { Ordering, compare } = import! std.cmp
let { Result } = import! std.result
let { (<>) } = import! std.semigroup

let s_id s : String -> String = s
let s_len s : String -> Int = string.len s
let s_is_empty s : String -> Bool = string.is_empty s
let s_is_char_boundary s i : String -> Int -> Bool = string.is_char_boundary s i
let s_as_bytes s : String -> Array Byte = string.as_bytes s
let s_split_at s i : String -> Int -> (String, String) = string.split_at s i
let s_slice s a b : String -> Int -> Int -> String = string.slice s a b
let s_char_at s i : String -> Int -> Char = string.char_at s i
let s_contains s p : String -> String -> Bool = string.contains s p
let s_starts_with s p : String -> String -> Bool = string.starts_with s p
let s_ends_with s p : String -> String -> Bool = string.ends_with s p
let s_find s p : String -> String -> Option Int = string.find s p
let s_rfind s p : String -> String -> Option Int = string.rfind s p
let s_trim s : String -> String = string.trim s
let s_trim_start s : String -> String = string.trim_start s
let s_trim_end s : String -> String = string.trim_end s
let s_trim_start_matches s p : String -> String -> String = string.trim_start_matches s p
let s_trim_end_matches s p : String -> String -> String = string.trim_end_matches s p
let s_append s t : String -> String -> String = string.append s t
let s_concat s t : String -> String -> String = s ++ t
let s_semi s t : String -> String -> String = s <> t
let s_append_char s c : String -> Char -> String = string.append_char s c
let s_from_char c : Char -> String = string.from_char c
let s_from_utf8 b : Array Byte -> Result () String = string.from_utf8 b
let s_eq s t : String -> String -> Bool = s == t
let s_cmp s t : String -> String -> Ordering = compare s t
let s_lt s t : String -> String -> Bool = s < t
let s_show s : String -> String = show s

let c_id c : Char -> Char = c
let c_to_int c : Char -> Int = char.to_int c
let c_from_int i : Int -> Option Char = char.from_int i
let c_len_utf8 c : Char -> Int = char.len_utf8 c
let c_len_utf16 c : Char -> Int = char.len_utf16 c
let c_is_whitespace c : Char -> Bool = char.is_whitespace c
let c_is_alphabetic c : Char -> Bool = char.is_alphabetic c
let c_is_lowercase c : Char -> Bool = char.is_lowercase c
let c_is_uppercase c : Char -> Bool = char.is_uppercase c
let c_is_alphanumeric c : Char -> Bool = char.is_alphanumeric c
let c_is_numeric c : Char -> Bool = char.is_numeric c
let c_is_control c : Char -> Bool = char.is_control c
let c_eq c d : Char -> Char -> Bool = c == d
let c_cmp c d : Char -> Char -> Ordering = compare c d
{
    s_id, s_len, s_is_empty, s_is_char_boundary, s_as_bytes, s_split_at, s_slice, s_char_at, s_contains,
    s_starts_with, s_ends_with, s_find, s_rfind, s_trim, s_trim_start, s_trim_end, s_trim_start_matches,
    s_trim_end_matches, s_append, s_concat, s_semi, s_append_char, s_from_char, s_from_utf8, s_eq, s_cmp, s_lt, s_show,
    c_id, c_to_int, c_from_int, c_len_utf8, c_len_utf16, c_is_whitespace, c_is_alphabetic, c_is_lowercase,
    c_is_uppercase, c_is_alphanumeric, c_is_numeric, c_is_control, c_eq, c_cmp,
}
"#;

const JSON_HEADER: &str = r#"
let ser @ { Value, ? } = import! std.json.ser
let de @ { ? } = import! std.json.de
let { Result, ? } = import! std.result
let mapm @ { Map, ? } = import! std.map
let arraym @ { ? } = import! std.array
let { foldl } = import! std.foldable
"#;

const JSON_SRC: &str = r#"
let j_id v : Value -> Value = v
let j_to_string v : Value -> Result String String = ser.to_string v
let j_to_string_pretty v : Value -> Result String String = ser.to_string_pretty v
let j_parse s : String -> Result String Value = de.deserialize_with de.value s
let j_roundtrip v : Value -> Result String Value =
    do s = ser.to_string v
    de.deserialize s

let ts_int x : Int -> Result String String = ser.to_string x
let td_int s : String -> Result String Int = de.deserialize s
let ts_string x : String -> Result String String = ser.to_string x
let td_string s : String -> Result String String = de.deserialize s
let ts_bool x : Bool -> Result String String = ser.to_string x
let td_bool s : String -> Result String Bool = de.deserialize s
let mk_bool i : Int -> Bool = i /= 0
let ts_array_int x : Array Int -> Result String String = ser.to_string x
let td_array_int s : String -> Result String (Array Int) = de.deserialize s
let ts_array_string x : Array String -> Result String String = ser.to_string x
let td_array_string s : String -> Result String (Array String) = de.deserialize s
let ts_array_float x : Array Float -> Result String String = ser.to_string x
let td_array_float s : String -> Result String (Array Float) = de.deserialize s
let mk_opts xs : Array Int -> Array (Option Int) = arraym.functor.map (\x -> if x < 0 then None else Some x) xs
let ts_array_opt x : Array Int -> Result String String = ser.to_string (mk_opts x)
let td_array_opt s : String -> Result String (Array (Option Int)) = de.deserialize s
let mk_nested xs : Array Int -> Array (Array Int) = arraym.functor.map (\x -> arraym.slice xs 0 x) xs
let ts_array_array x : Array Int -> Result String String = ser.to_string (mk_nested x)
let td_array_array s : String -> Result String (Array (Array Int)) = de.deserialize s
let mk_map ks vs : Array String -> Array Int -> Map String Int =
    let len = arraym.len ks
    rec let go i m =
        if i < len then go (i + 1) (mapm.insert (arraym.index ks i) (arraym.index vs i) m)
        else m
    go 0 mapm.empty
let ts_map ks vs : Array String -> Array Int -> Result String String = ser.to_string (mk_map ks vs)
let td_map s : String -> Result String (Map String Int) = de.deserialize s
{
    j_id, j_to_string, j_to_string_pretty, j_parse, j_roundtrip,
    ts_int, td_int, ts_string, td_string, ts_bool, td_bool, mk_bool, ts_array_int, td_array_int,
    ts_array_string, td_array_string, ts_array_float, td_array_float, mk_opts, ts_array_opt, td_array_opt,
    mk_nested, ts_array_array, td_array_array, mk_map, ts_map, td_map,
}
"#;

fn module_src(module: &str) -> Option<String> {
    Some(match module {
        "c19_map" => MAP_SRC.to_string(),
        "c19_list" => LIST_SRC.to_string(),
        "c19_str" => STR_SRC.to_string(),
        "c19_json" => format!("{}{}", JSON_HEADER, JSON_SRC),
        _ => return None,
    })
}

enum Fun {
    F1(F1),
    F2(F2),
    F3(F3),
}

pub struct Host {
    /// owns the global state: driver modules are loaded through it, once
    root: RootedThread,
    /// the thread calls run on: a child of `root` (same globals, own stack) that is replaced now
    /// and then, because a call that ends in a VM error leaves its frames on the thread's stack
    vm: RootedThread,
    funs: HashMap<String, Fun>,
    loaded: HashMap<String, Result<(), String>>,
    errs: usize,
    seq: usize,
}

fn catch<T>(f: impl FnOnce() -> T) -> Result<T, String> {
    std::panic::catch_unwind(std::panic::AssertUnwindSafe(f)).map_err(|p| vmkit::panic_message(&p))
}

impl Host {
    pub fn new() -> Host {
        let root = vmkit::make_vm(Settings { implicit_prelude: true, ..Settings::bare() });
        let vm = root.new_thread().unwrap_or_else(|_| root.clone());
        Host { root, vm, funs: HashMap::new(), loaded: HashMap::new(), errs: 0, seq: 0 }
    }

    /// A call that ends in a VM error leaves its frames on the thread's stack (every later error
    /// then renders an ever longer stack trace): continue on a fresh child thread now and then.
    fn refresh_if_needed(&mut self) {
        if self.errs >= 64 {
            self.funs.clear();
            match self.root.new_thread() {
                Ok(t) => self.vm = t,
                Err(_) => *self = Host::new(),
            }
            self.errs = 0;
        }
    }

    fn load(&mut self, module: &str) -> Result<(), String> {
        if let Some(r) = self.loaded.get(module) {
            return r.clone();
        }
        let r = match module_src(module) {
            None => Err(format!("no such driver module {}", module)),
            Some(src) => match catch(|| self.root.load_script(module, &src)) {
                Ok(Ok(())) => Ok(()),
                Ok(Err(e)) => Err(format!("driver module {} failed to load: {}", module, e)),
                Err(p) => Err(format!("driver module {} panicked while loading: {}", module, p)),
            },
        };
        self.loaded.insert(module.to_string(), r.clone());
        r
    }

    fn global(&mut self, module: &str, name: &str) -> Result<OV, String> {
        self.load(module)?;
        let path = format!("{}.{}", module, name);
        match catch(|| self.vm.get_global::<OV>(&path)) {
            Ok(Ok(v)) => Ok(v),
            Ok(Err(e)) => Err(format!("get_global {}: {}", path, first_line(&e.to_string()))),
            Err(p) => Err(format!("get_global {} panicked: {}", path, p)),
        }
    }

    fn value(&mut self, module: &str, name: &str) -> Result<OV, String> {
        self.global(module, name)
    }

    pub fn call(&mut self, module: &str, name: &str, args: Vec<Arg>) -> Res {
        let key = format!("{}.{}", module, name);
        if !self.funs.contains_key(&key) {
            let v = match self.global(module, name) {
                Ok(v) => v,
                Err(e) => return Res::Mach(e),
            };
            let f = match args.len() {
                1 => Fun::F1(F1::from_value(&self.vm, v.get_variant())),
                2 => Fun::F2(F2::from_value(&self.vm, v.get_variant())),
                3 => Fun::F3(F3::from_value(&self.vm, v.get_variant())),
                n => return Res::Mach(format!("unsupported arity {}", n)),
            };
            self.funs.insert(key.clone(), f);
        }
        let f = self.funs.get_mut(&key).unwrap();
        let r = Self::call_fun(f, args);
        if let Res::Err(_) = r {
            self.errs += 1;
        }
        r
    }

    fn call_fun(f: &mut Fun, args: Vec<Arg>) -> Res {
        let mut it = args.into_iter();
        let r = catch(move || match f {
            Fun::F1(f) => f.call(it.next().unwrap()),
            Fun::F2(f) => f.call(it.next().unwrap(), it.next().unwrap()),
            Fun::F3(f) => f.call(it.next().unwrap(), it.next().unwrap(), it.next().unwrap()),
        });
        match r {
            Ok(Ok(v)) => Res::Ok(walk(v.get_ref(), 4000)),
            Ok(Err(e)) => Res::Err(first_line(&e.to_string())),
            Err(p) => Res::Err(format!("HOST PANIC: {} at {}", p, vmkit::last_panic_loc())),
        }
    }

    /// like `call` but keeps the VM value (for values that are fed back, e.g. maps)
    pub fn call_keep(&mut self, module: &str, name: &str, args: Vec<Arg>) -> Result<OV, Res> {
        let key = format!("{}.{}", module, name);
        if !self.funs.contains_key(&key) {
            let v = self.global(module, name).map_err(Res::Mach)?;
            let f = match args.len() {
                1 => Fun::F1(F1::from_value(&self.vm, v.get_variant())),
                2 => Fun::F2(F2::from_value(&self.vm, v.get_variant())),
                3 => Fun::F3(F3::from_value(&self.vm, v.get_variant())),
                n => return Err(Res::Mach(format!("unsupported arity {}", n))),
            };
            self.funs.insert(key.clone(), f);
        }
        let f = self.funs.get_mut(&key).unwrap();
        let mut it = args.into_iter();
        let r = catch(move || match f {
            Fun::F1(f) => f.call(it.next().unwrap()),
            Fun::F2(f) => f.call(it.next().unwrap(), it.next().unwrap()),
            Fun::F3(f) => f.call(it.next().unwrap(), it.next().unwrap(), it.next().unwrap()),
        });
        match r {
            Ok(Ok(v)) => Ok(v),
            Ok(Err(e)) => Err(Res::Err(first_line(&e.to_string()))),
            Err(p) => Err(Res::Err(format!("HOST PANIC: {} at {}", p, vmkit::last_panic_loc()))),
        }
    }

    /// run a whole program (used where the program text itself is the case: derives, JSON literals)
    pub fn run_program(&mut self, src: &str) -> Res {
        self.seq += 1;
        let name = format!("c19_prog_{}", self.seq);
        let r = catch(|| self.vm.run_expr::<OV>(&name, src));
        match r {
            Ok(Ok((v, _))) => Res::Ok(walk(v.get_ref(), 4000)),
            Ok(Err(e)) => {
                self.errs += 1;
                Res::Err(first_line(&e.to_string()))
            }
            Err(p) => Res::Err(format!("HOST PANIC: {} at {}", p, vmkit::last_panic_loc())),
        }
    }
}

/// Worker VMs are expensive to set up (std imports + driver modules): keep them between sweeps.
static HOST_POOL: std::sync::Mutex<Vec<Host>> = std::sync::Mutex::new(Vec::new());

pub struct Pooled(Option<Host>);

impl Pooled {
    fn get() -> Pooled {
        let h = HOST_POOL.lock().unwrap().pop();
        Pooled(Some(h.unwrap_or_else(Host::new)))
    }
}
impl std::ops::Deref for Pooled {
    type Target = Host;
    fn deref(&self) -> &Host {
        self.0.as_ref().unwrap()
    }
}
impl std::ops::DerefMut for Pooled {
    fn deref_mut(&mut self) -> &mut Host {
        self.0.as_mut().unwrap()
    }
}
impl Drop for Pooled {
    fn drop(&mut self) {
        if let Some(h) = self.0.take() {
            HOST_POOL.lock().unwrap().push(h);
        }
    }
}

// ---------------------------------------------------------------------------------------------
// cases, mismatches, accumulators

/// A self-contained unit of checking (also the replay format).
#[derive(Clone, Debug, Serialize, Deserialize)]
pub enum Case {
    /// history of map operations over Int keys, op codes see `MapOp`
    MapHist { ops: Vec<u8> },
    /// insertion order of distinct keys (indices into the key table); string keys or int keys
    MapPerm { strkeys: bool, perm: Vec<u8> },
    /// `l <> r` where both are built by insert histories
    MapAppend { l: Vec<u8>, r: Vec<u8> },
    /// all unary list / array functions on one input
    List { xs: Vec<i64> },
    ListPair { xs: Vec<i64>, ys: Vec<i64> },
    /// array primitives for one element type: len, index and slice with all VALID indices
    ArrPrims { ty: u8, xs: Vec<i64> },
    /// array index / slice with an INVALID index (pair): must be a VM error
    ArrInvalid { ty: u8, xs: Vec<i64>, a: i64, b: Option<i64> },
    ArrTriple { ty: u8, xs: Vec<i64>, ys: Vec<i64>, zs: Vec<i64> },
    /// all unary string functions and all index functions with in-process-safe indices
    Str { s: String },
    StrPair { s: String, p: String },
    /// `string.slice s a b` where a and b are char boundaries and a > b (aborts are possible)
    StrSliceRev { s: String, a: i64, b: i64 },
    Bytes { b: Vec<u8> },
    Chr { c: char },
    Json { v: Value },
    /// the value written as a Gluon expression, object keys inserted in the given order variant
    JsonSource { v: Value, order: u8 },
    JsonTyped { kind: String, xs: Vec<i64> },
    Derive { shape: Shape },
    DeriveSerde { shape: Shape },
}

#[derive(Clone, Debug)]
pub struct Mismatch {
    /// `<sub-engine>:<function>`
    pub func: String,
    /// short classification (value, unexpected-error, missing-error, abort, ...)
    pub class: String,
    /// compact rendering of the failing input
    pub input: String,
    pub what: String,
}

#[derive(Default)]
pub struct Out {
    pub evals: u64,
    pub nontrivial: bool,
    pub mismatches: Vec<Mismatch>,
    pub mach: Vec<String>,
    pub per_fn: BTreeMap<&'static str, u64>,
    pub notes: BTreeMap<&'static str, u64>,
}

impl Out {
    fn expect(&mut self, func: &'static str, input: &dyn Fn() -> String, got: Res, want: &Res) {
        self.evals += 1;
        *self.per_fn.entry(func).or_insert(0) += 1;
        match (&got, want) {
            (Res::Mach(m), _) => self.mach.push(format!("{}: {}", func, m)),
            (Res::Ok(a), Res::Ok(b)) if a == b => {}
            (Res::Err(e), Res::Err(_)) if e.starts_with("HOST PANIC") => self.mismatches.push(Mismatch {
                func: func.to_string(),
                class: "host-panic".into(),
                input: input(),
                what: format!("expected a VM error ({}) but the host panicked: {}", want.show(), e),
            }),
            (Res::Err(_), Res::Err(_)) => {}
            (Res::Ok(_), Res::Ok(_)) => self.mismatches.push(Mismatch {
                func: func.to_string(),
                class: "value".into(),
                input: input(),
                what: format!("expected {} but got {}", want.show(), got.show()),
            }),
            (Res::Err(e), Res::Ok(_)) => self.mismatches.push(Mismatch {
                func: func.to_string(),
                class: if e.starts_with("HOST PANIC") { "host-panic".into() } else { "unexpected-error".into() },
                input: input(),
                what: format!("expected {} but got {}", want.show(), got.show()),
            }),
            (Res::Ok(_), Res::Err(_)) => self.mismatches.push(Mismatch {
                func: func.to_string(),
                class: "missing-error".into(),
                input: input(),
                what: format!("expected an error ({}) but got {}", want.show(), got.show()),
            }),
            (_, Res::Mach(_)) => {}
        }
    }
    fn fail(&mut self, func: &'static str, class: &str, input: String, what: String) {
        self.mismatches.push(Mismatch { func: func.to_string(), class: class.to_string(), input, what });
    }
    fn note(&mut self, k: &'static str, n: u64) {
        *self.notes.entry(k).or_insert(0) += n;
    }
}

#[derive(Default)]
pub struct Acc {
    cases: u64,
    evals: u64,
    nontrivial: u64,
    per_fn: BTreeMap<&'static str, u64>,
    notes: BTreeMap<&'static str, u64>,
    viol: HashMap<(String, String), ViolGroup>,
    mach: Vec<String>,
    states: HashSet<W>,
    model_states: HashSet<Vec<(i64, i64)>>,
    transitions: u64,
    samples: Vec<Value>,
}

impl Acc {
    fn absorb_out(&mut self, out: Out) -> Vec<Mismatch> {
        self.cases += 1;
        self.evals += out.evals;
        if out.nontrivial {
            self.nontrivial += 1;
        }
        for (k, v) in out.per_fn {
            *self.per_fn.entry(k).or_insert(0) += v;
        }
        for (k, v) in out.notes {
            *self.notes.entry(k).or_insert(0) += v;
        }
        for m in out.mach {
            if self.mach.len() < 8 {
                self.mach.push(m);
            }
        }
        out.mismatches
    }
}

/// Evaluate a case on the worker's VM; mismatches are confirmed on a fresh VM before they count.
fn run_case(h: &mut Host, acc: &mut Acc, c: &Case) {
    h.refresh_if_needed();
    let out = eval_case(h, c);
    let mism = acc.absorb_out(out);
    if mism.is_empty() {
        return;
    }
    confirm(acc, c, mism);
}

/// Mismatches are stored per (function, class), the smallest few inputs of each kind; the
/// smallest one is reproduced on a fresh VM (or child process) before it is reported.
fn confirm(acc: &mut Acc, c: &Case, mism: Vec<Mismatch>) {
    for m in mism {
        acc.add_viol(m, c.clone());
    }
}

fn input_order(a: &Mismatch, b: &Mismatch) -> std::cmp::Ordering {
    (a.input.chars().count(), &a.input).cmp(&(b.input.chars().count(), &b.input))
}

#[derive(Default)]
struct ViolGroup {
    count: u64,
    smallest: Vec<(Mismatch, Case)>,
}

impl ViolGroup {
    fn add(&mut self, m: Mismatch, c: Case) {
        self.count += 1;
        self.smallest.push((m, c));
        if self.smallest.len() > 16 {
            self.trim();
        }
    }
    fn trim(&mut self) {
        self.smallest.sort_by(|a, b| input_order(&a.0, &b.0));
        self.smallest.truncate(4);
    }
}

impl Acc {
    fn add_viol(&mut self, m: Mismatch, c: Case) {
        self.viol.entry((m.func.clone(), m.class.clone())).or_default().add(m, c);
    }
}

/// second, independent evaluation of a failing case
fn reproduces(m: &Mismatch, c: &Case) -> Result<bool, String> {
    if m.class == "abort" {
        let (r, mach) = run_in_child(std::slice::from_ref(c), "confirm", None);
        if let Some(e) = mach.into_iter().next() {
            return Err(e);
        }
        return Ok(matches!(r.get(0), Some(Some(ChildResult::Aborted(_)))));
    }
    let mut fresh = Host::new();
    let again = eval_case(&mut fresh, c);
    Ok(again.mismatches.iter().any(|n| n.func == m.func && n.class == m.class && n.input == m.input))
}

pub fn eval_case(h: &mut Host, c: &Case) -> Out {
    let mut out = Out::default();
    match c {
        Case::MapHist { ops } => map_hist(h, &mut out, ops),
        Case::MapPerm { strkeys, perm } => map_perm(h, &mut out, *strkeys, perm),
        Case::MapAppend { l, r } => map_append(h, &mut out, l, r),
        Case::List { xs } => list_unary(h, &mut out, xs),
        Case::ListPair { xs, ys } => list_pair(h, &mut out, xs, ys),
        Case::ArrPrims { ty, xs } => arr_prims(h, &mut out, *ty, xs),
        Case::ArrInvalid { ty, xs, a, b } => arr_invalid(h, &mut out, *ty, xs, *a, *b),
        Case::ArrTriple { ty, xs, ys, zs } => arr_triple(h, &mut out, *ty, xs, ys, zs),
        Case::Str { s } => str_unary(h, &mut out, s),
        Case::StrPair { s, p } => str_pair(h, &mut out, s, p),
        Case::StrSliceRev { s, a, b } => str_slice_rev(h, &mut out, s, *a, *b),
        Case::Bytes { b } => str_bytes(h, &mut out, b),
        Case::Chr { c } => chr(h, &mut out, *c),
        Case::Json { v } => json_value(h, &mut out, v),
        Case::JsonSource { v, order } => json_source(h, &mut out, v, *order),
        Case::JsonTyped { kind, xs } => json_typed(h, &mut out, kind, xs),
        Case::Derive { shape } => derive_case(h, &mut out, shape),
        Case::DeriveSerde { shape } => derive_serde_case(h, &mut out, shape),
    }
    out
}

// ---------------------------------------------------------------------------------------------
// (1) std.map vs BTreeMap

const M: &str = "c19_map";
/// op codes: 0..8 insert k=1+op/2 v=op%2 | 8..12 find k=op-7 | 12 to_list | 13 keys | 14 values
const MAP_ALL_OPS: [u8; 15] = [0, 1, 2, 3, 4, 5, 6, 7, 8, 9, 10, 11, 12, 13, 14];
const MAP_INSERT_OPS: [u8; 8] = [0, 1, 2, 3, 4, 5, 6, 7];

fn map_op_text(op: u8) -> String {
    match op {
        0..=7 => format!("insert {} {}", 1 + op / 2, op % 2),
        8..=11 => format!("find {}", op - 7),
        12 => "to_list".into(),
        13 => "keys".into(),
        _ => "values".into(),
    }
}
fn map_hist_text(ops: &[u8]) -> String {
    ops.iter().map(|o| map_op_text(*o)).collect::<Vec<_>>().join("; ")
}

fn obs_model_i(m: &BTreeMap<i64, i64>) -> W {
    let tl = wlist(m.iter().map(|(k, v)| wtup(vec![wi(*k), wi(*v)])).collect());
    let keys = wlist(m.keys().map(|k| wi(*k)).collect());
    let values = wlist(m.values().map(|v| wi(*v)).collect());
    let finds = warr((0..10).map(|k| wopt(m.get(&k).map(|v| wi(*v)))).collect());
    let mut fl = 0i64;
    let mut flk = 0i64;
    for (k, v) in m.iter() {
        fl = fl * 3 + v + 1;
        flk = flk * 31 + k * 3 + v + 1;
    }
    let mut fr = 0i64;
    let mut frk = 0i64;
    for (k, v) in m.iter().rev() {
        fr = fr * 3 + v + 1;
        frk = frk * 31 + k * 3 + v + 1;
    }
    let mapped = wlist(m.iter().map(|(k, v)| wtup(vec![wi(*k), wi(*v + 10)])).collect());
    let mapped_k = wlist(m.iter().map(|(k, v)| wtup(vec![wi(*k), wi(*k * 100 + *v)])).collect());
    wtup(vec![
        wtup(vec![tl, keys, values]),
        finds,
        wtup(vec![wi(m.len() as i64), wi(fl), wi(fr), wi(flk), wi(frk)]),
        wtup(vec![mapped, mapped_k]),
    ])
}

const OBS_PARTS: [&str; 4] = ["map:to_list/keys/values", "map:find", "map:folds", "map:map/map_with_key"];

/// compare a full observation, attributing a difference to the first differing component
fn compare_obs(out: &mut Out, got: Res, want: W, input: &dyn Fn() -> String) {
    out.evals += 1;
    *out.per_fn.entry("map:observe").or_insert(0) += 1;
    match got {
        Res::Mach(m) => out.mach.push(m),
        Res::Err(e) => out.fail(
            "map:observe",
            if e.starts_with("HOST PANIC") { "host-panic" } else { "unexpected-error" },
            input(),
            format!("observing the map failed: {}", e),
        ),
        Res::Ok(g) => {
            if g == want {
                return;
            }
            if let (W::Data(_, gf), W::Data(_, wf)) = (&g, &want) {
                if gf.len() == wf.len() {
                    for i in 0..gf.len() {
                        if gf[i] != wf[i] {
                            let name = OBS_PARTS.get(i).copied().unwrap_or("map:observe");
                            out.fail(name, "value", input(), format!("expected {} but got {}", wf[i], gf[i]));
                            return;
                        }
                    }
                }
            }
            out.fail("map:observe", "value", input(), format!("expected {} but got {}", want, g));
        }
    }
}

fn map_empty(h: &mut Host, out: &mut Out, name: &str) -> Option<OV> {
    match h.value(M, name) {
        Ok(v) => Some(v),
        Err(e) => {
            out.mach.push(e);
            None
        }
    }
}

/// one transition on the real map and the model; `None` = stop exploring below (mismatch)
/// `seen`: real tree images already fully observed by this worker. Every insert result is checked
/// structurally (its image must be a search tree holding exactly the model's entries); the full
/// observation through the real to_list/find/fold code runs once per distinct image.
fn map_step(h: &mut Host, out: &mut Out, map: &OV, model: &mut BTreeMap<i64, i64>, op: u8, hist: &[u8], seen: Option<&mut HashSet<W>>) -> Option<OV> {
    let input = || map_hist_text(hist);
    let before = out.mismatches.len() + out.mach.len();
    let next = match op {
        0..=7 => {
            let (k, v) = (1 + (op / 2) as i64, (op % 2) as i64);
            if !(selftest() && k == 3 && model.contains_key(&3)) {
                model.insert(k, v);
            }
            out.evals += 1;
            *out.per_fn.entry("map:insert").or_insert(0) += 1;
            match h.call_keep(M, "ins_i", vec![Arg::I(k), Arg::I(v), Arg::O(map.clone())]) {
                Ok(m2) => {
                    let img = walk(m2.get_ref(), 64);
                    let mut es = vec![];
                    let known_layout = wmap_entries(&img, &mut es).is_ok();
                    if known_layout {
                        let want: Vec<(W, W)> = model.iter().map(|(k, v)| (wi(*k), wi(*v))).collect();
                        if es != want {
                            out.fail("map:insert", "value", input(), format!("the resulting tree {} holds (in order) {:?} instead of {:?}", img, es, model));
                        }
                    }
                    let need_obs = match seen {
                        Some(set) if known_layout => set.insert(img),
                        _ => true,
                    };
                    if need_obs {
                        let got = h.call(M, "obs_i", vec![Arg::O(m2.clone())]);
                        compare_obs(out, got, obs_model_i(model), &input);
                    }
                    m2
                }
                Err(Res::Mach(m)) => {
                    out.mach.push(m);
                    return None;
                }
                Err(r) => {
                    out.fail("map:insert", "unexpected-error", input(), format!("insert failed: {}", r.show()));
                    return None;
                }
            }
        }
        8..=11 => {
            let k = (op - 7) as i64;
            let got = h.call(M, "find_i", vec![Arg::I(k), Arg::O(map.clone())]);
            out.expect("map:find", &input, got, &Res::Ok(wopt(model.get(&k).map(|v| wi(*v)))));
            map.clone()
        }
        12 => {
            let got = h.call(M, "to_list_i", vec![Arg::O(map.clone())]);
            let want = wlist(model.iter().map(|(k, v)| wtup(vec![wi(*k), wi(*v)])).collect());
            out.expect("map:to_list", &input, got, &Res::Ok(want));
            map.clone()
        }
        13 => {
            let got = h.call(M, "keys_i", vec![Arg::O(map.clone())]);
            out.expect("map:keys", &input, got, &Res::Ok(wlist(model.keys().map(|k| wi(*k)).collect())));
            map.clone()
        }
        _ => {
            let got = h.call(M, "values_i", vec![Arg::O(map.clone())]);
            out.expect("map:values", &input, got, &Res::Ok(wlist(model.values().map(|k| wi(*k)).collect())));
            map.clone()
        }
    };
    out.nontrivial = model.len() >= 2;
    if out.mismatches.len() + out.mach.len() > before {
        None
    } else {
        Some(next)
    }
}

/// full replay of a history (confirmation on a fresh VM, replay files)
fn map_hist(h: &mut Host, out: &mut Out, ops: &[u8]) {
    let mut map = match map_empty(h, out, "empty_i") {
        Some(m) => m,
        None => return,
    };
    let mut model = BTreeMap::new();
    for i in 0..ops.len() {
        match map_step(h, out, &map, &mut model, ops[i], &ops[..=i], None) {
            Some(m) => map = m,
            None => return,
        }
    }
}

struct MapDfs<'a> {
    ops: &'a [u8],
    deadline: Instant,
    capped: &'a std::sync::atomic::AtomicBool,
}

fn map_dfs(d: &MapDfs, h: &mut Host, acc: &mut Acc, map: &OV, model: &BTreeMap<i64, i64>, hist: &mut Vec<u8>, left: usize) {
    if left == 0 {
        return;
    }
    if left >= 3 && Instant::now() >= d.deadline {
        d.capped.store(true, std::sync::atomic::Ordering::Relaxed);
        return;
    }
    for &op in d.ops {
        hist.push(op);
        let mut out = Out::default();
        let mut model2 = model.clone();
        let next = map_step(h, &mut out, map, &mut model2, op, hist, Some(&mut acc.states));
        acc.transitions += 1;
        let mism = acc.absorb_out(out);
        if !mism.is_empty() {
            confirm(acc, &Case::MapHist { ops: hist.clone() }, mism);
        }
        if let Some(m2) = next {
            if op < 8 {
                acc.model_states.insert(model2.iter().map(|(k, v)| (*k, *v)).collect());
            }
            map_dfs(d, h, acc, &m2, &model2, hist, left - 1);
        }
        hist.pop();
    }
}

/// all histories over `ops` up to `depth`, split over workers by their first two operations
fn map_sweep(ops: &'static [u8], depth: usize, deadline: Instant) -> (Vec<Acc>, bool) {
    let capped = std::sync::atomic::AtomicBool::new(false);
    let n = ops.len();
    let d = MapDfs { ops, deadline, capped: &capped };
    let sweep = par::sweep(
        n * n,
        1,
        Some(deadline),
        |_| Pooled::get(),
        |h, acc: &mut Acc, i| {
            h.refresh_if_needed();
            let (o1, o2) = (ops[i / n], ops[i % n]);
            let mut out = Out::default();
            let empty = match map_empty(h, &mut out, "empty_i") {
                Some(m) => m,
                None => {
                    acc.absorb_out(out);
                    return;
                }
            };
            let mut model = BTreeMap::new();
            let mut hist = vec![o1];
            // the depth-1 node is owned by the prefix whose second op is the first one
            let own_first = i % n == 0;
            let m1 = map_step(h, &mut out, &empty, &mut model, o1, &hist, if own_first { Some(&mut acc.states) } else { None });
            if own_first {
                acc.transitions += 1;
                let mism = acc.absorb_out(out);
                if !mism.is_empty() {
                    confirm(acc, &Case::MapHist { ops: hist.clone() }, mism);
                }
                if m1.is_some() && o1 < 8 {
                    acc.model_states.insert(model.iter().map(|(k, v)| (*k, *v)).collect());
                }
            }
            let m1 = match m1 {
                Some(m) => m,
                None => return,
            };
            if depth < 2 {
                return;
            }
            hist.push(o2);
            let mut out = Out::default();
            let m2 = map_step(h, &mut out, &m1, &mut model, o2, &hist, Some(&mut acc.states));
            acc.transitions += 1;
            let mism = acc.absorb_out(out);
            if !mism.is_empty() {
                confirm(acc, &Case::MapHist { ops: hist.clone() }, mism);
            }
            if let Some(m2) = m2 {
                if o2 < 8 {
                    acc.model_states.insert(model.iter().map(|(k, v)| (*k, *v)).collect());
                }
                map_dfs(&d, h, acc, &m2, &model, &mut hist, depth - 2);
            }
        },
    );
    let c = sweep.capped || capped.load(std::sync::atomic::Ordering::Relaxed);
    (sweep.results, c)
}

const STR_KEYS: [&str; 8] = ["", "a", "aa", "ab", "b", "é", "😀", " "];

fn obs_model_s(m: &BTreeMap<String, i64>, nkeys: usize) -> W {
    let tl = wlist(m.iter().map(|(k, v)| wtup(vec![ws(k), wi(*v)])).collect());
    let keys = wlist(m.keys().map(|k| ws(k)).collect());
    let values = wlist(m.values().map(|v| wi(*v)).collect());
    let finds = warr(STR_KEYS[..nkeys].iter().map(|k| wopt(m.get(*k).map(|v| wi(*v)))).collect());
    let mut fl = 0i64;
    for v in m.values() {
        fl = fl * 3 + v + 1;
    }
    let mut fr = 0i64;
    for v in m.values().rev() {
        fr = fr * 3 + v + 1;
    }
    wtup(vec![wtup(vec![tl, keys, values]), finds, wtup(vec![wi(m.len() as i64), wi(fl), wi(fr)])])
}

fn perm_text(strkeys: bool, perm: &[u8]) -> String {
    perm.iter()
        .map(|k| if strkeys { format!("{:?}", STR_KEYS[*k as usize]) } else { format!("{}", *k as i64 + 1) })
        .collect::<Vec<_>>()
        .join(",")
}

/// insert distinct keys in the given order (value = 1 + key index), observe after every insert
fn map_perm(h: &mut Host, out: &mut Out, strkeys: bool, perm: &[u8]) {
    let input = || format!("{} keys inserted in order {}", if strkeys { "String" } else { "Int" }, perm_text(strkeys, perm));
    let mut map = match map_empty(h, out, if strkeys { "empty_s" } else { "empty_i" }) {
        Some(m) => m,
        None => return,
    };
    let mut mi: BTreeMap<i64, i64> = BTreeMap::new();
    let mut msx: BTreeMap<String, i64> = BTreeMap::new();
    for (n, &k) in perm.iter().enumerate() {
        let v = (k as i64 + 1) % 3;
        out.evals += 1;
        *out.per_fn.entry("map:insert").or_insert(0) += 1;
        let r = if strkeys {
            msx.insert(STR_KEYS[k as usize].to_string(), v);
            h.call_keep(M, "ins_s", vec![Arg::S(STR_KEYS[k as usize].to_string()), Arg::I(v), Arg::O(map.clone())])
        } else {
            mi.insert(k as i64 + 1, v);
            h.call_keep(M, "ins_i", vec![Arg::I(k as i64 + 1), Arg::I(v), Arg::O(map.clone())])
        };
        match r {
            Ok(m2) => map = m2,
            Err(Res::Mach(m)) => {
                out.mach.push(m);
                return;
            }
            Err(r) => {
                out.fail("map:insert", "unexpected-error", input(), format!("insert failed: {}", r.show()));
                return;
            }
        }
        // every prefix is itself an enumerated case: observe only the full sequence here
        if n + 1 == perm.len() {
            if strkeys {
                let ks: Vec<String> = STR_KEYS.iter().map(|s| s.to_string()).collect();
                let got = h.call(M, "obs_s", vec![Arg::VS(ks), Arg::O(map.clone())]);
                compare_obs(out, got, obs_model_s(&msx, STR_KEYS.len()), &input);
            } else {
                let got = h.call(M, "obs_i", vec![Arg::O(map.clone())]);
                compare_obs(out, got, obs_model_i(&mi), &input);
            }
        }
    }
    out.nontrivial = perm.len() >= 3;
}

fn all_arrangements(n: usize, max_len: usize) -> Vec<Vec<u8>> {
    fn go(n: usize, max_len: usize, cur: &mut Vec<u8>, used: u32, out: &mut Vec<Vec<u8>>) {
        if !cur.is_empty() {
            out.push(cur.clone());
        }
        if cur.len() == max_len {
            return;
        }
        for k in 0..n {
            if used & (1 << k) == 0 {
                cur.push(k as u8);
                go(n, max_len, cur, used | (1 << k), out);
                cur.pop();
            }
        }
    }
    let mut out = vec![];
    go(n, max_len, &mut vec![], 0, &mut out);
    out
}

fn insert_histories(depth: usize) -> Vec<Vec<u8>> {
    let mut out: Vec<Vec<u8>> = vec![vec![]];
    let mut level: Vec<Vec<u8>> = vec![vec![]];
    for _ in 0..depth {
        let mut next = vec![];
        for h in &level {
            for op in MAP_INSERT_OPS {
                let mut h2 = h.clone();
                h2.push(op);
                next.push(h2);
            }
        }
        out.extend(next.iter().cloned());
        level = next;
    }
    out
}

fn build_map(h: &mut Host, out: &mut Out, ops: &[u8]) -> Option<(OV, BTreeMap<i64, i64>)> {
    let mut map = map_empty(h, out, "empty_i")?;
    let mut model = BTreeMap::new();
    for &op in ops {
        let (k, v) = (1 + (op / 2) as i64, (op % 2) as i64);
        model.insert(k, v);
        match h.call_keep(M, "ins_i", vec![Arg::I(k), Arg::I(v), Arg::O(map.clone())]) {
            Ok(m) => map = m,
            Err(r) => {
                out.mach.push(format!("building map failed: {}", r.show()));
                return None;
            }
        }
    }
    Some((map, model))
}

/// documented: "Combines two maps into one. If a key exists in both maps the value in `r` takes precedence."
fn map_append(h: &mut Host, out: &mut Out, l: &[u8], r: &[u8]) {
    let input = || format!("({}) <> ({})", map_hist_text(l), map_hist_text(r));
    let (lm, lmodel) = match build_map(h, out, l) {
        Some(x) => x,
        None => return,
    };
    let (rm, rmodel) = match build_map(h, out, r) {
        Some(x) => x,
        None => return,
    };
    let mut model = lmodel;
    for (k, v) in rmodel {
        model.insert(k, v);
    }
    out.evals += 1;
    *out.per_fn.entry("map:append").or_insert(0) += 1;
    match h.call_keep(M, "append_i", vec![Arg::O(lm), Arg::O(rm)]) {
        Ok(m) => {
            let got = h.call(M, "obs_i", vec![Arg::O(m)]);
            compare_obs(out, got, obs_model_i(&model), &input);
        }
        Err(Res::Mach(m)) => out.mach.push(m),
        Err(r) => out.fail("map:append", "unexpected-error", input(), format!("append failed: {}", r.show())),
    }
    out.nontrivial = l.len() + r.len() >= 2;
}

/// informational: `==` on maps (derived, structural on the tree) for equal contents
fn map_eq_shape_stat(h: &mut Host) -> (u64, u64) {
    let perms: Vec<Vec<u8>> = all_arrangements(3, 3).into_iter().filter(|p| p.len() == 3).collect();
    let mut out = Out::default();
    let mut maps = vec![];
    for p in &perms {
        // keys 1,2,3 with value 0: op code = 2 * (k - 1)
        let ops: Vec<u8> = p.iter().map(|k| 2 * k).collect();
        if let Some((m, _)) = build_map(h, &mut out, &ops) {
            maps.push(m);
        }
    }
    let mut pairs = 0;
    let mut unequal = 0;
    for a in &maps {
        for b in &maps {
            pairs += 1;
            if let Res::Ok(w) = h.call(M, "eq_i", vec![Arg::O(a.clone()), Arg::O(b.clone())]) {
                if w == wbool(false) {
                    unequal += 1;
                }
            }
        }
    }
    (pairs, unequal)
}

// ---------------------------------------------------------------------------------------------
// (2) std.list / std.array vs Vec

const L: &str = "c19_list";
const ELEM_STR: [&str; 4] = ["", "a", "é😀", "b"];
const ELEM_BYTE: [u8; 4] = [0, 1, 255, 128];
const ELEM_FLOAT: [f64; 4] = [0.0, 1.5, -2.0, 1e100];
const TY_NAMES: [&str; 4] = ["Int", "String", "Byte", "Float"];

fn arr_arg(ty: u8, xs: &[i64]) -> Arg {
    match ty {
        0 => Arg::V(xs.to_vec()),
        1 => Arg::VS(xs.iter().map(|x| ELEM_STR[*x as usize].to_string()).collect()),
        2 => Arg::B(xs.iter().map(|x| ELEM_BYTE[*x as usize]).collect()),
        _ => Arg::VF(xs.iter().map(|x| ELEM_FLOAT[*x as usize]).collect()),
    }
}
fn elem_w(ty: u8, x: i64) -> W {
    match ty {
        0 => wi(x),
        1 => ws(ELEM_STR[x as usize]),
        2 => W::Byte(ELEM_BYTE[x as usize]),
        _ => W::Float(ELEM_FLOAT[x as usize].to_bits()),
    }
}
fn arr_w(ty: u8, xs: &[i64]) -> W {
    warr(xs.iter().map(|x| elem_w(ty, *x)).collect())
}
fn ilist(xs: &[i64]) -> W {
    wlist(xs.iter().map(|x| wi(*x)).collect())
}
fn iarr(xs: &[i64]) -> W {
    warr(xs.iter().map(|x| wi(*x)).collect())
}
fn digits_of(s: &str) -> String {
    s.chars().filter(|c| c.is_ascii_digit()).collect()
}

/// VERIF_C19_SELFTEST=1 perturbs the MODELS (sort, map insert precedence, derived ==, JSON strings,
/// string find) so that one can see the oracles bite; never set in a real run.
fn selftest() -> bool {
    static ON: std::sync::OnceLock<bool> = std::sync::OnceLock::new();
    *ON.get_or_init(|| std::env::var_os("VERIF_C19_SELFTEST").is_some())
}

fn list_unary(h: &mut Host, out: &mut Out, xs: &[i64]) {
    let input = || format!("{:?}", xs);
    let arg = || vec![Arg::V(xs.to_vec())];
    out.nontrivial = xs.len() >= 2;
    let mut sorted = xs.to_vec();
    sorted.sort();
    if selftest() {
        sorted.dedup();
    }
    let foldl = xs.iter().fold(0i64, |a, x| a * 4 + x + 1);
    let foldr = xs.iter().rev().fold(0i64, |a, x| a * 4 + x + 1);
    let mapped: Vec<i64> = xs.iter().map(|x| x * 2 + 1).collect();
    let flat: Vec<i64> = xs.iter().flat_map(|x| vec![*x, *x + 10]).collect();
    let dup: Vec<i64> = xs.iter().flat_map(|x| vec![*x, *x]).collect();
    let trav: Option<Vec<i64>> = if xs.contains(&2) { None } else { Some(xs.iter().map(|x| x + 1).collect()) };
    let f = |p: &dyn Fn(i64) -> bool| -> Vec<i64> { xs.iter().cloned().filter(|x| p(*x)).collect() };

    // lists
    out.expect("list:of", &input, h.call(L, "l_of", arg()), &Res::Ok(ilist(xs)));
    out.expect("list:sort", &input, h.call(L, "l_sort", arg()), &Res::Ok(ilist(&sorted)));
    {
        let strs: Vec<String> = xs.iter().map(|x| ELEM_STR[*x as usize % 4].to_string()).collect();
        let mut s2 = strs.clone();
        s2.sort();
        let got = h.call(L, "l_sort_str", vec![Arg::VS(strs)]);
        out.expect("list:sort", &|| format!("{:?} as strings", xs), got, &Res::Ok(wlist(s2.iter().map(|s| ws(s)).collect())));
    }
    out.expect("list:filter", &|| format!("(== 0) {:?}", xs), h.call(L, "l_filter0", arg()), &Res::Ok(ilist(&f(&|x| x == 0))));
    out.expect("list:filter", &|| format!("(/= 1) {:?}", xs), h.call(L, "l_filter1", arg()), &Res::Ok(ilist(&f(&|x| x != 1))));
    out.expect("list:filter", &|| format!("(> 0) {:?}", xs), h.call(L, "l_filter2", arg()), &Res::Ok(ilist(&f(&|x| x > 0))));
    out.expect("list:foldl", &input, h.call(L, "l_foldl", arg()), &Res::Ok(wi(foldl)));
    out.expect("list:foldr", &input, h.call(L, "l_foldr", arg()), &Res::Ok(wi(foldr)));
    out.expect("list:map", &input, h.call(L, "l_map", arg()), &Res::Ok(ilist(&mapped)));
    out.expect("list:flat_map", &input, h.call(L, "l_flat_map", arg()), &Res::Ok(ilist(&flat)));
    out.expect("list:concat_map", &input, h.call(L, "l_concat_map", arg()), &Res::Ok(ilist(&dup)));
    out.expect("list:count", &input, h.call(L, "l_count", arg()), &Res::Ok(wi(xs.len() as i64)));
    out.expect("list:all", &input, h.call(L, "l_all", arg()), &Res::Ok(wbool(xs.iter().all(|x| *x < 2))));
    out.expect("list:any", &input, h.call(L, "l_any", arg()), &Res::Ok(wbool(xs.iter().any(|x| *x == 2))));
    out.expect("list:elem", &input, h.call(L, "l_elem", arg()), &Res::Ok(wbool(xs.contains(&1))));
    out.expect("list:find", &input, h.call(L, "l_find", arg()), &Res::Ok(wopt(xs.iter().find(|x| **x > 0).map(|x| wi(*x)))));
    out.expect("list:traverse", &input, h.call(L, "l_traverse", arg()), &Res::Ok(wopt(trav.clone().map(|v| ilist(&v)))));
    show_weak(out, "list:show", xs, h.call(L, "l_show", arg()));

    // arrays
    out.expect("array:map", &input, h.call(L, "a_map", arg()), &Res::Ok(iarr(&mapped)));
    out.expect("array:foldl", &input, h.call(L, "a_foldl", arg()), &Res::Ok(wi(foldl)));
    out.expect("array:foldr", &input, h.call(L, "a_foldr", arg()), &Res::Ok(wi(foldr)));
    out.expect("array:count", &input, h.call(L, "a_count", arg()), &Res::Ok(wi(xs.len() as i64)));
    out.expect("array:all", &input, h.call(L, "a_all", arg()), &Res::Ok(wbool(xs.iter().all(|x| *x < 2))));
    out.expect("array:any", &input, h.call(L, "a_any", arg()), &Res::Ok(wbool(xs.iter().any(|x| *x == 2))));
    out.expect("array:elem", &input, h.call(L, "a_elem", arg()), &Res::Ok(wbool(xs.contains(&1))));
    out.expect("array:find", &input, h.call(L, "a_find", arg()), &Res::Ok(wopt(xs.iter().find(|x| **x > 0).map(|x| wi(*x)))));
    out.expect("array:traverse", &input, h.call(L, "a_traverse", arg()), &Res::Ok(wopt(trav.map(|v| iarr(&v)))));
    show_weak(out, "array:show", xs, h.call(L, "a_show", arg()));
}

/// the text format of `show` for collections is not documented: only the elements, in order
fn show_weak(out: &mut Out, func: &'static str, xs: &[i64], got: Res) {
    out.evals += 1;
    *out.per_fn.entry(func).or_insert(0) += 1;
    let want: String = xs.iter().map(|x| x.to_string()).collect();
    match got {
        Res::Mach(m) => out.mach.push(m),
        Res::Ok(W::Str(s)) if digits_of(&s) == want => {}
        other => out.fail(func, "value", format!("{:?}", xs), format!("expected the elements {:?} in order but got {}", xs, other.show())),
    }
}

fn cmp_laws(out: &mut Out, func: &'static str, xy: Res, yx: Res, xs: &[i64], ys: &[i64]) {
    out.evals += 2;
    *out.per_fn.entry(func).or_insert(0) += 2;
    let input = format!("{:?} {:?}", xs, ys);
    match (xy, yx) {
        (Res::Mach(m), _) | (_, Res::Mach(m)) => out.mach.push(m),
        (Res::Ok(W::Data(a, fa)), Res::Ok(W::Data(b, fb))) if fa.is_empty() && fb.is_empty() && a < 3 && b < 3 => {
            if (a == 1) != (xs == ys) {
                out.fail(func, "eq-consistency", input, format!("compare gave tag {} (LT=0, EQ=1, GT=2) although the operands are {}", a, if xs == ys { "equal" } else { "different" }));
            } else if a + b != 2 {
                out.fail(func, "antisymmetry", input, format!("compare x y gave tag {} but compare y x gave tag {}", a, b));
            } else if word(xs.cmp(ys)) == W::Data(a, vec![]) {
                out.note("compare_agrees_with_lexicographic_order", 1);
            } else {
                out.note("compare_differs_from_lexicographic_order", 1);
            }
        }
        (a, b) => out.fail(func, "value", input, format!("compare did not return an Ordering: {} / {}", a.show(), b.show())),
    }
}

fn list_pair(h: &mut Host, out: &mut Out, xs: &[i64], ys: &[i64]) {
    let input = || format!("{:?} {:?}", xs, ys);
    let arg = || vec![Arg::V(xs.to_vec()), Arg::V(ys.to_vec())];
    let rev = || vec![Arg::V(ys.to_vec()), Arg::V(xs.to_vec())];
    out.nontrivial = !xs.is_empty() && !ys.is_empty();
    let mut cat = xs.to_vec();
    cat.extend_from_slice(ys);
    out.expect("list:append", &input, h.call(L, "l_append", arg()), &Res::Ok(ilist(&cat)));
    out.expect("list:eq", &input, h.call(L, "l_eq", arg()), &Res::Ok(wbool(xs == ys)));
    let (a, b) = (h.call(L, "l_cmp", arg()), h.call(L, "l_cmp", rev()));
    cmp_laws(out, "list:compare", a, b, xs, ys);
    out.expect("array:append", &input, h.call(L, "a_append", arg()), &Res::Ok(iarr(&cat)));
    out.expect("array:append", &input, h.call(L, "a_semi", arg()), &Res::Ok(iarr(&cat)));
    out.expect("array:eq", &input, h.call(L, "a_eq", arg()), &Res::Ok(wbool(xs == ys)));
    let (a, b) = (h.call(L, "a_cmp", arg()), h.call(L, "a_cmp", rev()));
    cmp_laws(out, "array:compare", a, b, xs, ys);
}

fn arr_prims(h: &mut Host, out: &mut Out, ty: u8, xs: &[i64]) {
    let input = || format!("{} {:?}", TY_NAMES[ty as usize], arr_w(ty, xs).to_string());
    let n = xs.len() as i64;
    out.nontrivial = n >= 2;
    out.expect("array:marshal", &input, h.call(L, "a_id", vec![arr_arg(ty, xs)]), &Res::Ok(arr_w(ty, xs)));
    out.expect("array:len", &input, h.call(L, "a_len", vec![arr_arg(ty, xs)]), &Res::Ok(wi(n)));
    out.expect("array:is_empty", &input, h.call(L, "a_is_empty", vec![arr_arg(ty, xs)]), &Res::Ok(wbool(n == 0)));
    for i in 0..n {
        let got = h.call(L, "a_index", vec![arr_arg(ty, xs), Arg::I(i)]);
        out.expect("array:index", &|| format!("{} at {}", input(), i), got, &Res::Ok(elem_w(ty, xs[i as usize])));
    }
    for s in 0..=n {
        for e in s..=n {
            let got = h.call(L, "a_slice", vec![arr_arg(ty, xs), Arg::I(s), Arg::I(e)]);
            out.expect("array:slice", &|| format!("{} [{}..{}]", input(), s, e), got, &Res::Ok(arr_w(ty, &xs[s as usize..e as usize])));
        }
    }
}

fn arr_invalid(h: &mut Host, out: &mut Out, ty: u8, xs: &[i64], a: i64, b: Option<i64>) {
    let input = || format!("{} {} at {}{}", TY_NAMES[ty as usize], arr_w(ty, xs), a, b.map(|b| format!("..{}", b)).unwrap_or_default());
    out.nontrivial = true;
    match b {
        None => {
            let got = h.call(L, "a_index", vec![arr_arg(ty, xs), Arg::I(a)]);
            out.expect("array:index", &input, got, &Res::Err("index out of range".into()));
        }
        Some(b) => {
            let got = h.call(L, "a_slice", vec![arr_arg(ty, xs), Arg::I(a), Arg::I(b)]);
            out.expect("array:slice", &input, got, &Res::Err("invalid slice bounds".into()));
        }
    }
}

fn arr_triple(h: &mut Host, out: &mut Out, ty: u8, xs: &[i64], ys: &[i64], zs: &[i64]) {
    let input = || format!("{} {} {} {}", TY_NAMES[ty as usize], arr_w(ty, xs), arr_w(ty, ys), arr_w(ty, zs));
    let args = || vec![arr_arg(ty, xs), arr_arg(ty, ys), arr_arg(ty, zs)];
    out.nontrivial = [xs, ys, zs].iter().filter(|v| !v.is_empty()).count() >= 2;
    let mut cat = xs.to_vec();
    cat.extend_from_slice(ys);
    cat.extend_from_slice(zs);
    out.expect("array:append", &|| format!("(x <> y) <> z, {}", input()), h.call(L, "a_append3l", args()), &Res::Ok(arr_w(ty, &cat)));
    out.expect("array:append", &|| format!("x <> (y <> z), {}", input()), h.call(L, "a_append3r", args()), &Res::Ok(arr_w(ty, &cat)));
}

fn all_seqs(alpha: usize, max_len: usize) -> Vec<Vec<i64>> {
    let mut out: Vec<Vec<i64>> = vec![vec![]];
    let mut level: Vec<Vec<i64>> = vec![vec![]];
    for _ in 0..max_len {
        let mut next = vec![];
        for s in &level {
            for a in 0..alpha {
                let mut t = s.clone();
                t.push(a as i64);
                next.push(t);
            }
        }
        out.extend(next.iter().cloned());
        level = next;
    }
    out
}

// ---------------------------------------------------------------------------------------------
// (3) std.string / std.char vs str / char

const S: &str = "c19_str";

fn str_unary(h: &mut Host, out: &mut Out, s: &str, ) {
    let input = || format!("{:?}", s);
    let a1 = || vec![Arg::S(s.to_string())];
    let n = s.len() as i64;
    out.nontrivial = s.chars().any(|c| c.len_utf8() > 1) && s.chars().count() >= 2;
    out.expect("string:marshal", &input, h.call(S, "s_id", a1()), &Res::Ok(ws(s)));
    out.expect("string:len", &input, h.call(S, "s_len", a1()), &Res::Ok(wi(n)));
    out.expect("string:is_empty", &input, h.call(S, "s_is_empty", a1()), &Res::Ok(wbool(s.is_empty())));
    out.expect("string:as_bytes", &input, h.call(S, "s_as_bytes", a1()), &Res::Ok(warr(s.bytes().map(W::Byte).collect())));
    out.expect("string:trim", &input, h.call(S, "s_trim", a1()), &Res::Ok(ws(s.trim())));
    out.expect("string:trim_start", &input, h.call(S, "s_trim_start", a1()), &Res::Ok(ws(s.trim_start())));
    out.expect("string:trim_end", &input, h.call(S, "s_trim_end", a1()), &Res::Ok(ws(s.trim_end())));
    {
        // the rendering of `show` for strings is undocumented (no escaping): only containment
        out.evals += 1;
        *out.per_fn.entry("string:show").or_insert(0) += 1;
        match h.call(S, "s_show", a1()) {
            Res::Mach(m) => out.mach.push(m),
            Res::Ok(W::Str(t)) if t.contains(s) => {}
            other => out.fail("string:show", "value", input(), format!("expected a rendering containing the string but got {}", other.show())),
        }
    }
    for c in s.chars().collect::<BTreeSet<char>>().into_iter().chain(Some('ß')) {
        let got = h.call(S, "s_append_char", vec![Arg::S(s.to_string()), Arg::C(c)]);
        let mut t = s.to_string();
        t.push(c);
        out.expect("string:append_char", &|| format!("{:?} {:?}", s, c), got, &Res::Ok(ws(&t)));
    }
    let boundary = |i: i64| i >= 0 && i <= n && s.is_char_boundary(i as usize);
    for i in -1..=n + 1 {
        let at = || format!("{:?} at {}", s, i);
        let got = h.call(S, "s_is_char_boundary", vec![Arg::S(s.to_string()), Arg::I(i)]);
        out.expect("string:is_char_boundary", &at, got, &Res::Ok(wbool(boundary(i))));
        let got = h.call(S, "s_split_at", vec![Arg::S(s.to_string()), Arg::I(i)]);
        let want = if boundary(i) {
            let (a, b) = s.split_at(i as usize);
            Res::Ok(wtup(vec![ws(a), ws(b)]))
        } else {
            Res::Err("not a char boundary".into())
        };
        out.expect("string:split_at", &at, got, &want);
        let got = h.call(S, "s_char_at", vec![Arg::S(s.to_string()), Arg::I(i)]);
        let want = if boundary(i) && i < n {
            Res::Ok(wchar(s[i as usize..].chars().next().unwrap()))
        } else {
            Res::Err("no char at index".into())
        };
        out.expect("string:char_at", &at, got, &want);
        for j in -1..=n + 1 {
            if boundary(i) && boundary(j) && i > j {
                // `string.slice` with start > end on boundaries: evaluated in a child process
                continue;
            }
            let got = h.call(S, "s_slice", vec![Arg::S(s.to_string()), Arg::I(i), Arg::I(j)]);
            let want = if boundary(i) && boundary(j) {
                Res::Ok(ws(&s[i as usize..j as usize]))
            } else {
                Res::Err("not a char boundary".into())
            };
            out.expect("string:slice", &|| format!("{:?} [{}..{}]", s, i, j), got, &want);
        }
    }
}

fn str_slice_rev(h: &mut Host, out: &mut Out, s: &str, a: i64, b: i64) {
    out.nontrivial = true;
    let got = h.call(S, "s_slice", vec![Arg::S(s.to_string()), Arg::I(a), Arg::I(b)]);
    out.expect("string:slice", &|| format!("{:?} [{}..{}]", s, a, b), got, &Res::Err("start is greater than end".into()));
}

fn str_pair(h: &mut Host, out: &mut Out, s: &str, p: &str) {
    let input = || format!("{:?} {:?}", s, p);
    let a2 = || vec![Arg::S(s.to_string()), Arg::S(p.to_string())];
    out.nontrivial = !s.is_empty() && !p.is_empty();
    let oi = |x: Option<usize>| wopt(x.map(|i| wi(i as i64)));
    out.expect("string:contains", &input, h.call(S, "s_contains", a2()), &Res::Ok(wbool(s.contains(p))));
    out.expect("string:starts_with", &input, h.call(S, "s_starts_with", a2()), &Res::Ok(wbool(s.starts_with(p))));
    out.expect("string:ends_with", &input, h.call(S, "s_ends_with", a2()), &Res::Ok(wbool(s.ends_with(p))));
    let find_model = if selftest() { s.find(p).map(|i| s[..i].chars().count()) } else { s.find(p) };
    out.expect("string:find", &input, h.call(S, "s_find", a2()), &Res::Ok(oi(find_model)));
    out.expect("string:rfind", &input, h.call(S, "s_rfind", a2()), &Res::Ok(oi(s.rfind(p))));
    out.expect("string:trim_start_matches", &input, h.call(S, "s_trim_start_matches", a2()), &Res::Ok(ws(s.trim_start_matches(p))));
    out.expect("string:trim_end_matches", &input, h.call(S, "s_trim_end_matches", a2()), &Res::Ok(ws(s.trim_end_matches(p))));
    let cat = format!("{}{}", s, p);
    out.expect("string:append", &input, h.call(S, "s_append", a2()), &Res::Ok(ws(&cat)));
    out.expect("string:append", &|| format!("{:?} ++ {:?}", s, p), h.call(S, "s_concat", a2()), &Res::Ok(ws(&cat)));
    out.expect("string:append", &|| format!("{:?} <> {:?}", s, p), h.call(S, "s_semi", a2()), &Res::Ok(ws(&cat)));
    out.expect("string:eq", &input, h.call(S, "s_eq", a2()), &Res::Ok(wbool(s == p)));
    // scalar-value order of UTF-8 strings is the byte order of their encodings
    let by_scalars = s.chars().map(|c| c as u32).cmp(p.chars().map(|c| c as u32));
    out.expect("string:compare", &input, h.call(S, "s_cmp", a2()), &Res::Ok(word(by_scalars)));
    out.expect("string:compare", &|| format!("{:?} < {:?}", s, p), h.call(S, "s_lt", a2()), &Res::Ok(wbool(by_scalars == std::cmp::Ordering::Less)));
}

fn str_bytes(h: &mut Host, out: &mut Out, b: &[u8]) {
    out.nontrivial = b.len() >= 2;
    let want = match std::str::from_utf8(b) {
        Ok(s) => wok(ws(s)),
        Err(_) => W::Data(0, vec![W::Data(0, vec![])]),
    };
    let got = match h.call(S, "s_from_utf8", vec![Arg::B(b.to_vec())]) {
        // `Err ()`: the unit marshalled from Rust is an Int 0, Gluon's own `()` a nullary tag;
        // the two are indistinguishable inside Gluon
        Res::Ok(W::Data(0, f)) if f.len() == 1 && (f[0] == wi(0) || f[0] == W::Data(0, vec![])) => Res::Ok(W::Data(0, vec![W::Data(0, vec![])])),
        other => other,
    };
    out.expect("string:from_utf8", &|| format!("{:02x?}", b), got, &Res::Ok(want));
}

fn chr(h: &mut Host, out: &mut Out, c: char) {
    let input = || format!("{:?}", c);
    let a1 = || vec![Arg::C(c)];
    out.nontrivial = c.len_utf8() > 1;
    out.expect("char:marshal", &input, h.call(S, "c_id", a1()), &Res::Ok(wchar(c)));
    out.expect("char:to_int", &input, h.call(S, "c_to_int", a1()), &Res::Ok(wi(c as i64)));
    out.expect("char:from_int", &input, h.call(S, "c_from_int", vec![Arg::I(c as i64)]), &Res::Ok(wsome(wchar(c))));
    out.expect("char:len_utf8", &input, h.call(S, "c_len_utf8", a1()), &Res::Ok(wi(c.len_utf8() as i64)));
    out.expect("char:len_utf16", &input, h.call(S, "c_len_utf16", a1()), &Res::Ok(wi(c.len_utf16() as i64)));
    out.expect("char:is_whitespace", &input, h.call(S, "c_is_whitespace", a1()), &Res::Ok(wbool(c.is_whitespace())));
    out.expect("char:is_alphabetic", &input, h.call(S, "c_is_alphabetic", a1()), &Res::Ok(wbool(c.is_alphabetic())));
    out.expect("char:is_lowercase", &input, h.call(S, "c_is_lowercase", a1()), &Res::Ok(wbool(c.is_lowercase())));
    out.expect("char:is_uppercase", &input, h.call(S, "c_is_uppercase", a1()), &Res::Ok(wbool(c.is_uppercase())));
    out.expect("char:is_alphanumeric", &input, h.call(S, "c_is_alphanumeric", a1()), &Res::Ok(wbool(c.is_alphanumeric())));
    out.expect("char:is_numeric", &input, h.call(S, "c_is_numeric", a1()), &Res::Ok(wbool(c.is_numeric())));
    out.expect("char:is_control", &input, h.call(S, "c_is_control", a1()), &Res::Ok(wbool(c.is_control())));
    out.expect("string:from_char", &input, h.call(S, "s_from_char", a1()), &Res::Ok(ws(&c.to_string())));
    for d in CHARS {
        let a2 = vec![Arg::C(c), Arg::C(d)];
        out.expect("char:eq", &|| format!("{:?} {:?}", c, d), h.call(S, "c_eq", a2.clone()), &Res::Ok(wbool(c == d)));
        out.expect("char:compare", &|| format!("{:?} {:?}", c, d), h.call(S, "c_cmp", a2), &Res::Ok(word(c.cmp(&d))));
    }
}

const CHARS: [char; 12] = ['a', 'é', '😀', ' ', 'A', '0', '\n', '\u{3000}', 'ß', '\u{0}', '\u{10FFFF}', '٣'];

fn all_strings(alpha: &[char], max_chars: usize) -> Vec<String> {
    let mut out = vec![String::new()];
    let mut level = vec![String::new()];
    for _ in 0..max_chars {
        let mut next = vec![];
        for s in &level {
            for c in alpha {
                let mut t = s.clone();
                t.push(*c);
                next.push(t);
            }
        }
        out.extend(next.iter().cloned());
        level = next;
    }
    out
}

// ---------------------------------------------------------------------------------------------
// (4) JSON: std.json.ser / std.json.de / vm::api::json vs serde_json

const J: &str = "c19_json";

/// in-order contents of a `std.map.Map` image; checks the search-tree order on the way
fn wmap_entries(w: &W, out: &mut Vec<(W, W)>) -> Result<(), String> {
    match w {
        W::Data(0, f) if f.is_empty() => Ok(()),
        W::Data(1, f) if f.len() == 4 => {
            wmap_entries(&f[2], out)?;
            out.push((f[0].clone(), f[1].clone()));
            wmap_entries(&f[3], out)
        }
        other => Err(format!("not a std.map.Map value: {}", other)),
    }
}

fn w_to_json(w: &W) -> Result<Value, String> {
    match w {
        W::Data(0, f) if f.is_empty() => Ok(Value::Null),
        W::Data(1, f) if f.len() == 1 => match &f[0] {
            W::Data(b, g) if g.is_empty() && *b < 2 => Ok(Value::Bool(*b == 1)),
            o => Err(format!("Bool payload expected, got {}", o)),
        },
        W::Data(2, f) if f.len() == 1 => match &f[0] {
            W::Int(i) => Ok(json!(*i)),
            o => Err(format!("Int payload expected, got {}", o)),
        },
        W::Data(3, f) if f.len() == 1 => match &f[0] {
            W::Float(b) => serde_json::Number::from_f64(f64::from_bits(*b)).map(Value::Number).ok_or_else(|| "non-finite float".to_string()),
            o => Err(format!("Float payload expected, got {}", o)),
        },
        W::Data(4, f) if f.len() == 1 => match &f[0] {
            W::Str(s) => Ok(Value::String(s.clone())),
            o => Err(format!("String payload expected, got {}", o)),
        },
        W::Data(5, f) if f.len() == 1 => match &f[0] {
            W::Array(xs) => Ok(Value::Array(xs.iter().map(w_to_json).collect::<Result<Vec<_>, _>>()?)),
            o => Err(format!("Array payload expected, got {}", o)),
        },
        W::Data(6, f) if f.len() == 1 => {
            let mut es = vec![];
            wmap_entries(&f[0], &mut es)?;
            let mut m = serde_json::Map::new();
            let mut last: Option<String> = None;
            for (k, v) in es {
                let k = match k {
                    W::Str(s) => s,
                    o => return Err(format!("String key expected, got {}", o)),
                };
                if let Some(l) = &last {
                    if l.as_str() >= k.as_str() {
                        return Err(format!("object map is not a search tree: key {:?} after {:?}", k, l));
                    }
                }
                last = Some(k.clone());
                m.insert(k, w_to_json(&v)?);
            }
            Ok(Value::Object(m))
        }
        other => Err(format!("not a std.json.Value: {}", other)),
    }
}

/// `Ok x` of a Gluon `Result String _`
fn unwrap_ok(r: Res) -> Result<W, Res> {
    match r {
        Res::Ok(W::Data(1, mut f)) if f.len() == 1 => Ok(f.pop().unwrap()),
        Res::Ok(W::Data(0, f)) if f.len() == 1 => Err(Res::Err(format!("Gluon `Err {}`", f[0]))),
        other => Err(other),
    }
}

fn expect_json(out: &mut Out, func: &'static str, input: &dyn Fn() -> String, got: Result<W, Res>, want: &Value) {
    out.evals += 1;
    *out.per_fn.entry(func).or_insert(0) += 1;
    match got {
        Err(Res::Mach(m)) => out.mach.push(m),
        Err(r) => out.fail(func, "unexpected-error", input(), format!("expected {} but got {}", want, r.show())),
        Ok(w) => match w_to_json(&w) {
            Ok(v) if v == *want => {}
            Ok(v) => out.fail(func, "value", input(), format!("expected {} but got {}", want, v)),
            Err(e) => out.fail(func, "value", input(), format!("expected {} but got a malformed value ({})", want, e)),
        },
    }
}

/// the text must be JSON that means `want` (checked with serde_json); returns the text
fn expect_text(out: &mut Out, func: &'static str, input: &dyn Fn() -> String, got: Result<W, Res>, want: &Value) -> Option<String> {
    out.evals += 1;
    *out.per_fn.entry(func).or_insert(0) += 1;
    match got {
        Err(Res::Mach(m)) => {
            out.mach.push(m);
            None
        }
        Err(r) => {
            out.fail(func, "unexpected-error", input(), format!("expected JSON text for {} but got {}", want, r.show()));
            None
        }
        Ok(W::Str(text)) => match serde_json::from_str::<Value>(&text) {
            Ok(v) if v == *want => Some(text),
            Ok(v) => {
                out.fail(func, "value", input(), format!("text {:?} means {} instead of {}", text, v, want));
                None
            }
            Err(e) => {
                out.fail(func, "value", input(), format!("text {:?} is not valid JSON ({}) for {}", text, e, want));
                None
            }
        },
        Ok(o) => {
            out.fail(func, "value", input(), format!("expected a String but got {}", o));
            None
        }
    }
}

fn json_size(v: &Value) -> usize {
    match v {
        Value::Array(a) => 1 + a.iter().map(json_size).sum::<usize>(),
        Value::Object(o) => 1 + o.values().map(json_size).sum::<usize>(),
        _ => 1,
    }
}

fn json_value(h: &mut Host, out: &mut Out, v: &Value) {
    let input = || v.to_string();
    out.nontrivial = json_size(v) >= 2;
    // (selftest: the model forgets the newline escape)
    let perturbed;
    let want = if selftest() && v.to_string().contains("\\n") {
        perturbed = serde_json::from_str::<Value>(&v.to_string().replace("\\n", " ")).unwrap_or(v.clone());
        &perturbed
    } else {
        v
    };
    let id = h.call(J, "j_id", vec![Arg::J(v.clone())]);
    expect_json(out, "json:marshal", &input, match id { Res::Ok(w) => Ok(w), o => Err(o) }, want);
    let text = expect_text(out, "json:to_string", &input, unwrap_ok(h.call(J, "j_to_string", vec![Arg::J(v.clone())])), want);
    if let Some(text) = text {
        let parsed = unwrap_ok(h.call(J, "j_parse", vec![Arg::S(text.clone())]));
        expect_json(out, "json:deserialize", &|| format!("{:?}", text), parsed, want);
        if serde_json::to_string(v).ok().as_deref() == Some(text.as_str()) {
            out.note("json_text_identical_to_serde_json", 1);
        }
    }
    let pretty = expect_text(out, "json:to_string_pretty", &input, unwrap_ok(h.call(J, "j_to_string_pretty", vec![Arg::J(v.clone())])), want);
    if let Some(text) = pretty {
        let parsed = unwrap_ok(h.call(J, "j_parse", vec![Arg::S(text.clone())]));
        expect_json(out, "json:deserialize", &|| format!("{:?}", text), parsed, want);
    }
    let rt = unwrap_ok(h.call(J, "j_roundtrip", vec![Arg::J(v.clone())]));
    expect_json(out, "json:roundtrip", &input, rt, want);
}

fn gluon_string_literal(s: &str) -> String {
    let mut o = String::from("\"");
    for c in s.chars() {
        match c {
            '"' => o.push_str("\\\""),
            '\\' => o.push_str("\\\\"),
            '\n' => o.push_str("\\n"),
            c => o.push(c),
        }
    }
    o.push('"');
    o
}

/// the JSON value as a Gluon expression of type `std.json.Value`; None if not expressible
fn json_to_gluon(v: &Value, order: u8) -> Option<String> {
    Some(match v {
        Value::Null => "Null".into(),
        Value::Bool(b) => format!("(Bool {})", if *b { "True" } else { "False" }),
        Value::Number(n) => {
            if let Some(i) = n.as_i64() {
                if i >= 0 {
                    format!("(Int {})", i)
                } else if i > i64::MIN {
                    format!("(Int (0 - {}))", -i)
                } else {
                    return None;
                }
            } else {
                let f = n.as_f64()?;
                if f.is_sign_negative() || format!("{:?}", f).contains('e') {
                    return None;
                }
                format!("(Float {:?})", f)
            }
        }
        Value::String(s) => format!("(String {})", gluon_string_literal(s)),
        Value::Array(a) => {
            let items = a.iter().map(|x| json_to_gluon(x, order)).collect::<Option<Vec<_>>>()?;
            format!("(Array [{}])", items.join(", "))
        }
        Value::Object(o) => {
            let mut es: Vec<(String, String)> = vec![];
            for (k, x) in o.iter() {
                es.push((gluon_string_literal(k), json_to_gluon(x, order)?));
            }
            es.sort();
            if order == 1 {
                es.reverse();
            }
            let e: &str = "empty_object";
            if order == 2 {
                let mut t = e.to_string();
                for (k, x) in &es {
                    t = format!("({} <> mapm.singleton {} {})", t, k, x);
                }
                format!("(Object {})", t)
            } else {
                let mut t = e.to_string();
                for (k, x) in &es {
                    t = format!("(mapm.insert {} {} {})", k, x, t);
                }
                format!("(Object {})", t)
            }
        }
    })
}

fn json_source(h: &mut Host, out: &mut Out, v: &Value, order: u8) {
    let expr = match json_to_gluon(v, order) {
        Some(e) => e,
        None => return,
    };
    out.nontrivial = json_size(v) >= 2;
    let src = format!("{}let {{ (<>) }} = import! std.semigroup\nlet empty_object : Map String Value = mapm.empty\nlet v : Value = {}\nser.to_string v\n", JSON_HEADER, expr);
    let input = || format!("{} written as {}", v, expr);
    let text = expect_text(out, "json:to_string", &input, unwrap_ok(h.run_program(&src)), v);
    if let Some(text) = text {
        let parsed = unwrap_ok(h.call(J, "j_parse", vec![Arg::S(text.clone())]));
        expect_json(out, "json:deserialize", &|| format!("{:?}", text), parsed, v);
    }
}

const JINT: [i64; 4] = [0, -1, 9007199254740993, i64::MIN];
const JSTR: [&str; 4] = ["", "é\"\\\n", "a", "😀\u{1}"];
const JFLT: [f64; 4] = [1.5, 1.0, 1e100, -0.0];
const JKEY: [&str; 4] = ["a", "b", "", "é\""];
pub const JSON_KINDS: [&str; 9] = ["int", "string", "bool", "array_int", "array_string", "array_float", "array_opt", "array_array", "map"];

fn json_typed(h: &mut Host, out: &mut Out, kind: &str, xs: &[i64]) {
    let input = || format!("{} {:?}", kind, xs);
    let ix = |x: &i64| (*x as usize) % 4;
    out.nontrivial = xs.len() >= 2;
    // (serialised argument(s), expected JSON, expected typed image after deserialisation, ser fn, de fn)
    let (args, want_json, want_w, sf, df): (Vec<Arg>, Value, W, &str, &str) = match kind {
        "int" => {
            let i = JINT[ix(&xs[0])];
            (vec![Arg::I(i)], json!(i), wi(i), "ts_int", "td_int")
        }
        "string" => {
            let s = JSTR[ix(&xs[0])];
            (vec![Arg::S(s.to_string())], json!(s), ws(s), "ts_string", "td_string")
        }
        "bool" => {
            let b = xs[0] % 2 == 1;
            let bv = match h.call_keep(J, "mk_bool", vec![Arg::I(b as i64)]) {
                Ok(v) => v,
                Err(r) => {
                    out.mach.push(format!("mk_bool: {}", r.show()));
                    return;
                }
            };
            (vec![Arg::O(bv)], json!(b), wbool(b), "ts_bool", "td_bool")
        }
        "array_int" => {
            let v: Vec<i64> = xs.iter().map(|x| JINT[ix(x)]).collect();
            (vec![Arg::V(v.clone())], json!(v), iarr(&v), "ts_array_int", "td_array_int")
        }
        "array_string" => {
            let v: Vec<String> = xs.iter().map(|x| JSTR[ix(x)].to_string()).collect();
            (vec![Arg::VS(v.clone())], json!(v), warr(v.iter().map(|s| ws(s)).collect()), "ts_array_string", "td_array_string")
        }
        "array_float" => {
            let v: Vec<f64> = xs.iter().map(|x| JFLT[ix(x)]).collect();
            (vec![Arg::VF(v.clone())], json!(v), warr(v.iter().map(|f| W::Float(f.to_bits())).collect()), "ts_array_float", "td_array_float")
        }
        "array_opt" => {
            let v: Vec<i64> = xs.iter().map(|x| x - 1).collect();
            let j: Vec<Value> = v.iter().map(|x| if *x < 0 { Value::Null } else { json!(*x) }).collect();
            let w = warr(v.iter().map(|x| if *x < 0 { wnone() } else { wsome(wi(*x)) }).collect());
            (vec![Arg::V(v)], Value::Array(j), w, "ts_array_opt", "td_array_opt")
        }
        "array_array" => {
            let n = xs.len() as i64;
            let v: Vec<i64> = xs.iter().map(|x| (*x).min(n)).collect();
            let nested: Vec<Vec<i64>> = v.iter().map(|x| v[..*x as usize].to_vec()).collect();
            let w = warr(nested.iter().map(|r| iarr(r)).collect());
            (vec![Arg::V(v)], json!(nested), w, "ts_array_array", "td_array_array")
        }
        "map" => {
            let ks: Vec<String> = xs.iter().map(|x| JKEY[ix(x)].to_string()).collect();
            let vs: Vec<i64> = (0..xs.len() as i64).collect();
            let mut m: BTreeMap<String, i64> = BTreeMap::new();
            for (k, v) in ks.iter().zip(vs.iter()) {
                m.insert(k.clone(), *v);
            }
            // compared through its in-order entries (the tree shape may differ)
            let w = wlist(m.iter().map(|(k, v)| wtup(vec![ws(k), wi(*v)])).collect());
            (vec![Arg::VS(ks), Arg::V(vs)], json!(m), w, "ts_map", "td_map")
        }
        _ => {
            out.mach.push(format!("unknown json kind {}", kind));
            return;
        }
    };
    let text = expect_text(out, "json:typed_to_string", &input, unwrap_ok(h.call(J, sf, args)), &want_json);
    if let Some(text) = text {
        out.evals += 1;
        *out.per_fn.entry("json:typed_deserialize").or_insert(0) += 1;
        match unwrap_ok(h.call(J, df, vec![Arg::S(text.clone())])) {
            Err(Res::Mach(m)) => out.mach.push(m),
            Err(r) => out.fail("json:typed_deserialize", "unexpected-error", format!("{} from {:?}", kind, text), format!("expected {} but got {}", want_w, r.show())),
            Ok(w) => {
                let w = if kind == "map" {
                    let mut es = vec![];
                    match wmap_entries(&w, &mut es) {
                        Ok(()) => wlist(es.into_iter().map(|(k, v)| wtup(vec![k, v])).collect()),
                        Err(_) => w,
                    }
                } else {
                    w
                };
                if w != want_w {
                    out.fail("json:typed_deserialize", "value", format!("{} from {:?}", kind, text), format!("expected {} but got {}", want_w, w));
                }
            }
        }
    }
}

/// all JSON values with exactly `size` nodes, `by_size[k]` = values of size k+1 already built
fn json_values_of_size(atoms: &[Value], size: usize, by_size: &[Vec<Value>]) -> Vec<Value> {
    let mut out = vec![];
    if size == 1 {
        out.extend(atoms.iter().cloned());
        out.push(json!([]));
        out.push(json!({}));
        return out;
    }
    // arrays: every composition of size-1 into child sizes
    fn compositions(total: usize, cur: &mut Vec<usize>, f: &mut dyn FnMut(&[usize])) {
        if total == 0 {
            f(cur);
            return;
        }
        for k in 1..=total {
            cur.push(k);
            compositions(total - k, cur, f);
            cur.pop();
        }
    }
    fn product(sizes: &[usize], by_size: &[Vec<Value>], cur: &mut Vec<Value>, f: &mut dyn FnMut(&[Value])) {
        if cur.len() == sizes.len() {
            f(cur);
            return;
        }
        for v in &by_size[sizes[cur.len()] - 1] {
            cur.push(v.clone());
            product(sizes, by_size, cur, f);
            cur.pop();
        }
    }
    let mut comps: Vec<Vec<usize>> = vec![];
    compositions(size - 1, &mut vec![], &mut |c| comps.push(c.to_vec()));
    for c in &comps {
        product(c, by_size, &mut vec![], &mut |items| out.push(Value::Array(items.to_vec())));
        if c.len() == 1 {
            product(c, by_size, &mut vec![], &mut |items| {
                out.push(json!({"a": items[0].clone()}));
                out.push(json!({"b": items[0].clone()}));
            });
        } else if c.len() == 2 {
            product(c, by_size, &mut vec![], &mut |items| out.push(json!({"a": items[0].clone(), "b": items[1].clone()})));
        }
    }
    out
}

// ---------------------------------------------------------------------------------------------
// (5) derived Eq / Show (/ Serialize / Deserialize) vs structural equality and a reference renderer

/// field types: 0 Int, 1 String, 2 the type itself, 3 the type parameter `a` (instantiated at Int),
/// 5 Array Int (serde shapes only)
#[derive(Clone, Debug, Serialize, Deserialize, PartialEq, Eq, Hash)]
pub struct Shape {
    pub record: bool,
    /// constructors with their field types (a record is the single entry 0)
    pub ctors: Vec<Vec<u8>>,
}

#[derive(Clone, Debug, PartialEq, Eq)]
enum DV {
    I(i64),
    S(&'static str),
    A(Vec<i64>),
    C(usize, Vec<DV>),
    R(Vec<DV>),
}

impl Shape {
    fn has_param(&self) -> bool {
        self.ctors.iter().any(|c| c.contains(&3))
    }
    fn self_ty(&self) -> &'static str {
        if self.has_param() { "(T a)" } else { "T" }
    }
    fn applied(&self) -> &'static str {
        if self.has_param() { "(T Int)" } else { "T" }
    }
    fn field_ty(&self, t: u8) -> &'static str {
        match t {
            0 => "Int",
            1 => "String",
            2 => self.self_ty(),
            3 => "a",
            _ => "(Array Int)",
        }
    }
    fn decl(&self, derives: &str) -> String {
        let head = format!("#[derive({})]\ntype T{} =", derives, if self.has_param() { " a" } else { "" });
        if self.record {
            let fs: Vec<String> = self.ctors[0].iter().enumerate().map(|(i, t)| format!("f{} : {}", i, self.field_ty(*t))).collect();
            format!("{} {{ {} }}\n", head, fs.join(", "))
        } else {
            let mut s = head;
            for (i, c) in self.ctors.iter().enumerate() {
                s.push_str(&format!("\n    | C{}", i));
                for t in c {
                    s.push(' ');
                    s.push_str(self.field_ty(*t));
                }
            }
            s.push('\n');
            s
        }
    }
    fn text(&self) -> String {
        self.decl("..").lines().skip(1).map(|l| l.trim()).collect::<Vec<_>>().join(" ")
    }

    fn leaf_values(t: u8) -> Vec<DV> {
        match t {
            0 => vec![DV::I(0), DV::I(1)],
            1 => vec![DV::S(""), DV::S("x")],
            3 => vec![DV::I(5), DV::I(6)],
            _ => vec![DV::A(vec![]), DV::A(vec![7, 8])],
        }
    }

    /// depth-1 values, then depth-2 values whose recursive fields range over `reps` depth-1 values
    fn values(&self, rep_cap: usize) -> Vec<DV> {
        fn product(doms: &[Vec<DV>], cur: &mut Vec<DV>, f: &mut dyn FnMut(&[DV])) {
            if cur.len() == doms.len() {
                f(cur);
                return;
            }
            for v in &doms[cur.len()] {
                cur.push(v.clone());
                product(doms, cur, f);
                cur.pop();
            }
        }
        let mut d1 = vec![];
        for (i, c) in self.ctors.iter().enumerate() {
            if c.contains(&2) {
                continue;
            }
            let doms: Vec<Vec<DV>> = c.iter().map(|t| Shape::leaf_values(*t)).collect();
            product(&doms, &mut vec![], &mut |fs| d1.push(if self.record { DV::R(fs.to_vec()) } else { DV::C(i, fs.to_vec()) }));
        }
        if d1.is_empty() {
            return d1;
        }
        let reps: Vec<DV> = if d1.len() <= rep_cap {
            d1.clone()
        } else {
            (0..rep_cap).map(|k| d1[k * (d1.len() - 1) / (rep_cap - 1)].clone()).collect()
        };
        let mut all = d1;
        for (i, c) in self.ctors.iter().enumerate() {
            if !c.contains(&2) {
                continue;
            }
            let doms: Vec<Vec<DV>> = c.iter().map(|t| if *t == 2 { reps.clone() } else { Shape::leaf_values(*t) }).collect();
            product(&doms, &mut vec![], &mut |fs| all.push(DV::C(i, fs.to_vec())));
        }
        all
    }
}

impl DV {
    fn gluon(&self) -> String {
        match self {
            DV::I(i) => i.to_string(),
            DV::S(s) => format!("{:?}", s),
            DV::A(v) => format!("[{}]", v.iter().map(|x| x.to_string()).collect::<Vec<_>>().join(", ")),
            DV::C(i, fs) if fs.is_empty() => format!("C{}", i),
            DV::C(i, fs) => format!("(C{} {})", i, fs.iter().map(|f| f.gluon()).collect::<Vec<_>>().join(" ")),
            DV::R(fs) => format!("{{ {} }}", fs.iter().enumerate().map(|(i, f)| format!("f{} = {}", i, f.gluon())).collect::<Vec<_>>().join(", ")),
        }
    }
    /// the format exercised by tests/pass/derive.glu: `C (f) (g)`, `{ x = 1, y = "s" }`
    fn reference_show(&self) -> String {
        match self {
            DV::I(i) => i.to_string(),
            DV::S(s) => format!("\"{}\"", s),
            DV::A(v) => format!("[{}]", v.iter().map(|x| x.to_string()).collect::<Vec<_>>().join(", ")),
            DV::C(i, fs) => {
                let mut s = format!("C{}", i);
                for f in fs {
                    s.push_str(&format!(" ({})", f.reference_show()));
                }
                s
            }
            DV::R(fs) => {
                let inner: Vec<String> = fs.iter().enumerate().map(|(i, f)| format!("f{} = {}", i, f.reference_show())).collect();
                if inner.is_empty() { "{ }".to_string() } else { format!("{{ {} }}", inner.join(", ")) }
            }
        }
    }
    /// what any faithful rendering has to contain, in order
    fn tokens(&self, out: &mut Vec<String>) {
        match self {
            DV::C(i, fs) => {
                out.push(format!("C{}", i));
                for f in fs {
                    f.tokens(out);
                }
            }
            DV::R(fs) => {
                for (i, f) in fs.iter().enumerate() {
                    out.push(format!("f{}", i));
                    f.tokens(out);
                }
            }
            leaf => out.push(leaf.reference_show()),
        }
    }
    fn json(&self) -> Value {
        match self {
            DV::I(i) => json!(*i),
            DV::S(s) => json!(*s),
            DV::A(v) => json!(v),
            // derived Serialize writes a variant as its single payload (untagged)
            DV::C(_, fs) => fs.get(0).map(|f| f.json()).unwrap_or(Value::Null),
            DV::R(fs) => {
                let mut m = serde_json::Map::new();
                for (i, f) in fs.iter().enumerate() {
                    m.insert(format!("f{}", i), f.json());
                }
                Value::Object(m)
            }
        }
    }
}

fn contains_in_order(hay: &str, tokens: &[String]) -> bool {
    let mut pos = 0;
    for t in tokens {
        match hay[pos..].find(t.as_str()) {
            Some(i) => pos += i + t.len(),
            None => return false,
        }
    }
    true
}

const DERIVE_REP_CAP: usize = 4;

fn derive_case(h: &mut Host, out: &mut Out, shape: &Shape) {
    let vals = shape.values(DERIVE_REP_CAP);
    if vals.is_empty() {
        out.note("derive_shapes_without_finite_values", 1);
        return;
    }
    out.nontrivial = shape.ctors.iter().map(|c| c.len()).sum::<usize>() >= 2;
    let src = format!(
        "{}let arraym @ {{ ? }} = import! std.array\nlet fun = import! std.functor\nlet vals : Array {} = [{}]\n(fun.map (\\x -> fun.map (\\y -> x == y) vals) vals, fun.map (\\x -> show x) vals)\n",
        shape.decl("Eq, Show"),
        shape.applied(),
        vals.iter().map(|v| v.gluon()).collect::<Vec<_>>().join(", ")
    );
    let ty = shape.text();
    let got = h.run_program(&src);
    out.evals += 1;
    *out.per_fn.entry("derive:compile").or_insert(0) += 1;
    let (eqs, shows) = match got {
        Res::Ok(W::Data(0, f)) if f.len() == 2 => match (&f[0], &f[1]) {
            (W::Array(e), W::Array(s)) if e.len() == vals.len() && s.len() == vals.len() => (e.clone(), s.clone()),
            _ => {
                out.fail("derive:program", "value", ty, format!("unexpected result shape {}", W::Data(0, f)));
                return;
            }
        },
        Res::Mach(m) => {
            out.mach.push(m);
            return;
        }
        other => {
            out.fail("derive:program", "unexpected-error", ty, format!("a type with #[derive(Eq, Show)] and its values did not compile/run: {}", other.show()));
            return;
        }
    };
    for (i, x) in vals.iter().enumerate() {
        let row = match &eqs[i] {
            W::Array(r) if r.len() == vals.len() => r,
            o => {
                out.fail("derive:eq", "value", ty.clone(), format!("row {} of the == matrix is {}", i, o));
                return;
            }
        };
        for (j, y) in vals.iter().enumerate() {
            out.evals += 1;
            let model_eq = if selftest() {
                match (x, y) {
                    (DV::C(a, f), DV::C(b, g)) if a == b && f.len() >= 2 => f[..f.len() - 1] == g[..g.len() - 1],
                    _ => x == y,
                }
            } else {
                x == y
            };
            if row[j] != wbool(model_eq) {
                out.fail("derive:eq", "value", format!("{} :: {} == {}", ty, x.gluon(), y.gluon()), format!("expected {} but got {}", x == y, row[j]));
                return;
            }
        }
        *out.per_fn.entry("derive:eq").or_insert(0) += vals.len() as u64;
    }
    let mut seen: HashMap<String, usize> = HashMap::new();
    for (i, x) in vals.iter().enumerate() {
        out.evals += 1;
        *out.per_fn.entry("derive:show").or_insert(0) += 1;
        let s = match &shows[i] {
            W::Str(s) => s.clone(),
            o => {
                out.fail("derive:show", "value", format!("{} :: show {}", ty, x.gluon()), format!("not a string: {}", o));
                return;
            }
        };
        let mut toks = vec![];
        x.tokens(&mut toks);
        if !contains_in_order(&s, &toks) {
            out.fail("derive:show", "unfaithful", format!("{} :: show {}", ty, x.gluon()), format!("{:?} does not contain {:?} in order", s, toks));
            return;
        }
        if s == x.reference_show() {
            out.note("derive_show_exactly_reference_format", 1);
        } else {
            out.note("derive_show_other_format", 1);
        }
        if let Some(j) = seen.insert(s.clone(), i) {
            out.fail("derive:show", "not-injective", format!("{} :: show {} / show {}", ty, vals[j].gluon(), x.gluon()), format!("both render as {:?}", s));
            return;
        }
    }
}

fn derive_serde_case(h: &mut Host, out: &mut Out, shape: &Shape) {
    let vals = shape.values(DERIVE_REP_CAP);
    if vals.is_empty() {
        return;
    }
    out.nontrivial = true;
    let src = format!(
        "let {{ Serialize }} = import! std.json.ser\nlet {{ Deserialize }} = import! std.json.de\n{}\
let ser @ {{ ? }} = import! std.json.ser\nlet de @ {{ ? }} = import! std.json.de\nlet {{ Result, ? }} = import! std.result\n\
let arraym @ {{ ? }} = import! std.array\nlet fun = import! std.functor\nlet vals : Array {ty} = [{vals}]\n\
let rt x : {ty} -> Result String {ty} =\n    do s = ser.to_string x\n    de.deserialize s\n\
let ok x : {ty} -> Int =\n    match rt x with\n    | Ok y -> if y == x then 1 else 0\n    | Err _ -> 2\n\
(fun.map (\\x -> ser.to_string x) vals, fun.map ok vals)\n",
        shape.decl("Eq, Show, Serialize, Deserialize"),
        ty = shape.applied(),
        vals = vals.iter().map(|v| v.gluon()).collect::<Vec<_>>().join(", ")
    );
    let ty = shape.text();
    out.evals += 1;
    let (texts, oks) = match h.run_program(&src) {
        Res::Ok(W::Data(0, f)) if f.len() == 2 => match (&f[0], &f[1]) {
            (W::Array(e), W::Array(s)) if e.len() == vals.len() && s.len() == vals.len() => (e.clone(), s.clone()),
            _ => {
                out.fail("derive:serde", "value", ty, "unexpected result shape".into());
                return;
            }
        },
        Res::Mach(m) => {
            out.mach.push(m);
            return;
        }
        other => {
            // deriving Serialize/Deserialize is not documented (book: "only Eq and Show can be derived")
            out.note("derive_serde_shapes_not_compiling", 1);
            if std::env::var_os("VERIF_C19_DEBUG").is_some() {
                eprintln!("serde derive did not compile: {} :: {}", ty, other.show());
            }
            return;
        }
    };
    for (i, x) in vals.iter().enumerate() {
        let input = || format!("{} :: {}", ty, x.gluon());
        let t = match &texts[i] {
            W::Data(1, f) if f.len() == 1 => Ok(f[0].clone()),
            o => Err(Res::Err(format!("{}", o))),
        };
        expect_text(out, "derive:serialize", &input, t, &x.json());
        out.evals += 1;
        *out.per_fn.entry("derive:deserialize").or_insert(0) += 1;
        if oks[i] != wi(1) {
            out.fail("derive:deserialize", "value", input(), format!("to_string then deserialize gave {}", if oks[i] == wi(0) { "a different value".to_string() } else { "an error".to_string() }));
        }
    }
}

fn field_lists(types: &[u8], max_fields: usize) -> Vec<Vec<u8>> {
    let mut out: Vec<Vec<u8>> = vec![vec![]];
    let mut level: Vec<Vec<u8>> = vec![vec![]];
    for _ in 0..max_fields {
        let mut next = vec![];
        for s in &level {
            for t in types {
                let mut u = s.clone();
                u.push(*t);
                next.push(u);
            }
        }
        out.extend(next.iter().cloned());
        level = next;
    }
    out
}

/// number of variant shapes with <= max_ctors constructors of <= max_fields fields over 4 types
fn derive_shape_count(max_ctors: usize, max_fields: usize) -> usize {
    let f = field_lists(&[0, 1, 2, 3], max_fields).len();
    (1..=max_ctors).map(|c| f.pow(c as u32)).sum()
}

fn derive_shape(idx: usize, max_fields: usize, lists: &[Vec<u8>]) -> Shape {
    let _ = max_fields;
    let f = lists.len();
    let mut i = idx;
    let mut n = 1;
    loop {
        let block = f.pow(n as u32);
        if i < block {
            break;
        }
        i -= block;
        n += 1;
    }
    let mut ctors = vec![];
    for _ in 0..n {
        ctors.push(lists[i % f].clone());
        i /= f;
    }
    ctors.reverse();
    Shape { record: false, ctors }
}

// ---------------------------------------------------------------------------------------------
// child processes for cases that may abort the process

fn child_main() -> ! {
    use std::io::Write;
    let path = std::env::var("VERIF_C19_CHILD").unwrap_or_default();
    let text = std::fs::read_to_string(&path).unwrap_or_default();
    // an expected abort must not leave a core file behind
    unsafe {
        let lim = libc::rlimit { rlim_cur: 0, rlim_max: 0 };
        libc::setrlimit(libc::RLIMIT_CORE, &lim);
    }
    let mut h = Host::new();
    let stdout = std::io::stdout();
    for (i, line) in text.lines().enumerate() {
        let c: Case = match serde_json::from_str(line) {
            Ok(c) => c,
            Err(e) => {
                println!("E {} bad case: {}", i, e);
                continue;
            }
        };
        {
            let mut o = stdout.lock();
            let _ = writeln!(o, "S {}", i);
            let _ = o.flush();
        }
        h.refresh_if_needed();
        let out = eval_case(&mut h, &c);
        let body = json!({
            "evals": out.evals,
            "nontrivial": out.nontrivial,
            "mach": out.mach,
            "per_fn": out.per_fn.iter().map(|(k, v)| json!([k, v])).collect::<Vec<_>>(),
            "mismatches": out.mismatches.iter().map(|m| json!([m.func, m.class, m.input, m.what])).collect::<Vec<_>>(),
        });
        let mut o = stdout.lock();
        let _ = writeln!(o, "R {} {}", i, body);
        let _ = o.flush();
    }
    std::process::exit(0);
}

enum ChildResult {
    Done { evals: u64, nontrivial: bool, mismatches: Vec<Mismatch>, mach: Vec<String>, per_fn: Vec<(String, u64)> },
    Aborted(String),
}

fn intern_fn(name: &str) -> &'static str {
    // function labels are a small closed set; leak the few distinct strings coming back from children
    use std::sync::Mutex;
    static TABLE: Mutex<Vec<&'static str>> = Mutex::new(Vec::new());
    let mut t = TABLE.lock().unwrap();
    if let Some(s) = t.iter().find(|s| **s == name) {
        return s;
    }
    let s: &'static str = Box::leak(name.to_string().into_boxed_str());
    t.push(s);
    s
}

/// Evaluate `cases` in child processes (one at a time per call); a child that dies is restarted
/// after the case that was running. Returns one result per case (None = not evaluated).
fn run_in_child(cases: &[Case], tag: &str, deadline: Option<Instant>) -> (Vec<Option<ChildResult>>, Vec<String>) {
    use std::io::{BufRead, BufReader};
    use std::process::{Command, Stdio};
    let mut results: Vec<Option<ChildResult>> = cases.iter().map(|_| None).collect();
    let mut mach = vec![];
    let mut pos = 0usize;
    let exe = match std::env::current_exe() {
        Ok(e) => e,
        Err(e) => return (results, vec![format!("current_exe: {}", e)]),
    };
    let dir = std::env::temp_dir();
    let mut spawn_no = 0;
    while pos < cases.len() {
        if let Some(d) = deadline {
            if Instant::now() >= d {
                break;
            }
        }
        spawn_no += 1;
        let path = dir.join(format!("c19_child_{}_{}_{}.jsonl", std::process::id(), tag, spawn_no));
        let body: String = cases[pos..].iter().map(|c| serde_json::to_string(c).unwrap() + "\n").collect();
        if let Err(e) = std::fs::write(&path, body) {
            mach.push(format!("cannot write {}: {}", path.display(), e));
            break;
        }
        let child = Command::new(&exe)
            .arg("C19")
            .arg("quick")
            .env("VERIF_C19_CHILD", &path)
            .stdin(Stdio::null())
            .stdout(Stdio::piped())
            .stderr(Stdio::piped())
            .spawn();
        let mut child = match child {
            Ok(c) => c,
            Err(e) => {
                mach.push(format!("cannot spawn child: {}", e));
                let _ = std::fs::remove_file(&path);
                break;
            }
        };
        // drain stderr on the side so that the child never blocks on it
        let stderr = child.stderr.take().unwrap();
        let err_thread = std::thread::spawn(move || {
            let mut last = String::new();
            for l in BufReader::new(stderr).lines().flatten() {
                if !l.trim().is_empty() {
                    last = l;
                }
            }
            last
        });
        let mut started: Option<usize> = None;
        let mut finished = 0usize;
        for line in BufReader::new(child.stdout.take().unwrap()).lines().flatten() {
            let mut parts = line.splitn(3, ' ');
            match (parts.next(), parts.next().and_then(|s| s.parse::<usize>().ok())) {
                (Some("S"), Some(i)) => started = Some(i),
                (Some("R"), Some(i)) => {
                    let v: Value = serde_json::from_str(parts.next().unwrap_or("null")).unwrap_or(Value::Null);
                    let mismatches = v["mismatches"]
                        .as_array()
                        .map(|a| {
                            a.iter()
                                .map(|m| Mismatch {
                                    func: m[0].as_str().unwrap_or("").to_string(),
                                    class: m[1].as_str().unwrap_or("").to_string(),
                                    input: m[2].as_str().unwrap_or("").to_string(),
                                    what: m[3].as_str().unwrap_or("").to_string(),
                                })
                                .collect()
                        })
                        .unwrap_or_default();
                    if pos + i < results.len() {
                        results[pos + i] = Some(ChildResult::Done {
                            evals: v["evals"].as_u64().unwrap_or(0),
                            nontrivial: v["nontrivial"].as_bool().unwrap_or(false),
                            mismatches,
                            mach: v["mach"].as_array().map(|a| a.iter().filter_map(|x| x.as_str().map(String::from)).collect()).unwrap_or_default(),
                            per_fn: v["per_fn"].as_array().map(|a| a.iter().map(|p| (p[0].as_str().unwrap_or("").to_string(), p[1].as_u64().unwrap_or(0))).collect()).unwrap_or_default(),
                        });
                    }
                    finished = i + 1;
                    started = None;
                }
                (Some("E"), Some(i)) => {
                    mach.push(format!("child: {}", line));
                    finished = i + 1;
                }
                _ => {}
            }
        }
        let status = child.wait();
        let last_err = err_thread.join().unwrap_or_default();
        let _ = std::fs::remove_file(&path);
        match started {
            Some(i) => {
                // the child died while evaluating case i
                let how = match &status {
                    Ok(s) => format!("{} ({})", s, last_err),
                    Err(e) => format!("wait failed: {}", e),
                };
                results[pos + i] = Some(ChildResult::Aborted(how));
                pos += i + 1;
            }
            None => {
                if pos + finished >= cases.len() {
                    break;
                }
                mach.push(format!("child stopped after {} of {} cases without a running case: {:?} {}", finished, cases.len() - pos, status, last_err));
                break;
            }
        }
    }
    (results, mach)
}

/// the function / class an abort of this case is attributed to
fn abort_mismatch(c: &Case, how: &str) -> Mismatch {
    let (func, input) = match c {
        Case::StrSliceRev { s, a, b } => ("string:slice".to_string(), format!("{:?} [{}..{}]", s, a, b)),
        Case::ArrInvalid { ty, xs, a, b: None } => ("array:index".to_string(), format!("{} {} at {}", TY_NAMES[*ty as usize], arr_w(*ty, xs), a)),
        Case::ArrInvalid { ty, xs, a, b: Some(b) } => ("array:slice".to_string(), format!("{} {} at {}..{}", TY_NAMES[*ty as usize], arr_w(*ty, xs), a, b)),
        other => ("case".to_string(), serde_json::to_string(other).unwrap_or_default()),
    };
    Mismatch { func, class: "abort".into(), input, what: format!("the whole process died while evaluating the call: {}", how) }
}

/// sweep risky cases over `n_workers` children; aborts are recorded unconfirmed (class "abort")
fn child_sweep(cases: Vec<Case>, tag: &str, max_children: usize, deadline: Instant) -> (Vec<Acc>, bool) {
    let t = Instant::now();
    let n = cases.len();
    let r = child_sweep_(cases, tag, max_children, deadline);
    dbg_time(&format!("child sweep of {} cases", n), t);
    r
}

fn child_sweep_(cases: Vec<Case>, tag: &str, max_children: usize, deadline: Instant) -> (Vec<Acc>, bool) {
    let workers = par::n_workers().max(1).min(max_children.max(1));
    let chunk = (cases.len() + workers - 1) / workers.max(1);
    if cases.is_empty() {
        return (vec![], false);
    }
    let cases_ref = &cases;
    let n_chunks = (cases.len() + chunk - 1) / chunk;
    let sweep = par::sweep(
        n_chunks,
        1,
        Some(deadline),
        |_| (),
        |_, acc: &mut Acc, ci| {
            let lo = ci * chunk;
            let hi = ((ci + 1) * chunk).min(cases_ref.len());
            let (results, mach) = run_in_child(&cases_ref[lo..hi], &format!("{}{}", tag, ci), Some(deadline));
            acc.mach.extend(mach);
            for (k, r) in results.into_iter().enumerate() {
                let case = &cases_ref[lo + k];
                match r {
                    None => *acc.notes.entry("child_cases_not_evaluated").or_insert(0) += 1,
                    Some(ChildResult::Aborted(how)) => {
                        acc.cases += 1;
                        acc.evals += 1;
                        acc.nontrivial += 1;
                        *acc.notes.entry("child_process_aborts").or_insert(0) += 1;
                        acc.add_viol(abort_mismatch(case, &how), case.clone());
                    }
                    Some(ChildResult::Done { evals, nontrivial, mismatches, mach, per_fn }) => {
                        acc.cases += 1;
                        acc.evals += evals;
                        if nontrivial {
                            acc.nontrivial += 1;
                        }
                        for (k, v) in per_fn {
                            *acc.per_fn.entry(intern_fn(&k)).or_insert(0) += v;
                        }
                        acc.mach.extend(mach);
                        if !mismatches.is_empty() {
                            // the child survived the case, so it is safe to confirm it in this process
                            confirm(acc, case, mismatches);
                        }
                    }
                }
            }
        },
    );
    let capped = sweep.capped || sweep.results.iter().any(|a| a.notes.get("child_cases_not_evaluated").copied().unwrap_or(0) > 0);
    (sweep.results, capped)
}

// ---------------------------------------------------------------------------------------------
// orchestration

struct Sub {
    name: &'static str,
    accs: Vec<Acc>,
    capped: bool,
    space: String,
}

fn dbg_time(what: &str, t: Instant) {
    if std::env::var_os("VERIF_C19_DEBUG").is_some() {
        eprintln!("[c19] {} took {:.2}s", what, t.elapsed().as_secs_f64());
    }
}

fn sweep_cases(cases: Vec<Case>, chunk: usize, deadline: Instant) -> (Vec<Acc>, bool) {
    let t = Instant::now();
    let n = cases.len();
    let r = sweep_cases_(cases, chunk, deadline);
    dbg_time(&format!("sweep of {} cases", n), t);
    r
}

fn sweep_cases_(cases: Vec<Case>, chunk: usize, deadline: Instant) -> (Vec<Acc>, bool) {
    let cases_ref = &cases;
    let sweep = par::sweep(
        cases.len(),
        chunk,
        Some(deadline),
        |_| Pooled::get(),
        |h, acc: &mut Acc, i| run_case(h, acc, &cases_ref[i]),
    );
    (sweep.results, sweep.capped)
}

fn sample_from(accs: &mut Vec<Acc>, v: Value) {
    if let Some(a) = accs.first_mut() {
        a.samples.push(v);
    } else {
        let mut a = Acc::default();
        a.samples.push(v);
        accs.push(a);
    }
}

fn sub_map(tier: &str, deadline: Instant) -> Sub {
    let quick = tier == "quick";
    let env_usize = |k: &str, d: usize| std::env::var(k).ok().and_then(|s| s.parse().ok()).unwrap_or(d);
    let d_lit = env_usize("VERIF_C19_MAP_DEPTH", if quick { 5 } else { 6 });
    let d_ins = env_usize("VERIF_C19_MAP_INSERT_DEPTH", if quick { 6 } else { 8 });
    let n_perm = env_usize("VERIF_C19_MAP_PERM_KEYS", if quick { 6 } else { 8 });
    let d_app = if quick { 2 } else { 3 };
    let mut accs = vec![];
    let mut capped = false;
    let (a, c) = map_sweep(&MAP_ALL_OPS, d_lit, deadline);
    accs.extend(a);
    capped |= c;
    let (a, c) = map_sweep(&MAP_INSERT_OPS, d_ins, deadline);
    accs.extend(a);
    capped |= c;
    let mut cases = vec![];
    for p in all_arrangements(n_perm, n_perm) {
        cases.push(Case::MapPerm { strkeys: false, perm: p.clone() });
        cases.push(Case::MapPerm { strkeys: true, perm: p });
    }
    let n_perm_cases = cases.len();
    let hs = insert_histories(d_app);
    for l in &hs {
        for r in &hs {
            cases.push(Case::MapAppend { l: l.clone(), r: r.clone() });
        }
    }
    let n_app = cases.len() - n_perm_cases;
    let (a, c) = sweep_cases(cases, 32, deadline);
    accs.extend(a);
    capped |= c;
    let (pairs, unequal) = map_eq_shape_stat(&mut Host::new());
    if let Some(a) = accs.first_mut() {
        a.notes.insert("map_eq_pairs_with_equal_contents", pairs);
        a.notes.insert("map_eq_false_on_equal_contents", unequal);
    }
    sample_from(&mut accs, json!({"sub": "map", "history": map_hist_text(&[2, 1, 9, 4, 12]), "model": "BTreeMap {1: 1, 2: 0, 3: 0}"}));
    sample_from(&mut accs, json!({"sub": "map", "insertion_order": perm_text(true, &[4, 0, 6, 2]), "checked": "to_list/keys/values sorted, find of all 8 keys, count, folds"}));
    Sub {
        name: "map",
        accs,
        capped,
        space: format!(
            "map: every history over {{insert k v | k in 1..4, v in 0..1}} + {{find k}} + {{to_list, keys, values}} (15 ops) of length <= {}, every insert-only history of length <= {}; after EVERY insert of every history the image of the real tree must be a search tree holding exactly the model's entries, and every distinct tree image is fully observed through the real code at least once per worker (to_list, keys, values, find of keys 0..9, count, foldl/foldr/with_key, map, map_with_key); every insertion order of every subset of {} distinct Int keys and of {} distinct String keys ({} cases), `l <> r` for all pairs of insert histories of length <= {} ({} pairs); non-trivial = the map holds >= 2 keys",
            d_lit, d_ins, n_perm, n_perm, n_perm_cases, d_app, n_app
        ),
    }
}

fn sub_list(tier: &str, deadline: Instant) -> Sub {
    let quick = tier == "quick";
    let (alpha, len, pair_len) = if quick { (3, 5, 4) } else { (3, 7, 5) };
    let mut cases = vec![];
    for xs in all_seqs(alpha, len) {
        cases.push(Case::List { xs });
    }
    let n_unary = cases.len();
    let ps = all_seqs(alpha, pair_len);
    for xs in &ps {
        for ys in &ps {
            cases.push(Case::ListPair { xs: xs.clone(), ys: ys.clone() });
        }
    }
    let n_pairs = cases.len() - n_unary;
    let prim_len = if quick { 5 } else { 6 };
    for ty in 0..4u8 {
        for xs in all_seqs(alpha, prim_len) {
            cases.push(Case::ArrPrims { ty, xs });
        }
    }
    let ts = all_seqs(3, if quick { 2 } else { 3 });
    for ty in 0..4u8 {
        for xs in &ts {
            for ys in &ts {
                for zs in &ts {
                    cases.push(Case::ArrTriple { ty, xs: xs.clone(), ys: ys.clone(), zs: zs.clone() });
                }
            }
        }
    }
    let n_cases = cases.len();
    let (mut accs, mut capped) = sweep_cases(cases, 16, deadline);
    // invalid indices: in child processes
    let mut risky = vec![];
    for ty in 0..4u8 {
        for xs in all_seqs(2, 3) {
            let n = xs.len() as i64;
            for a in [-1, n, n + 1, i64::MIN, i64::MAX] {
                risky.push(Case::ArrInvalid { ty, xs: xs.clone(), a, b: None });
            }
            let mut idx: Vec<i64> = (-1..=n + 1).collect();
            idx.push(i64::MAX);
            idx.push(i64::MIN);
            for &a in &idx {
                for &b in &idx {
                    if !(0 <= a && a <= b && b <= n) {
                        risky.push(Case::ArrInvalid { ty, xs: xs.clone(), a, b: Some(b) });
                    }
                }
            }
        }
    }
    let n_risky = risky.len();
    let (a, c) = child_sweep(risky, "arr", 2, deadline);
    accs.extend(a);
    capped |= c;
    sample_from(&mut accs, json!({"sub": "list", "input": [2, 0, 1, 2], "functions": "of sort filter(3) foldl foldr map flat_map concat_map count all any elem find traverse show + the array counterparts"}));
    sample_from(&mut accs, json!({"sub": "array", "input": ["", "é😀", "a"], "slice": "all 0 <= s <= e <= 3, and every other (s, e) in [-1..4]^2 must be an error"}));
    Sub {
        name: "list",
        accs,
        capped,
        space: format!(
            "list/array: all Int lists over {{0,1,2}} of length <= {} x every unary list and array function ({} inputs), all ordered pairs of lists of length <= {} for append/eq/compare ({} pairs), arrays of Int/String/Byte/Float elements of length <= {} x len, is_empty, index at every valid index, slice at every valid (start, end); all triples of arrays of length <= {} for append associativity; {} invalid index / slice bounds (incl. negative and i64 extremes) evaluated in child processes ({} in-process cases); non-trivial = length >= 2 (pairs: both non-empty)",
            len, n_unary, pair_len, n_pairs, prim_len, if quick { 2 } else { 3 }, n_risky, n_cases
        ),
    }
}

fn sub_string(tier: &str, deadline: Instant) -> Sub {
    let quick = tier == "quick";
    let alpha: Vec<char> = if quick { vec!['a', 'é', '😀', ' '] } else { vec!['a', 'é', '😀', ' ', '\u{3000}'] };
    let max_chars = if quick { 4 } else { 5 };
    let strings = all_strings(&alpha, max_chars);
    let pats = all_strings(&alpha, 2);
    let mut cases = vec![];
    for s in &strings {
        cases.push(Case::Str { s: s.clone() });
    }
    for s in &strings {
        for p in &pats {
            cases.push(Case::StrPair { s: s.clone(), p: p.clone() });
        }
    }
    let bytes: [u8; 8] = [0x61, 0xC3, 0xA9, 0xF0, 0x9F, 0x98, 0x80, 0xFF];
    let mut n_bytes = 0;
    for idx in all_seqs(8, if quick { 3 } else { 4 }) {
        cases.push(Case::Bytes { b: idx.iter().map(|i| bytes[*i as usize]).collect() });
        n_bytes += 1;
    }
    for c in CHARS {
        cases.push(Case::Chr { c });
    }
    let n_cases = cases.len();
    let (mut accs, mut capped) = sweep_cases(cases, 8, deadline);
    let mut risky = vec![];
    // every such call costs a child process (it is expected to die): a small space
    let mut risky_strings = all_strings(&alpha[..2], if quick { 2 } else { 3 });
    if !quick {
        for s in all_strings(&alpha[..4], 2) {
            if !risky_strings.contains(&s) {
                risky_strings.push(s);
            }
        }
    }
    let risky_space = if quick { "<= 2 chars over a, é" } else { "<= 3 chars over a, é and <= 2 chars over a, é, 😀, space" };
    for s in risky_strings {
        let bs: Vec<i64> = (0..=s.len()).filter(|i| s.is_char_boundary(*i)).map(|i| i as i64).collect();
        for &a in &bs {
            for &b in &bs {
                if a > b {
                    risky.push(Case::StrSliceRev { s: s.clone(), a, b });
                }
            }
        }
    }
    let n_risky = risky.len();
    let (a, c) = child_sweep(risky, "str", 16, deadline);
    accs.extend(a);
    capped |= c;
    sample_from(&mut accs, json!({"sub": "string", "input": "a😀é", "indices": "every byte index -1..=len+1 for is_char_boundary/split_at/char_at and every pair for slice"}));
    sample_from(&mut accs, json!({"sub": "string", "input": ["é é", " é"], "functions": "contains starts_with ends_with find rfind trim_start_matches trim_end_matches append eq compare"}));
    Sub {
        name: "string",
        accs,
        capped,
        space: format!(
            "string: all strings of <= {} chars over {:?} ({}) x len/is_empty/as_bytes/trim*/show/append_char and every byte index in -1..=len+1 for is_char_boundary/split_at/char_at and every index pair for slice (start > end on boundaries: {} cases for the strings of {}, in child processes); every (string, pattern of <= 2 chars) pair for contains/starts_with/ends_with/find/rfind/trim_*_matches/append/eq/compare; from_utf8 on all {} byte strings over 8 bytes; {} chars x the std.char predicates ({} in-process cases); non-trivial = >= 2 chars incl. a multi-byte one",
            max_chars, alpha, strings.len(), n_risky, risky_space, n_bytes, CHARS.len(), n_cases
        ),
    }
}

fn sub_json(tier: &str, deadline: Instant) -> Sub {
    let quick = tier == "quick";
    let atoms = vec![json!(null), json!(true), json!(false), json!(0), json!(-1), json!(1.5), json!(""), json!("é\"\\\n")];
    let max_size = std::env::var("VERIF_C19_JSON_SIZE").ok().and_then(|s| s.parse().ok()).unwrap_or(if quick { 5 } else { 6 });
    let src_size = if quick { 3 } else { 4 };
    let mut by_size: Vec<Vec<Value>> = vec![];
    for size in 1..=max_size {
        let v = json_values_of_size(&atoms, size, &by_size);
        by_size.push(v);
    }
    let mut counts: Vec<usize> = by_size.iter().map(|v| v.len()).collect();
    let mut cases = vec![];
    let add = |cases: &mut Vec<Case>, v: &Value, with_source: bool| {
        cases.push(Case::Json { v: v.clone() });
        if with_source {
            let text = v.to_string();
            let has_two_keys = text.contains("\"b\":") && text.contains("\"a\":");
            for order in 0..3u8 {
                if order == 1 && !has_two_keys {
                    continue;
                }
                if json_to_gluon(v, order).is_some() {
                    cases.push(Case::JsonSource { v: v.clone(), order });
                }
            }
        }
    };
    for (k, vs) in by_size.iter().enumerate() {
        for v in vs {
            add(&mut cases, v, k < src_size);
        }
    }
    // thorough: more atoms (a float with integral value, the smallest Int, a control character and
    // a 4-byte char) in every value of <= 4 nodes that uses at least one of them
    let extra_atoms = vec![json!(2.0), json!(i64::MIN), json!("\u{1}😀")];
    if !quick {
        let mut all_atoms = atoms.clone();
        all_atoms.extend(extra_atoms.iter().cloned());
        fn uses(v: &Value, extra: &[Value]) -> bool {
            match v {
                Value::Array(a) => a.iter().any(|x| uses(x, extra)),
                Value::Object(o) => o.values().any(|x| uses(x, extra)),
                leaf => extra.contains(leaf),
            }
        }
        let mut by_size2: Vec<Vec<Value>> = vec![];
        for size in 1..=4usize {
            let v = json_values_of_size(&all_atoms, size, &by_size2);
            by_size2.push(v);
        }
        let mut n_extra = 0;
        for (k, vs) in by_size2.iter().enumerate() {
            for v in vs {
                if uses(v, &extra_atoms) {
                    add(&mut cases, v, k < 3);
                    n_extra += 1;
                }
            }
        }
        counts.push(n_extra);
    }
    let n_json = cases.iter().filter(|c| matches!(c, Case::Json { .. })).count();
    let n_values: usize = n_json;
    let n_source = cases.len() - n_values;
    let mut n_typed = 0;
    for kind in JSON_KINDS {
        let scalar = matches!(kind, "int" | "string" | "bool");
        for xs in all_seqs(4, if scalar { 1 } else if quick { 4 } else { 5 }) {
            if scalar && xs.len() != 1 {
                continue;
            }
            cases.push(Case::JsonTyped { kind: kind.to_string(), xs });
            n_typed += 1;
        }
    }
    let (mut accs, capped) = sweep_cases(cases, 32, deadline);
    sample_from(&mut accs, json!({"sub": "json", "value": {"a": [null, 1.5], "b": "é\"\\\n"}, "checks": "marshal, to_string (text re-parsed by serde_json), deserialize, pretty, round trip inside Gluon"}));
    Sub {
        name: "json",
        accs,
        capped,
        space: format!(
            "json: every JSON value with <= {} nodes over the atoms {} plus [] and {{}}, arrays of any arity and objects over the keys a, b (values per size {:?}{}, {} in total) marshalled through vm::api::json, to_string / to_string_pretty (text re-parsed by serde_json), deserialize, round trip; the values with <= {} nodes additionally written as Gluon source with the object keys inserted ascending / descending / via singleton <> ({} programs); {} typed round trips over {:?}; non-trivial = >= 2 nodes",
            max_size,
            Value::Array(atoms.clone()),
            counts,
            if quick { String::new() } else { format!(" (last entry: values of <= 4 nodes using one of the further atoms {})", Value::Array(extra_atoms.clone())) },
            n_values,
            src_size,
            n_source,
            n_typed,
            JSON_KINDS
        ),
    }
}

fn sub_derive(tier: &str, deadline: Instant) -> Sub {
    let quick = tier == "quick";
    let env_usize = |k: &str, d: usize| std::env::var(k).ok().and_then(|s| s.parse().ok()).unwrap_or(d);
    let max_ctors = env_usize("VERIF_C19_DERIVE_CTORS", 3);
    let max_fields = env_usize("VERIF_C19_DERIVE_FIELDS", if quick { 2 } else { 3 });
    let lists = field_lists(&[0, 1, 2, 3], max_fields);
    let n_variant = derive_shape_count(max_ctors, max_fields);
    // records: <= 3 fields over Int, String, a
    let mut extra = vec![];
    for fs in field_lists(&[0, 1, 3], 3) {
        if !fs.is_empty() {
            extra.push(Case::Derive { shape: Shape { record: true, ctors: vec![fs] } });
        }
    }
    let n_records = extra.len();
    // Serialize / Deserialize: records, and variants whose constructors carry one payload each of
    // pairwise different JSON types (the derived codec is untagged)
    for fs in field_lists(&[0, 1, 3, 5], 3) {
        if !fs.is_empty() {
            extra.push(Case::DeriveSerde { shape: Shape { record: true, ctors: vec![fs] } });
        }
    }
    for sel in all_arrangements(3, 3) {
        let tys = [0u8, 1, 5];
        extra.push(Case::DeriveSerde { shape: Shape { record: false, ctors: sel.iter().map(|k| vec![tys[*k as usize]]).collect() } });
    }
    let n_serde = extra.len() - n_records;
    let lists_ref = &lists;
    let extra_ref = &extra;
    let total = n_variant + extra.len();
    let sweep = par::sweep(
        total,
        8,
        Some(deadline),
        |_| Pooled::get(),
        |h, acc: &mut Acc, i| {
            if h.seq >= 1500 {
                // every shape is a fresh module in the VM's database; start over now and then
                **h = Host::new();
            }
            if i < extra_ref.len() {
                run_case(h, acc, &extra_ref[i]);
            } else {
                let shape = derive_shape(i - extra_ref.len(), max_fields, lists_ref);
                run_case(h, acc, &Case::Derive { shape });
            }
        },
    );
    let capped = sweep.capped;
    let mut accs = sweep.results;
    let ex = derive_shape(n_variant - 7, max_fields, &lists);
    sample_from(&mut accs, json!({"sub": "derive", "type": ex.text(), "values": ex.values(DERIVE_REP_CAP).iter().take(6).map(|v| v.gluon()).collect::<Vec<_>>()}));
    Sub {
        name: "derive",
        accs,
        capped,
        space: format!(
            "derive: every variant type with <= {} constructors of <= {} fields over {{Int, String, the type itself, a type parameter}} ({} shapes, constructor and field order significant) and every record type with <= 3 fields over {{Int, String, a}} ({}), each with #[derive(Eq, Show)]; values: every depth-1 value (Int in 0..1, String in \"\",\"x\", a := Int in 5..6) and every depth-2 value whose recursive fields range over <= {} evenly spaced depth-1 values; all ordered pairs for ==, every value for show; {} record / single-payload-variant shapes with #[derive(Serialize, Deserialize)] round-tripped through to_string/deserialize; non-trivial = >= 2 fields in total",
            max_ctors, max_fields, n_variant, n_records, DERIVE_REP_CAP, n_serde
        ),
    }
}

/// the structural images the models rely on (records / tuples in declaration order)
fn calibrate() -> Result<(), String> {
    let mut h = Host::new();
    let chk = |name: &str, got: Res, want: W| -> Result<(), String> {
        match got {
            Res::Ok(w) if w == want => Ok(()),
            other => Err(format!("calibration `{}`: expected image {} but got {}", name, want, other.show())),
        }
    };
    chk("tuple order", h.call(S, "s_split_at", vec![Arg::S("ab".into()), Arg::I(1)]), wtup(vec![ws("a"), ws("b")]))?;
    let e = h.value(M, "empty_i")?;
    let m = h.call_keep(M, "ins_i", vec![Arg::I(1), Arg::I(2), Arg::O(e)]).map_err(|r| r.show())?;
    chk("record field order", h.call(M, "to_list_i", vec![Arg::O(m)]), wlist(vec![wtup(vec![wi(1), wi(2)])]))?;
    chk("list image", h.call(L, "l_of", vec![Arg::V(vec![1, 2])]), wlist(vec![wi(1), wi(2)]))?;
    chk("byte array image", h.call(S, "s_as_bytes", vec![Arg::S("a".into())]), warr(vec![W::Byte(0x61)]))?;
    chk("json image", h.call(J, "j_id", vec![Arg::J(json!([true]))]), W::Data(5, vec![warr(vec![W::Data(1, vec![wbool(true)])])]))?;
    Ok(())
}

pub fn run(tier: &str) -> Report {
    if std::env::var_os("VERIF_C19_CHILD").is_some() {
        child_main();
    }
    let mut report = Report::new("C19", tier, "exploration");
    let deadline = par::deadline_for(tier, 36, 1400);
    if let Err(e) = calibrate() {
        report.machinery(e);
        report.set("evaluations", 0u64);
        report.set("distinct_nontrivial", 0u64);
        report.set("exhaustive", false);
        report.set("rule", "calibration failed");
        return report;
    }
    let only: Option<Vec<String>> = std::env::var("VERIF_C19_ONLY").ok().map(|s| s.split(',').map(|x| x.trim().to_string()).collect());
    let want = |n: &str| only.as_ref().map(|o| o.iter().any(|x| x == n)).unwrap_or(true);
    let mut subs = vec![];
    let t0 = Instant::now();
    let mut timings = vec![];
    for (name, f) in [
        ("map", sub_map as fn(&str, Instant) -> Sub),
        ("list", sub_list),
        ("string", sub_string),
        ("json", sub_json),
        ("derive", sub_derive),
    ] {
        if want(name) {
            let t = Instant::now();
            subs.push(f(tier, deadline));
            timings.push(format!("{} {:.1}s", name, t.elapsed().as_secs_f64()));
        }
    }
    report.set("sub_engine_wall", json!(timings));
    let _ = t0;

    let mut evals = 0u64;
    let mut nontrivial = 0u64;
    let mut capped = false;
    let mut rule = vec![];
    let mut groups: BTreeMap<(String, String), ViolGroup> = BTreeMap::new();
    let mut states: HashSet<W> = HashSet::new();
    let mut model_states: HashSet<Vec<(i64, i64)>> = HashSet::new();
    let mut transitions = 0u64;
    for sub in subs {
        let mut s_cases = 0u64;
        let mut s_evals = 0u64;
        let mut s_nt = 0u64;
        let mut per_fn: BTreeMap<&'static str, u64> = BTreeMap::new();
        let mut notes: BTreeMap<&'static str, u64> = BTreeMap::new();
        for a in sub.accs {
            s_cases += a.cases;
            s_evals += a.evals;
            s_nt += a.nontrivial;
            transitions += a.transitions;
            states.extend(a.states);
            model_states.extend(a.model_states);
            for (k, v) in a.per_fn {
                *per_fn.entry(k).or_insert(0) += v;
            }
            for (k, v) in a.notes {
                *notes.entry(k).or_insert(0) += v;
            }
            for m in a.mach {
                if report.machinery_errors.len() < 10 {
                    report.machinery(format!("[{}] {}", sub.name, m));
                }
            }
            for s in a.samples {
                report.sample(s);
            }
            for (k, g) in a.viol {
                let e = groups.entry(k).or_default();
                e.count += g.count;
                e.smallest.extend(g.smallest);
            }
        }
        evals += s_evals;
        nontrivial += s_nt;
        capped |= sub.capped;
        report.set(&format!("{}.cases", sub.name), s_cases);
        report.set(&format!("{}.evaluations", sub.name), s_evals);
        report.set(&format!("{}.nontrivial_cases", sub.name), s_nt);
        report.set(&format!("{}.exhaustive", sub.name), !sub.capped);
        report.set(&format!("{}.calls_per_function", sub.name), json!(per_fn));
        if !notes.is_empty() {
            report.set(&format!("{}.notes", sub.name), json!(notes));
        }
        rule.push(sub.space);
    }
    report.set("evaluations", evals);
    report.set("distinct_nontrivial", nontrivial);
    report.set("states", states.len() as u64);
    report.set("map.distinct_model_maps", model_states.len() as u64);
    report.set("transitions", transitions);
    report.set("exhaustive", !capped);
    report.set("wall_cap_hit", capped);
    report.set(
        "rule",
        format!(
            "{} || every case is enumerated exactly once from an explicit finite space (no sampling); `evaluations` counts calls into Gluon code whose result was compared with the Rust model, `distinct_nontrivial` counts distinct non-trivial inputs; `states` = distinct real tree images (shape and contents) of std.map values reached, `transitions` = map operations applied in the history exploration",
            rule.join(" || ")
        ),
    );

    // one violation per (function, class): the smallest failing input names it
    for ((func, class), mut g) in groups {
        g.trim();
        let mut reported = false;
        for (m, c) in g.smallest {
            match reproduces(&m, &c) {
                Ok(true) => {
                    report.add("violating_cases_total", g.count - 1);
                    report.violation(
                        format!("c19:{}:{}:{}", func, class, m.input),
                        format!("{} ({} failing case(s) of this kind; smallest shown): {}", func, g.count, m.what),
                        json!({"engine": "c19", "case": c, "function": func, "class": class, "input": m.input}),
                    );
                    reported = true;
                    break;
                }
                Ok(false) => report.machinery(format!("mismatch not reproduced on a second evaluation: {} [{}] {}: {}", func, class, m.input, m.what)),
                Err(e) => report.machinery(e),
            }
        }
        let _ = reported;
    }

    report.assume("`show` of lists, arrays and strings has no documented format: only the elements in order / the contained text are demanded; derived `show` must contain the constructor (or field) names and the shown fields in order and be injective on the enumerated values (the `C (f) (g)` / `{ x = 1 }` format of tests/pass/derive.glu is counted in derive.notes, not demanded)");
    report.assume("`compare` on lists and arrays is only required to be consistent with == and antisymmetric; agreement with the lexicographic order is counted in list.notes");
    report.assume("`==` on std.map values is the derived structural equality of the tree and is not part of the finite-map operations of the property; how often it distinguishes maps with equal contents is counted in map.notes, not demanded");
    report.assume("invalid indices (negative, out of range, not on a char boundary, start > end) must produce a VM error, whatever its text; an abort of the process is a violation. Calls that may abort run in child processes; in-process sweeps skip `string.slice` with start > end on char boundaries");
    report.assume("JSON: non-finite floats and integers beyond i64 are not JSON-representable values of std.json.Value and are excluded; object key order is irrelevant; a std.json Object is compared through the in-order contents of its map, which must be a search tree");
    report.assume("derived Serialize/Deserialize are undocumented (book/src/metadata.md: only Eq and Show) and untagged: only records and variants with one payload of pairwise distinct JSON types per constructor are round-tripped; shapes the macro rejects are counted, not reported");
    report.assume("values are marshalled with gluon's own Pushable/Getable implementations (Vec, String, char, serde_json::Value) whose identity is itself checked (array:marshal, string:marshal, char:marshal, json:marshal)");
    report.assume("harness profile: opt-level 2 with debug-assertions and overflow-checks on");
    report
}

pub fn replay(v: &Value) -> Report {
    if std::env::var_os("VERIF_C19_CHILD").is_some() {
        child_main();
    }
    let mut report = Report::new("C19", "quick", "exploration");
    let case: Case = match serde_json::from_value(v["case"].clone()) {
        Ok(c) => c,
        Err(e) => {
            report.machinery(format!("bad replay case: {}", e));
            return report;
        }
    };
    println!("case: {}", serde_json::to_string(&case).unwrap_or_default());
    let risky = matches!(case, Case::StrSliceRev { .. } | Case::ArrInvalid { .. });
    if risky {
        let (r, mach) = run_in_child(std::slice::from_ref(&case), "replay", None);
        for e in mach {
            report.machinery(e);
        }
        match r.into_iter().next().flatten() {
            Some(ChildResult::Aborted(how)) => {
                let m = abort_mismatch(&case, &how);
                println!("{} {}: {}", m.func, m.input, m.what);
                report.violation("replay", m.what, v.clone());
            }
            Some(ChildResult::Done { mismatches, .. }) => {
                for m in mismatches {
                    println!("{} [{}] {}: {}", m.func, m.class, m.input, m.what);
                    report.violation("replay", m.what, v.clone());
                }
            }
            None => report.machinery("child did not evaluate the case"),
        }
        return report;
    }
    let mut h = Host::new();
    let out = eval_case(&mut h, &case);
    for m in &out.mach {
        report.machinery(m.clone());
    }
    for m in out.mismatches {
        println!("{} [{}] {}: {}", m.func, m.class, m.input, m.what);
        report.violation("replay", m.what, v.clone());
    }
    report
}

